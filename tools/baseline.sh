#!/bin/sh
# Runs the repository's pinned test suite (parallel, same tests as BASELINE.json) in DIR (default /repo).
# Prints the summary line; exit 0 iff exactly 130 passed and the only failure is tests/clingo_test.py::test_clingo.
DIR=${1:-/repo}
cd "$DIR" || exit 3
OUT=$(PYTHONPATH="$DIR" /venv/bin/python -m pytest -q -p no:cacheprovider --timeout=900 --continue-on-collection-errors -n 16 2>&1 | tail -4)
echo "$OUT"
echo "$OUT" | grep -q "1 failed, 130 passed" && echo "$OUT" | grep -q "clingo_test.py::test_clingo" && exit 0
exit 1
