#!/bin/bash
# Runs the deductive part (pyvc) on the function touched by each BEHAVIOUR-PRESERVING refactoring under seeded/benign/.
# None may produce a refuted / failed obligation (= false alarm); "out_of_subset"/"unknown" (undecided) is tolerated and listed.
cd "$(dirname "$0")/.." || exit 3
declare -A FN=( [01]=space_utils.intersect [02]=space_utils.is_subspace [03]=percolate_space_strict [04]=function_eval [05]=restrict_petrinet [06]=extract_source_variables [07]=_create_clingo_constraints [08]=_create_clingo_fixed_point [09]=reduced_STG_async [10]=SuccessionDiagram._ensure_node [11]=_update_node_depth [12]=SuccessionDiagram.node_successors [13]=find_node [14]=expand_dfs [15]=find_drivers [16]=make_heuristic_retained_set )
bad=0
for f in seeded/benign/*.diff; do
  n=$(basename "$f" | cut -c1-2)
  out=$(tools/with_patch.sh "$f" python3-vt -m pyvc.run --only "${FN[$n]}" 2>&1 | grep -v "    cover\|    vacuous")
  line=$(echo "$out" | grep "^biobalm" | tail -1)
  if echo "$out" | grep -q "^    \(failed\|refuted\)"; then verdict="FALSE-ALARM"; bad=1
  elif echo "$line" | grep -q "out_of_subset\|unknown\|crash"; then verdict="undecided"
  else verdict="verified"; fi
  echo "$(basename "$f"): $verdict   $line"
done
exit $bad
