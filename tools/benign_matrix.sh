#!/bin/bash
# Runs the deductive part (pyvc) on the function touched by each BEHAVIOUR-PRESERVING refactoring under seeded/benign/.
# None may produce a refuted / failed obligation (= false alarm); "out_of_subset"/"unknown" (undecided) is tolerated and listed.
cd "$(dirname "$0")/.." || exit 3
declare -A FN=( [01]=space_utils.intersect [02]=space_utils.is_subspace [03]=percolate_space_strict [04]=function_eval [05]=restrict_petrinet [06]=extract_source_variables [07]=_create_clingo_constraints [08]=_create_clingo_fixed_point [09]=reduced_STG_async [10]=SuccessionDiagram._ensure_node [11]=_update_node_depth [12]=SuccessionDiagram.node_successors [13]=find_node [14]=expand_dfs [15]=find_drivers [16]=make_heuristic_retained_set )
declare -A FN2=( [01]=SuccessionDiagram.__init__ [02]=SuccessionDiagram.__setstate__ [03]=SuccessionDiagram.is_subgraph [04]=reclaim_node_data [05]=node_percolated_nfvs [06]=node_percolated_petri_net [07]=edge_all_stable_motifs [08]=skip_to_minimal [09]=node_attractor_seeds [10]=SuccessionDiagram._expand_one_node [11]=expand_bfs [12]=expand_to_target [13]=compute_attractor_candidates [14]=asp_greedy [15]=symbolic_attractor_test [16]=trappist_async [17]=compute_fixed_point_reduced_STG [18]=succession_control )
bad=0
for f in seeded/benign/*.diff seeded/benign2/*.diff; do
  n=$(basename "$f" | cut -c1-2)
  case "$f" in seeded/benign2/*) only="${FN2[$n]}";; *) only="${FN[$n]}";; esac
  out=$(tools/with_patch.sh "$f" python3-vt -m pyvc.run --only "$only" 2>&1 | grep -v "    cover\|    vacuous")
  line=$(echo "$out" | grep "^biobalm" | tail -1)
  if echo "$out" | grep -q "^    \(failed\|refuted\)"; then verdict="FALSE-ALARM"; bad=1
  elif echo "$out" | grep "^biobalm" | grep -q "out_of_subset\|unknown\|crash"; then verdict="undecided"
  else verdict="verified"; fi
  echo "$f: $verdict   $line"
done
exit $bad
