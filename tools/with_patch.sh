#!/bin/bash
# with_patch.sh <patch.diff> <command...>: run a command against a scratch copy of /repo with the patch applied
# (PYVC_REPO points to the copy). The copy lives under mktemp -d and is removed afterwards. /repo is untouched.
P=$(realpath "$1"); shift
T=$(mktemp -d /tmp/pyvcpatch.XXXXXX)
cp -r /repo/biobalm /repo/models /repo/tests /repo/conftest.py /repo/pyproject.toml $T/ 2>/dev/null
( cd $T && patch -s -p1 < "$P" ) || { echo "patch failed"; rm -rf $T; exit 9; }
PYVC_REPO=$T "$@"; rc=$?
rm -rf $T
exit $rc
