#!/bin/bash
# import_seeded.sh <Cxx> <mN>: validate a sub-agent's change (tools/validate_seeded.sh, MUTBASE) and store it under seeded/<Cxx>-<mN>/
P=$1; M=$2; B=${MUTBASE:-/tmp/mut}; OUT=$B/out/$P/$M; V=$(dirname "$(dirname "$(readlink -f "$0")")")
[ -f $OUT/patch.diff ] || { echo "no patch for $P $M"; exit 2; }
res=$(MUTBASE=$B $V/tools/validate_seeded.sh $P $M | tail -1)
echo "$res"
D=$V/seeded/$P-$M; mkdir -p $D
cp $OUT/patch.diff $OUT/demo.py $D/ 2>/dev/null; cp $OUT/README.md $D/README.md 2>/dev/null
python3 - "$res" "$P" "$M" "$D" <<'PY'
import json, sys, subprocess
r = json.loads(sys.argv[1]); P, M, D = sys.argv[2:5]
head = subprocess.run(["git", "-C", "/repo", "rev-parse", "--short", "HEAD"], capture_output=True, text=True).stdout.strip()
ok = r.get("applies") and r.get("demo_clean_exit") == 0 and r.get("demo_mutant_exit") == 1 and "130 passed" in r.get("suite", "") and r.get("suite", "").startswith("1 failed")
meta = {"id": f"{P}-{M}", "breaks_property": P, "source": "independent sub-agent given only the property record and a scratch worktree (round 2)",
        "base_commit": head, "files": r.get("files", "").split(),
        "what_we_ran": {"cmd": f"tools/import_seeded.sh {P} {M}: demo on clean tree, git apply, full suite, demo on changed tree, revert",
                        "suite_with_change": r.get("suite"), "demo_exit_clean_tree": r.get("demo_clean_exit"), "demo_exit_changed_tree": r.get("demo_mutant_exit")},
        "confirmed": bool(ok)}
json.dump(meta, open(f"{D}/meta.json", "w"), indent=1)
print("confirmed" if ok else "NOT CONFIRMED", meta["what_we_ran"])
PY
