#!/bin/bash
# validate_seeded.sh <Cxx> <mN>: confirm a sub-agent's seeded change independently in the scratch worktree /tmp/mut/<Cxx>.
# Prints one JSON line. Used during the build round only (not part of any registered check).
P=$1; M=$2; B=${MUTBASE:-/tmp/mut}; WT=$B/$P; OUT=$B/out/$P/$M
cd $WT || exit 2
git checkout -q -- . ; git clean -fdq biobalm tests 2>/dev/null
clean_status=$(git status --porcelain | grep -v '^??' | wc -l)
PYTHONPATH=$WT timeout 300 /venv/bin/python $OUT/demo.py >$OUT/val_demo_clean.log 2>&1; d0=$?
if ! git apply --check $OUT/patch.diff 2>/dev/null; then echo "{\"id\":\"$P-$M\",\"applies\":false}"; exit 0; fi
git apply $OUT/patch.diff
files=$(git diff --name-only | tr '\n' ' ')
suite=$(PYTHONPATH=$WT timeout 1200 /venv/bin/python -m pytest -q -p no:cacheprovider --timeout=900 -n 4 2>&1 | tail -1)
PYTHONPATH=$WT timeout 300 /venv/bin/python $OUT/demo.py >$OUT/val_demo_mut.log 2>&1; d1=$?
git checkout -q -- .
echo "{\"id\":\"$P-$M\",\"applies\":true,\"files\":\"$files\",\"suite\":\"$suite\",\"demo_clean_exit\":$d0,\"demo_mutant_exit\":$d1}"
