#!/usr/bin/env python3
"""Runs ./check <property> against every seeded change (scratch copy of /repo with the patch applied; /repo untouched;
evidence redirected to a scratch directory) and prints / stores which check catches which change.
  python3 tools/seeded_matrix.py [--only C05] [--tier quick] [--jobs 4]"""
import argparse, json, os, subprocess, sys, tempfile, shutil, concurrent.futures as cf
V = os.path.dirname(os.path.dirname(os.path.abspath(__file__)))

def one(mid, tier, props=None):
    meta = json.load(open(f"{V}/seeded/{mid}/meta.json"))
    out = {"id": mid}
    for pid in (props or [meta["breaks_property"]]):
        evd = tempfile.mkdtemp(prefix="seedev.")
        env = dict(os.environ, VERIF_EVIDENCE_DIR=evd, VERIF_JOBS="6", PYVC_REPLAY_DIR=evd)
        p = subprocess.run([f"{V}/tools/with_patch.sh", f"{V}/seeded/{mid}/patch.diff", f"{V}/check", pid, "--tier", tier],
                           capture_output=True, text=True, env=env, cwd=V)
        lines = [l for l in p.stdout.splitlines() if l.startswith(("VIOLATION", "UNDECIDED", "KNOWN-FINDING", "GUARD", pid + ":"))]
        out[pid] = {"exit": p.returncode, "violations": sum(l.startswith("VIOLATION") for l in lines),
                    "with_input": sum(l.startswith("VIOLATION") and "no-failing-input-found" not in l for l in lines),
                    "undecided": sum(l.startswith("UNDECIDED") for l in lines), "summary": lines[-1] if lines else p.stdout[-300:] + p.stderr[-300:],
                    "first": lines[:3]}
        shutil.rmtree(evd, ignore_errors=True)
    return out

def main():
    ap = argparse.ArgumentParser(); ap.add_argument("--only", default=""); ap.add_argument("--tier", default="quick"); ap.add_argument("--jobs", type=int, default=3)
    a = ap.parse_args()
    ids = sorted(d for d in os.listdir(f"{V}/seeded") if os.path.isfile(f"{V}/seeded/{d}/meta.json") and a.only in d
                 and not json.load(open(f"{V}/seeded/{d}/meta.json")).get("neutralised_by_fix"))      # changes a later repair made harmless are not counted
    res = []
    with cf.ThreadPoolExecutor(a.jobs) as ex:
        for r in ex.map(lambda m: one(m, a.tier), ids):
            res.append(r)
            pid = [k for k in r if k != "id"][0]
            print(r["id"], "exit", r[pid]["exit"], "viol", r[pid]["violations"], "with_input", r[pid]["with_input"], "undecided", r[pid]["undecided"], flush=True)
            _save(a.tier, res)      # incrementally: a crash or an interrupt keeps what was observed so far

    _save(a.tier, res)


def _save(tier, res):
    path = f"{V}/seeded/matrix_{tier}.json"
    merged = {}
    if os.path.exists(path):
        merged = {r["id"]: r for r in json.load(open(path))}       # partial runs (--only) update their entries only
    merged.update({r["id"]: r for r in res})
    json.dump([merged[k] for k in sorted(merged)], open(path, "w"), indent=1)

main()
