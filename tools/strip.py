import ast,sys
class S(ast.NodeTransformer):
    def _strip(self,n):
        self.generic_visit(n)
        if n.body and isinstance(n.body[0],ast.Expr) and isinstance(getattr(n.body[0],'value',None),ast.Constant) and isinstance(n.body[0].value.value,str):
            n.body=n.body[1:] or [ast.Pass()]
        return n
    visit_FunctionDef=_strip; visit_ClassDef=_strip; visit_Module=_strip
    def visit_Expr(self,n):
        if isinstance(n.value,ast.Constant) and isinstance(n.value.value,str): return None
        return n
for p in sys.argv[1:]:
    t=S().visit(ast.parse(open(p).read()))
    print('#'*20,p); print(ast.unparse(t))
