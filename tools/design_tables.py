#!/usr/bin/env python3
"""Prints the generated tables of DESIGN.md section 0 (functions under contract from evidence/*.json, trusted contracts from
the registry, seeded-change matrix from seeded/matrix_quick.json) and splices them between the markers
<!-- BEGIN:name --> ... <!-- END:name --> of DESIGN.md.   python3-vt tools/design_tables.py [--write]"""
import json, os, sys, glob, re
V = os.path.dirname(os.path.dirname(os.path.abspath(__file__)))
sys.path.insert(0, V)


def functions_table():
    fns = {}
    for f in sorted(glob.glob(f"{V}/evidence/C*.json")):
        e = json.load(open(f))
        for r in e["coverage"].get("functions_under_contract", []):
            d = fns.setdefault(r["function"], {"props": set(), "obl": r.get("obligations", 0), "dis": r.get("discharged", 0), "sec": r.get("seconds", 0),
                                               "lines": r.get("lines"), "file": r.get("file", "")})
            d["props"].add(e["property_id"])
    rows = ["| function | lines | properties | obligations (discharged) | z3 s |", "|---|---|---|---|---|"]
    tot = 0
    for q in sorted(fns):
        d = fns[q]
        tot += d["obl"]
        ln = f"{d['lines'][0]}-{d['lines'][1]}" if d.get("lines") else ""
        rows.append(f"| `{q.replace('biobalm.', '')}` | {ln} | {' '.join(sorted(d['props']))} | {d['obl']} ({d['dis']}) | {d['sec']} |")
    rows.append(f"\n{len(fns)} functions / schema lemmas, {tot} obligations (cover obligations not counted).")
    return "\n".join(rows)


def trusted_table():
    from pyvc.run import build_registry
    reg = build_registry()
    rows = ["| assumed contract (not verified against a body) | properties | note |", "|---|---|---|"]
    for q, c in sorted(reg.contracts.items()):
        if c.trusted:
            rows.append(f"| `{q.replace('biobalm.', '')}` | {' '.join(c.properties)} | {c.note[:300]} |")
    rows.append("")
    rows.append("| pinned (trusted) fragment | function | sha256 (normalised AST) |")
    rows.append("|---|---|---|")
    for q, c in sorted(reg.contracts.items()):
        for fr in (getattr(c, "trusted_fragments", None) or []):
            rows.append(f"| {fr['name']} (`{fr['first'][:50]}` … `{fr['last'][:40]}`) | `{q.replace('biobalm.', '')}` | {str(fr.get('sha256'))[:16]}… |")
    return "\n".join(rows)


def matrix_table():
    p = f"{V}/seeded/matrix_quick.json"
    if not os.path.exists(p):
        return "(matrix not run yet)"
    rows = ["| seeded change | check | exit | VIOLATION lines (with concrete input) | undecided obligations | first report |", "|---|---|---|---|---|---|"]
    for r in json.load(open(p)):
        pid = [k for k in r if k != "id"][0]
        d = r[pid]
        first = (d.get("first") or [""])[0].replace("|", "/")[:110]
        rows.append(f"| {r['id']} | ./check {pid} --tier quick | {d['exit']} | {d['violations']} ({d['with_input']}) | {d['undecided']} | {first} |")
    return "\n".join(rows)


def main():
    tabs = {"functions": functions_table(), "trusted": trusted_table(), "matrix": matrix_table()}
    if "--write" not in sys.argv:
        for k, v in tabs.items():
            print(f"## {k}\n{v}\n")
        return
    s = open(f"{V}/DESIGN.md").read()
    for k, v in tabs.items():
        pat = re.compile(rf"(<!-- BEGIN:{k} -->\n).*?(<!-- END:{k} -->)", re.S)
        if not pat.search(s):
            print("marker missing:", k)
            continue
        s = pat.sub(lambda m: m.group(1) + v + "\n" + m.group(2), s)
    open(f"{V}/DESIGN.md", "w").write(s)


main()
