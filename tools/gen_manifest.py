#!/usr/bin/env python3
"""Regenerates /verif/MANIFEST.json from contracts/properties.py (claimed properties) and
properties.jsonl (everything else goes to not_applicable with its reason from NOT_YET)."""
import json, os, sys, subprocess
V = os.path.dirname(os.path.dirname(os.path.abspath(__file__)))
sys.path.insert(0, V)
from contracts.properties import PROPERTIES, NOT_APPLICABLE
props = [json.loads(l) for l in open(os.path.join(V, "properties.jsonl"))]
fix_commits = subprocess.run(["git", "-C", "/repo", "log", "--format=%h %s", "3ce4f8a..HEAD"], capture_output=True, text=True).stdout.strip().splitlines()
checks = []
for p in props:
    pid = p["id"]
    if pid not in PROPERTIES:
        continue
    m = PROPERTIES[pid]
    checks.append({
        "property_id": pid,
        "quick_cmd": f"./check {pid} --tier quick",
        "thorough_cmd": f"./check {pid} --tier thorough",
        "evidence_file": f"/verif/evidence/{pid}.json",
        "replay_cmd_template": f"./check {pid} --replay {{path}}",
        "engine": "pyvc",
        "level_claimed": {"category": "proof",
                          "text": m["decided_by"] + " Every obligation is generated from /repo's current source on every run and "
                                  "discharged by z3 function by function (callers see callee contracts only); an obligation that is not "
                                  "discharged makes the check fail. BOUNDED stand-in, run alongside, reported separately and never counted "
                                  "as proved: " + m.get("bounded", "executable contracts vs a brute-force oracle on small networks") + ".",
                          "design_ref": f"DESIGN.md section 0 (as built: 0.3 functions, 0.4 assumptions, 0.7 seeded changes) and section 7 ({pid})"},
        "level_note": "Trusted: " + "; ".join(m.get("trusted", [])) + "; assumed contracts on biodivine_aeon / clingo / networkx "
                      "(DESIGN.md section 4), cited or Lean-proved lemma instances (section 3), the pyvc front end and z3. "
                      + ("Excluded clauses: " + "; ".join(m["excluded"]) if m.get("excluded") else "No clause of the statement is excluded."),
        "technique": m.get("technique", "contract-based deductive verification: VCs generated from the real Python AST (own generator pyvc), discharged by z3; bounded stand-in with brute-force oracle"),
    })
na = [{"property_id": p["id"], "reason": NOT_APPLICABLE.get(p["id"], "check not built yet in this build round")} for p in props if p["id"] not in PROPERTIES]
man = {
    "version": 1,
    "setup_cmd": "./setup.sh",
    "hooks": {"guard": "BIOBALM_VERIF",
              "enable": "no source hooks: contracts are sidecar files under /verif/contracts, monitors wrap functions at run time; the guard variable is unused by /repo",
              "baseline_off_cmd": "cd /repo && /venv/bin/python -m pytest -ra -q -p no:cacheprovider --timeout=900 --continue-on-collection-errors",
              "source_commits": [l.split()[0] for l in fix_commits],
              "add_only": False},
    "engines": [{"name": "pyvc", "path": "/verif/pyvc", "serves_properties": sorted(PROPERTIES),
                 "kind_free_text": "own verification-condition generator: symbolic execution of the real Python AST against sidecar contracts, z3 back end"},
                {"name": "bounded", "path": "/verif/bounded", "serves_properties": sorted(PROPERTIES),
                 "kind_free_text": "bounded stand-in: executable contracts vs brute-force explicit-state oracle (labelled bounded)"}],
    "checks": checks,
    "notes": "source_commits are unguarded `fix:` commits (repairs of genuine defects, see known_findings.json); there are no guarded hook commits.",
    "not_applicable": na,
}
json.dump(man, open(os.path.join(V, "MANIFEST.json"), "w"), indent=1)
print("checks:", [c["property_id"] for c in checks], "not_applicable:", len(na))
