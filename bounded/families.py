"""Deterministic input families: networks (as .bnet text) and API-call histories (as JSON lists).

Everything here is a pure function of its arguments (seeds are explicit integers); nothing imports
biobalm.  A network is a list of (variable, expression) pairs internally and .bnet text externally.
"""
from __future__ import annotations

import itertools
import random
import re

# --------------------------------------------------------------------------------------------
# text helpers
# --------------------------------------------------------------------------------------------
HEADER = "targets,factors\n"


def to_bnet(rules) -> str:
    return "\n".join(f"{v}, {e}" for v, e in rules)


def parse_rules(bnet: str):
    rules = []
    for line in bnet.replace(";", "\n").splitlines():
        line = line.strip()
        if not line or line.startswith("#") or line.replace(" ", "").lower() == "targets,factors":
            continue
        v, e = line.split(",", 1)
        rules.append((v.strip(), e.strip()))
    return rules


def norm(bnet: str) -> str:
    """Accept `a, x; b, y` shorthand."""
    return to_bnet(parse_rules(bnet))


def rename(bnet: str, mapping: dict) -> str:
    """Rename variables (identifier tokens) simultaneously."""
    pat = re.compile(r"[A-Za-z_][A-Za-z0-9_]*")

    def sub(m):
        w = m.group(0)
        return mapping.get(w, w)

    return to_bnet([(mapping.get(v, v), pat.sub(sub, e)) for v, e in parse_rules(bnet)])


def variables(bnet: str):
    return [v for v, _ in parse_rules(bnet)]


def union(*parts: str) -> str:
    """Disjoint union; part i gets the suffix `_i` on every variable when names would clash."""
    seen = set()
    out = []
    for i, p in enumerate(parts):
        vs = variables(p)
        if seen & set(vs):
            p = rename(p, {v: f"{v}_{i}" for v in vs})
            vs = variables(p)
        assert not (seen & set(vs))
        seen |= set(vs)
        out += parse_rules(p)
    return to_bnet(out)


def dnf(inputs, table) -> str:
    """Expression for the function of `inputs` whose truth table (index = sum bit_j << j) is `table`."""
    k = len(inputs)
    rows = [r for r in range(1 << k) if table[r]]
    if not rows:
        return "false"
    if len(rows) == 1 << k:
        return "true"
    terms = []
    for r in rows:
        lits = [(inputs[j] if (r >> j) & 1 else "!" + inputs[j]) for j in range(k)]
        terms.append("(" + " & ".join(lits) + ")")
    return " | ".join(terms)


# --------------------------------------------------------------------------------------------
# exhaustive tiny networks
# --------------------------------------------------------------------------------------------
def nets_1var():
    return [to_bnet([("a", dnf(["a"], t))]) for t in itertools.product((0, 1), repeat=2)]


def nets_2var():
    """All 256 networks over a, b (each update function an arbitrary function of a, b)."""
    tabs = list(itertools.product((0, 1), repeat=4))
    return [to_bnet([("a", dnf(["a", "b"], ta)), ("b", dnf(["a", "b"], tb))]) for ta in tabs for tb in tabs]


def nets_2var_sample(seed: int, k: int):
    allnets = nets_2var()
    rng = random.Random(seed * 7919 + 17)
    idx = list(range(len(allnets)))
    rng.shuffle(idx)
    return [allnets[i] for i in idx[:k]]


# --------------------------------------------------------------------------------------------
# seeded random networks
# --------------------------------------------------------------------------------------------
def random_net(seed: int, n: int | None = None, max_in: int = 3, p_const: float = 0.08, p_src: float = 0.12,
               p_self: float = 0.25, names=None) -> str:
    """Random network with n (3..6 if None) variables: constants, source variables, self-loops and
    arbitrary (in general non-monotonic) truth tables over <= max_in inputs."""
    rng = random.Random(seed)
    if n is None:
        n = rng.choice([3, 3, 4, 4, 4, 5, 5, 6])
    names = names or [chr(ord("a") + i) for i in range(n)]
    rules = []
    for v in names:
        r = rng.random()
        if r < p_const:
            rules.append((v, rng.choice(["true", "false"])))
            continue
        if r < p_const + p_src:
            rules.append((v, v))
            continue
        k = rng.randint(1, min(max_in, n))
        others = [w for w in names if w != v]
        ins = rng.sample(others, min(k, len(others)))
        if rng.random() < p_self:
            ins = ([v] + ins)[:k] if k > 0 else [v]
        ins = sorted(set(ins)) or [v]
        table = [1 if rng.random() < 0.5 else 0 for _ in range(1 << len(ins))]
        rules.append((v, dnf(ins, table)))
    return to_bnet(rules)


def random_nets(seed: int, count: int, n: int | None = None, **kw):
    return [random_net(seed * 1_000_003 + i, n, **kw) for i in range(count)]


# --------------------------------------------------------------------------------------------
# hand-built networks
# --------------------------------------------------------------------------------------------
MAA_CORE = norm("A,(!A&!B)|C; B,(!A&!B)|C; C,A&B")  # one fixed point 111 and a motif-avoidant cycle


def latch(i="") -> str:
    return norm(f"p{i}, p{i}|t{i}; t{i}, !t{i}&!p{i}")


def switch(i="") -> str:  # bistable positive-feedback switch
    return norm(f"x{i}, y{i}; y{i}, x{i}")


def toggle(i="") -> str:  # mutual inhibition
    return norm(f"u{i}, !w{i}; w{i}, !u{i}")


def sources(k: int) -> str:
    return to_bnet([(f"s{i}", f"s{i}") for i in range(k)])


FINDINGS = {
    "D1_sources10": sources(10).replace("s", "x"),
    "D2": norm("a, a&!b; b, a; c, !a&!d; d, (!a&!d&!b)|(!a&d&!b)|(!a&d&b)|(a&d&!b)"),
    "D3a": norm("a,a; b,(!c&!b)|(c&!b)|(c&b); c,(!b&c)|(b&!c); d,!c"),
    "D3b": union(MAA_CORE, latch(1)),
    "D4": norm("a, b; b, a; c, c&a"),
    "D5": norm("a, a | (b & c); b, b | a; c, !c; d, d & a"),
    "D9": norm("a, a&b; b, a|b; c, c&d; d, c|d"),
    "D11": norm("a, !a; b, (!b&!c)|(b&!c)|(!b&c); c, !c&!b; d, (!d&!b&!c)|(!d&b&!c)|(d&b&!c)"),
    "D12": union(MAA_CORE, latch(1), latch(2), latch(3)),
    # D11 shape that survives full expansion: the whole space is the only trap space, every variable is in the NFVS
    "D11_minroot": norm("a, (!a & !b & !c) | (a & !b & !c) | (!a & !b & c) | (!a & b & c) | (a & b & c); "
                        "b, (!a & !b & !c) | (a & !b & !c) | (a & !b & c) | (!a & b & c); "
                        "c, (!a & b & !c) | (!a & !b & c) | (a & !b & c) | (a & b & c)"),
}

HAND = {
    "maa_core": MAA_CORE,
    "maa_latch": union(MAA_CORE, latch(1)),
    "maa_2latch": union(MAA_CORE, latch(1), latch(2)),
    "maa_switch": union(MAA_CORE, switch()),
    "maa_toggle": union(MAA_CORE, toggle()),
    "maa_source": union(MAA_CORE, sources(1)),
    "maa_double": union(MAA_CORE, MAA_CORE),
    "maa_latch_switch": union(MAA_CORE, latch(1), switch()),
    "maa_latch_toggle": union(MAA_CORE, latch(1), toggle()),
    "maa_2latch_source": union(MAA_CORE, latch(1), latch(2), sources(1)),
    "maa_gated": norm("A,((!A&!B)|C)&s; B,((!A&!B)|C)&s; C,A&B; s,s"),
    "latch": latch(),
    "latch2": union(latch(1), latch(2)),
    "switch": switch(),
    "switch2": union(switch(1), switch(2)),
    "toggle": toggle(),
    "sources2": sources(2),
    "sources3": sources(3),
    "source_and": norm("s, s; a, s & b; b, a | s"),
    "source_chain": norm("s, s; r, r; a, s & r; b, a | b; c, !c & b"),
    "source_osc": norm("s, s; a, !a & s; b, a | b"),
    "const_chain": norm("k, true; a, k & b; b, a; c, !k | c"),
    "const_false": norm("k, false; a, k | !a; b, a & b"),
    "neg_cycle3": norm("a, !c; b, a; c, b"),
    "neg_cycle_gate": norm("a, !c & d; b, a; c, b; d, d | a"),
    "xor": norm("a, (a & !b) | (!a & b); b, (a & b) | (!a & !b)"),
    "doc_abc": norm("A, B; B, A & C; C, !A | B"),
    "doc_control": norm("S, S; A, S | B; B, A; C, A | D; D, C; E, false"),
    "and3": norm("A, B & C; B, A & C; C, A & B"),
    "multipath": norm("a, a | b; b, b | a; c, c | (a & b); d, d & c"),
    "deep": norm("a, a; b, b & a; c, c & b; d, d & c; e, !e & d"),
    "two_motifs_one_child": norm("a, a | b; b, a | b; c, a & b & !c"),
    "osc_pair": union(norm("a, !a"), norm("b, !b")),
}
HAND.update(FINDINGS)
# networks in which the unreduced candidate list (reduction options off) contains a transient state AFTER a
# state of the attractor it leads to: the exact filter must remember the attractors it has already found
TRANSIENT_CANDIDATES = {
    "tc_1": norm("a, (!a & !b & !c) | (!a & b & !c) | (a & b & !c) | (a & !b & c); b, d; c, (!a & !c & !d) | (!a & c & !d) | (a & c & !d) | (a & c & d); d, !d"),
    "tc_2": norm("a, a; b, (a & !c & !d) | (!a & c & !d) | (a & !c & d) | (!a & c & d) | (a & c & d); c, c; "
                 "d, (!a & !b & !c) | (a & b & !c) | (!a & !b & c) | (a & !b & c) | (!a & b & c)"),
    "tc_3": norm("a, !b; b, (a & c & !d) | (!a & c & d) | (a & c & d); c, (!b & d) | (b & d); d, d"),
    "tc_4": norm("a, !c; b, (!b & !c) | (!b & c); c, (!a & !b) | (!a & b) | (a & b)"),
    "tc_5": norm("a, !b & !c; b, (!a & b & !c) | (!a & !b & c) | (!a & b & c); c, a & !b"),
}
HAND.update(TRANSIENT_CANDIDATES)

# networks whose names need sanitising (AEON accepts braces etc. in .aeon; for bnet we keep to what
# the bnet parser accepts); used by C17 through the BooleanNetwork API as well.
WEIRD_NAMES = {
    "upper_digits": norm("Gene_1, Gene_2 & !X9; Gene_2, Gene_1; X9, X9 | Gene_1"),
    "prefix_like_places": norm("b0_a, b1_a; b1_a, !b0_a; tr, b0_a & tr"),
    "underscores": norm("_a, __a; __a, _a | ___a; ___a, !___a & _a"),
}


def hand_nets(max_vars: int = 10):
    return [(k, v) for k, v in HAND.items() if len(variables(v)) <= max_vars]


def maa_nets():
    return [(k, v) for k, v in HAND.items() if k.startswith("maa") or k in ("D3b", "D12")]


def network_family(seed: int, tier: str, max_vars: int = 6, n_random: int | None = None, include_2var: int | None = None,
                   hand_max_vars: int = 9, hand: bool = True):
    """Default ordered family (a generator): hand-built networks (defect-shaped first), all 1-variable
    networks, 2-variable networks (a seeded sample in the quick tier, all 256 in the thorough tier),
    then a long stream of seeded random networks with 3..max_vars variables (the thorough tier mixes
    in more of the larger ones and, if max_vars >= 6, occasionally 7 variables).  Consumers stop at
    their time budget; the order is a function of (seed, tier) only."""
    if hand:
        first = [k for k in list(FINDINGS) + list(TRANSIENT_CANDIDATES) if len(variables(HAND[k])) <= hand_max_vars]
        for k in first:
            yield (k, HAND[k])
        for k, v in hand_nets(hand_max_vars):
            if k not in first:
                yield (k, v)
    for i, b in enumerate(nets_1var()):
        yield (f"one{i}", b)
    if include_2var is None:
        include_2var = 32 if tier == "quick" else 256
    for i, b in enumerate(nets_2var_sample(seed, include_2var)):
        yield (f"two{i}", b)
    if n_random is None:
        n_random = 20_000 if tier == "quick" else 200_000
    sizes = [3, 3, 4, 4, 4, 5, 5, 6] if tier == "quick" else [3, 4, 4, 5, 5, 5, 6, 6, 6, 7]
    sizes = [min(x, max_vars) for x in sizes] if max_vars < 6 else sizes
    for i in range(n_random):
        s = seed * 1_000_003 + i
        n = random.Random(s ^ 0x5EED).choice(sizes)
        yield (f"rnd{s}", random_net(s, n))


# --------------------------------------------------------------------------------------------
# spaces
# --------------------------------------------------------------------------------------------
def random_space(rng: random.Random, names, p_fix: float = 0.4) -> dict:
    return {v: rng.randint(0, 1) for v in names if rng.random() < p_fix}


def all_spaces(names):
    for vals in itertools.product((None, 0, 1), repeat=len(names)):
        yield {k: v for k, v in zip(names, vals) if v is not None}


# --------------------------------------------------------------------------------------------
# API-call histories
# --------------------------------------------------------------------------------------------
# A history is a list of steps; a step is a list [op, args...] (JSON).  Node arguments are
# non-negative integers interpreted modulo the current number of nodes when the step is executed.
# See common.run_history for the meaning of each op.
PLAIN_OPS = ["bfs", "dfs", "min", "aseeds", "target", "block_plain", "succ"]
QUERY_OPS = ["cands", "seeds", "sets"]
SKIP_OPS = ["skip", "skip_remaining", "min_skip"]
HOUSE_OPS = ["reclaim", "pickle"]
SHORTCUT_OPS = ["block", "scc", "build"]


def _lim(rng, hi=6, p_none=0.4):
    return None if rng.random() < p_none else rng.randint(0, hi)


def random_step(rng: random.Random, names, ops) -> list:
    op = rng.choice(ops)
    node = rng.randint(0, 12)
    if op == "bfs":
        return ["bfs", node if rng.random() < 0.5 else None, _lim(rng, 3), _lim(rng, 8)]
    if op == "dfs":
        return ["dfs", node if rng.random() < 0.5 else None, _lim(rng, 3), _lim(rng, 8)]
    if op == "min":
        return ["min", node if rng.random() < 0.4 else None, _lim(rng, 8), False]
    if op == "min_skip":
        return ["min", node if rng.random() < 0.3 else None, _lim(rng, 8, 0.6), True]
    if op == "aseeds":
        return ["aseeds", _lim(rng, 8)]
    if op == "target":
        return ["target", random_space(rng, names, 0.35), _lim(rng, 8)]
    if op == "block_plain":
        return ["block", rng.random() < 0.5, _lim(rng, 8, 0.5), False, False]
    if op == "block":
        return ["block", rng.random() < 0.6, _lim(rng, 10, 0.6), True, rng.random() < 0.2]
    if op == "scc":
        return ["scc", rng.random() < 0.6]
    if op == "build":
        return ["build"]
    if op == "succ":
        return ["succ", node]
    if op == "cands":
        return ["cands", node, rng.random() < 0.7, rng.random() < 0.7]
    if op == "seeds":
        return ["seeds", node, rng.random() < 0.2]
    if op == "sets":
        return ["sets", node]
    if op == "skip":
        return ["skip", node]
    if op in ("skip_remaining", "reclaim", "pickle"):
        return [op]
    raise ValueError(op)


def random_history(seed: int, names, length: int, ops) -> list:
    rng = random.Random(seed)
    return [random_step(rng, names, ops) for _ in range(length)]


# --------------------------------------------------------------------------------------------
# presentation-level transformations (C17); each returns (new bnet text, rename map old->new, flipped old names)
# --------------------------------------------------------------------------------------------
def t_rename(bnet: str, seed: int):
    vs = variables(bnet)
    rng = random.Random(seed)
    perm = vs[:]
    rng.shuffle(perm)
    style = rng.choice(["perm", "prefix", "upper"])
    if style == "perm":
        mapping = dict(zip(vs, perm))
    elif style == "prefix":
        mapping = {v: f"{'zyxwvutsrq'[i % 10]}{i}_{v}" for i, v in enumerate(vs)}
    else:
        mapping = {v: (v.upper() + "_" if v.upper() != v else v.lower() + "_") for v in vs}
    if len(set(mapping.values())) != len(vs):
        mapping = {v: f"n{i}" for i, v in enumerate(reversed(vs))}
    return rename(bnet, mapping), mapping, []


def t_reorder(bnet: str, seed: int):
    rules = parse_rules(bnet)
    random.Random(seed).shuffle(rules)
    return to_bnet(rules), {v: v for v, _ in rules}, []


def t_equivalent(bnet: str, seed: int):
    rng = random.Random(seed)
    vs = variables(bnet)
    out = []
    for v, e in parse_rules(bnet):
        w = rng.choice(vs)
        m = rng.randrange(5)
        if m == 0:
            e2 = f"!!({e})"
        elif m == 1:
            e2 = f"({e}) & ({w} | !{w})"
        elif m == 2:
            e2 = f"({e}) | ({w} & !{w})"
        elif m == 3:
            e2 = f"(({e}) & {w}) | (({e}) & !{w})"
        else:
            e2 = f"!(!({e}) | ({w} & !{w}))"
        out.append((v, e2))
    return to_bnet(out), {v: v for v in vs}, []


def t_negate(bnet: str, seed: int):
    """Encode one or two variables by their negation: v = !nv."""
    rng = random.Random(seed)
    vs = variables(bnet)
    flip = rng.sample(vs, min(len(vs), rng.choice([1, 1, 2])))
    new = {v: (f"n_{v}" if v in flip else v) for v in vs}
    pat = re.compile(r"[A-Za-z_][A-Za-z0-9_]*")

    def sub(m):
        w = m.group(0)
        if w in flip:
            return f"(!{new[w]})"
        return w

    out = []
    for v, e in parse_rules(bnet):
        e2 = pat.sub(sub, e)
        out.append((new[v], f"!({e2})" if v in flip else e2))
    return to_bnet(out), new, flip


TRANSFORMS = {"rename": t_rename, "reorder": t_reorder, "equivalent": t_equivalent, "negate": t_negate}
