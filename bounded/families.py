"""Deterministic input families: networks (as .bnet text) and API-call histories (as JSON lists).

Everything here is a pure function of its arguments (seeds are explicit integers); nothing imports
biobalm.  A network is a list of (variable, expression) pairs internally and .bnet text externally.
"""
from __future__ import annotations

import itertools
import random
import re

# --------------------------------------------------------------------------------------------
# text helpers
# --------------------------------------------------------------------------------------------
HEADER = "targets,factors\n"


def to_bnet(rules) -> str:
    return "\n".join(f"{v}, {e}" for v, e in rules)


def parse_rules(bnet: str):
    rules = []
    for line in bnet.replace(";", "\n").splitlines():
        line = line.strip()
        if not line or line.startswith("#") or line.replace(" ", "").lower() == "targets,factors":
            continue
        v, e = line.split(",", 1)
        rules.append((v.strip(), e.strip()))
    return rules


def norm(bnet: str) -> str:
    """Accept `a, x; b, y` shorthand."""
    return to_bnet(parse_rules(bnet))


def rename(bnet: str, mapping: dict) -> str:
    """Rename variables (identifier tokens) simultaneously."""
    pat = re.compile(r"[A-Za-z_][A-Za-z0-9_]*")

    def sub(m):
        w = m.group(0)
        return mapping.get(w, w)

    return to_bnet([(mapping.get(v, v), pat.sub(sub, e)) for v, e in parse_rules(bnet)])


def variables(bnet: str):
    return [v for v, _ in parse_rules(bnet)]


def union(*parts: str) -> str:
    """Disjoint union; part i gets the suffix `_i` on every variable when names would clash."""
    seen = set()
    out = []
    for i, p in enumerate(parts):
        vs = variables(p)
        if seen & set(vs):
            p = rename(p, {v: f"{v}_{i}" for v in vs})
            vs = variables(p)
        assert not (seen & set(vs))
        seen |= set(vs)
        out += parse_rules(p)
    return to_bnet(out)


def dnf(inputs, table) -> str:
    """Expression for the function of `inputs` whose truth table (index = sum bit_j << j) is `table`."""
    k = len(inputs)
    rows = [r for r in range(1 << k) if table[r]]
    if not rows:
        return "false"
    if len(rows) == 1 << k:
        return "true"
    terms = []
    for r in rows:
        lits = [(inputs[j] if (r >> j) & 1 else "!" + inputs[j]) for j in range(k)]
        terms.append("(" + " & ".join(lits) + ")")
    return " | ".join(terms)


# --------------------------------------------------------------------------------------------
# exhaustive tiny networks
# --------------------------------------------------------------------------------------------
def nets_1var():
    return [to_bnet([("a", dnf(["a"], t))]) for t in itertools.product((0, 1), repeat=2)]


def nets_2var():
    """All 256 networks over a, b (each update function an arbitrary function of a, b)."""
    tabs = list(itertools.product((0, 1), repeat=4))
    return [to_bnet([("a", dnf(["a", "b"], ta)), ("b", dnf(["a", "b"], tb))]) for ta in tabs for tb in tabs]


def nets_2var_sample(seed: int, k: int):
    allnets = nets_2var()
    rng = random.Random(seed * 7919 + 17)
    idx = list(range(len(allnets)))
    rng.shuffle(idx)
    return [allnets[i] for i in idx[:k]]


# --------------------------------------------------------------------------------------------
# seeded random networks
# --------------------------------------------------------------------------------------------
def random_net(seed: int, n: int | None = None, max_in: int = 3, p_const: float = 0.08, p_src: float = 0.12,
               p_self: float = 0.25, names=None) -> str:
    """Random network with n (3..6 if None) variables: constants, source variables, self-loops and
    arbitrary (in general non-monotonic) truth tables over <= max_in inputs."""
    rng = random.Random(seed)
    if n is None:
        n = rng.choice([3, 3, 4, 4, 4, 5, 5, 6])
    names = names or [chr(ord("a") + i) for i in range(n)]
    rules = []
    for v in names:
        r = rng.random()
        if r < p_const:
            rules.append((v, rng.choice(["true", "false"])))
            continue
        if r < p_const + p_src:
            rules.append((v, v))
            continue
        k = rng.randint(1, min(max_in, n))
        others = [w for w in names if w != v]
        ins = rng.sample(others, min(k, len(others)))
        if rng.random() < p_self:
            ins = ([v] + ins)[:k] if k > 0 else [v]
        ins = sorted(set(ins)) or [v]
        table = [1 if rng.random() < 0.5 else 0 for _ in range(1 << len(ins))]
        rules.append((v, dnf(ins, table)))
    return to_bnet(rules)


def random_nets(seed: int, count: int, n: int | None = None, **kw):
    return [random_net(seed * 1_000_003 + i, n, **kw) for i in range(count)]


# --------------------------------------------------------------------------------------------
# hand-built networks
# --------------------------------------------------------------------------------------------
MAA_CORE = norm("A,(!A&!B)|C; B,(!A&!B)|C; C,A&B")  # one fixed point 111 and a motif-avoidant cycle


def latch(i="") -> str:
    return norm(f"p{i}, p{i}|t{i}; t{i}, !t{i}&!p{i}")


def switch(i="") -> str:  # bistable positive-feedback switch
    return norm(f"x{i}, y{i}; y{i}, x{i}")


def toggle(i="") -> str:  # mutual inhibition
    return norm(f"u{i}, !w{i}; w{i}, !u{i}")


def sources(k: int) -> str:
    return to_bnet([(f"s{i}", f"s{i}") for i in range(k)])


FINDINGS = {
    "D1_sources10": sources(10).replace("s", "x"),
    "D2": norm("a, a&!b; b, a; c, !a&!d; d, (!a&!d&!b)|(!a&d&!b)|(!a&d&b)|(a&d&!b)"),
    "D3a": norm("a,a; b,(!c&!b)|(c&!b)|(c&b); c,(!b&c)|(b&!c); d,!c"),
    "D3b": union(MAA_CORE, latch(1)),
    "D4": norm("a, b; b, a; c, c&a"),
    "D5": norm("a, a | (b & c); b, b | a; c, !c; d, d & a"),
    "D9": norm("a, a&b; b, a|b; c, c&d; d, c|d"),
    "D11": norm("a, !a; b, (!b&!c)|(b&!c)|(!b&c); c, !c&!b; d, (!d&!b&!c)|(!d&b&!c)|(d&b&!c)"),
    "D12": union(MAA_CORE, latch(1), latch(2), latch(3)),
    # D11 shape that survives full expansion: the whole space is the only trap space, every variable is in the NFVS
    "D11_minroot": norm("a, (!a & !b & !c) | (a & !b & !c) | (!a & !b & c) | (!a & b & c) | (a & b & c); "
                        "b, (!a & !b & !c) | (a & !b & !c) | (a & !b & c) | (!a & b & c); "
                        "c, (!a & b & !c) | (!a & !b & c) | (a & !b & c) | (a & b & c)"),
}

HAND = {
    "maa_core": MAA_CORE,
    "maa_latch": union(MAA_CORE, latch(1)),
    "maa_2latch": union(MAA_CORE, latch(1), latch(2)),
    "maa_switch": union(MAA_CORE, switch()),
    "maa_toggle": union(MAA_CORE, toggle()),
    "maa_source": union(MAA_CORE, sources(1)),
    "maa_double": union(MAA_CORE, MAA_CORE),
    "maa_latch_switch": union(MAA_CORE, latch(1), switch()),
    "maa_latch_toggle": union(MAA_CORE, latch(1), toggle()),
    "maa_2latch_source": union(MAA_CORE, latch(1), latch(2), sources(1)),
    "maa_gated": norm("A,((!A&!B)|C)&s; B,((!A&!B)|C)&s; C,A&B; s,s"),
    "latch": latch(),
    "latch2": union(latch(1), latch(2)),
    "switch": switch(),
    "switch2": union(switch(1), switch(2)),
    "toggle": toggle(),
    "sources2": sources(2),
    "sources3": sources(3),
    "source_and": norm("s, s; a, s & b; b, a | s"),
    "source_chain": norm("s, s; r, r; a, s & r; b, a | b; c, !c & b"),
    "source_osc": norm("s, s; a, !a & s; b, a | b"),
    "const_chain": norm("k, true; a, k & b; b, a; c, !k | c"),
    "const_false": norm("k, false; a, k | !a; b, a & b"),
    "neg_cycle3": norm("a, !c; b, a; c, b"),
    "neg_cycle_gate": norm("a, !c & d; b, a; c, b; d, d | a"),
    "xor": norm("a, (a & !b) | (!a & b); b, (a & b) | (!a & !b)"),
    "doc_abc": norm("A, B; B, A & C; C, !A | B"),
    "doc_control": norm("S, S; A, S | B; B, A; C, A | D; D, C; E, false"),
    "and3": norm("A, B & C; B, A & C; C, A & B"),
    "multipath": norm("a, a | b; b, b | a; c, c | (a & b); d, d & c"),
    "deep": norm("a, a; b, b & a; c, c & b; d, d & c; e, !e & d"),
    "two_motifs_one_child": norm("a, a | b; b, a | b; c, a & b & !c"),
    "osc_pair": union(norm("a, !a"), norm("b, !b")),
}
HAND.update(FINDINGS)
# networks in which the unreduced candidate list (reduction options off) contains a transient state AFTER a
# state of the attractor it leads to: the exact filter must remember the attractors it has already found
TRANSIENT_CANDIDATES = {
    "tc_1": norm("a, (!a & !b & !c) | (!a & b & !c) | (a & b & !c) | (a & !b & c); b, d; c, (!a & !c & !d) | (!a & c & !d) | (a & c & !d) | (a & c & d); d, !d"),
    "tc_2": norm("a, a; b, (a & !c & !d) | (!a & c & !d) | (a & !c & d) | (!a & c & d) | (a & c & d); c, c; "
                 "d, (!a & !b & !c) | (a & b & !c) | (!a & !b & c) | (a & !b & c) | (!a & b & c)"),
    "tc_3": norm("a, !b; b, (a & c & !d) | (!a & c & d) | (a & c & d); c, (!b & d) | (b & d); d, d"),
    "tc_4": norm("a, !c; b, (!b & !c) | (!b & c); c, (!a & !b) | (!a & b) | (a & b)"),
    "tc_5": norm("a, !b & !c; b, (!a & b & !c) | (!a & !b & c) | (!a & b & c); c, a & !b"),
}
HAND.update(TRANSIENT_CANDIDATES)

# networks whose names need sanitising (AEON accepts braces etc. in .aeon; for bnet we keep to what
# the bnet parser accepts); used by C17 through the BooleanNetwork API as well.
WEIRD_NAMES = {
    "upper_digits": norm("Gene_1, Gene_2 & !X9; Gene_2, Gene_1; X9, X9 | Gene_1"),
    "prefix_like_places": norm("b0_a, b1_a; b1_a, !b0_a; tr, b0_a & tr"),
    "underscores": norm("_a, __a; __a, _a | ___a; ___a, !___a & _a"),
}


# ---- source SCC whose own succession diagram is nested: a motif-avoidant module that only runs inside an inner (non-root, non-minimal) trap space of its
# component, next to a second source SCC - the shape the component-wise drivers (expand_scc / expand_block) copy node by node into the main diagram
# (added after the round-5 seeded-change review: C12-m5 needs exactly this)
def nested_scc_nets():
    gates = {
        "latch_on": ("{g} & ", "g, g | (A & B & C)"),                 # the module runs inside the trap space g=1 of its own component
        "latch_on_plain": ("{g} & ", "g, g | (A & B)"),
        "pair_on": ("{g} & ", "g, h | (A & B & C); h, g"),            # the enabling trap space is a two-variable motif
    }
    seconds = {"pos_pair": "E, F; F, E", "neg_pair": "E, !F; F, !E", "self": "E, E | (E & E)", "latch": "E, E | F; F, !F & !E"}
    out = []
    for gn, (pre, grule) in gates.items():
        for sn, srule in seconds.items():
            core = "A, {p}((!A & !B) | C); B, {p}((!A & !B) | C); C, {p}A & B".replace("{p}", pre.replace("{g}", "g"))
            out.append((f"nested_scc_{gn}_{sn}", norm(core + "; " + grule + "; " + srule)))
    out.append(("nested_scc_down", norm("A, g & ((!A & !B) | C); B, g & ((!A & !B) | C); C, g & A & B; g, g | (A & B & C); E, F; F, E; d, C & E")))
    return out


def hand_nets(max_vars: int = 10):
    return [(k, v) for k, v in HAND.items() if len(variables(v)) <= max_vars]


def maa_nets():
    return [(k, v) for k, v in HAND.items() if k.startswith("maa") or k in ("D3b", "D12")]


def network_family(seed: int, tier: str, max_vars: int = 6, n_random: int | None = None, include_2var: int | None = None,
                   hand_max_vars: int = 9, hand: bool = True):
    """Default ordered family (a generator): hand-built networks (defect-shaped first), all 1-variable
    networks, 2-variable networks (a seeded sample in the quick tier, all 256 in the thorough tier),
    then a long stream of seeded random networks with 3..max_vars variables (the thorough tier mixes
    in more of the larger ones and, if max_vars >= 6, occasionally 7 variables).  Consumers stop at
    their time budget; the order is a function of (seed, tier) only."""
    if hand:
        first = [k for k in list(FINDINGS) + list(TRANSIENT_CANDIDATES) if len(variables(HAND[k])) <= hand_max_vars]
        for k in first:
            yield (k, HAND[k])
        for k, v in hand_nets(hand_max_vars):
            if k not in first:
                yield (k, v)
    for i, b in enumerate(nets_1var()):
        yield (f"one{i}", b)
    if include_2var is None:
        include_2var = 32 if tier == "quick" else 256
    for i, b in enumerate(nets_2var_sample(seed, include_2var)):
        yield (f"two{i}", b)
    if n_random is None:
        n_random = 20_000 if tier == "quick" else 200_000
    sizes = [3, 3, 4, 4, 4, 5, 5, 6] if tier == "quick" else [3, 4, 4, 5, 5, 5, 6, 6, 6, 7]
    sizes = [min(x, max_vars) for x in sizes] if max_vars < 6 else sizes
    for i in range(n_random):
        s = seed * 1_000_003 + i
        n = random.Random(s ^ 0x5EED).choice(sizes)
        yield (f"rnd{s}", random_net(s, n))


# --------------------------------------------------------------------------------------------
# spaces
# --------------------------------------------------------------------------------------------
def random_space(rng: random.Random, names, p_fix: float = 0.4) -> dict:
    return {v: rng.randint(0, 1) for v in names if rng.random() < p_fix}


def all_spaces(names):
    for vals in itertools.product((None, 0, 1), repeat=len(names)):
        yield {k: v for k, v in zip(names, vals) if v is not None}


# --------------------------------------------------------------------------------------------
# API-call histories
# --------------------------------------------------------------------------------------------
# A history is a list of steps; a step is a list [op, args...] (JSON).  Node arguments are
# non-negative integers interpreted modulo the current number of nodes when the step is executed.
# See common.run_history for the meaning of each op.
PLAIN_OPS = ["bfs", "dfs", "min", "aseeds", "target", "block_plain", "succ"]
QUERY_OPS = ["cands", "seeds", "sets"]
SKIP_OPS = ["skip", "skip_remaining", "min_skip"]
HOUSE_OPS = ["reclaim", "pickle"]
SHORTCUT_OPS = ["block", "scc", "build"]


def _lim(rng, hi=6, p_none=0.4):
    return None if rng.random() < p_none else rng.randint(0, hi)


def random_step(rng: random.Random, names, ops) -> list:
    op = rng.choice(ops)
    node = rng.randint(0, 12)
    if op == "bfs":
        return ["bfs", node if rng.random() < 0.5 else None, _lim(rng, 3), _lim(rng, 8)]
    if op == "dfs":
        return ["dfs", node if rng.random() < 0.5 else None, _lim(rng, 3), _lim(rng, 8)]
    if op == "min":
        return ["min", node if rng.random() < 0.4 else None, _lim(rng, 8), False]
    if op == "min_skip":
        return ["min", node if rng.random() < 0.3 else None, _lim(rng, 8, 0.6), True]
    if op == "aseeds":
        return ["aseeds", _lim(rng, 8)]
    if op == "target":
        return ["target", random_space(rng, names, 0.35), _lim(rng, 8)]
    if op == "block_plain":
        return ["block", rng.random() < 0.5, _lim(rng, 8, 0.5), False, False]
    if op == "block":
        return ["block", rng.random() < 0.6, _lim(rng, 10, 0.6), True, rng.random() < 0.2]
    if op == "scc":
        return ["scc", rng.random() < 0.6]
    if op == "build":
        return ["build"]
    if op == "succ":
        return ["succ", node]
    if op == "cands":
        return ["cands", node, rng.random() < 0.7, rng.random() < 0.7]
    if op == "seeds":
        return ["seeds", node, rng.random() < 0.2]
    if op == "sets":
        return ["sets", node]
    if op == "skip":
        return ["skip", node]
    if op in ("skip_remaining", "reclaim", "pickle"):
        return [op]
    raise ValueError(op)


def random_history(seed: int, names, length: int, ops) -> list:
    rng = random.Random(seed)
    return [random_step(rng, names, ops) for _ in range(length)]


# --------------------------------------------------------------------------------------------
# presentation-level transformations (C17); each returns (new bnet text, rename map old->new, flipped old names)
# --------------------------------------------------------------------------------------------
def t_rename(bnet: str, seed: int):
    vs = variables(bnet)
    rng = random.Random(seed)
    perm = vs[:]
    rng.shuffle(perm)
    style = rng.choice(["perm", "prefix", "upper"])
    if style == "perm":
        mapping = dict(zip(vs, perm))
    elif style == "prefix":
        mapping = {v: f"{'zyxwvutsrq'[i % 10]}{i}_{v}" for i, v in enumerate(vs)}
    else:
        mapping = {v: (v.upper() + "_" if v.upper() != v else v.lower() + "_") for v in vs}
    if len(set(mapping.values())) != len(vs):
        mapping = {v: f"n{i}" for i, v in enumerate(reversed(vs))}
    return rename(bnet, mapping), mapping, []


def t_reorder(bnet: str, seed: int):
    rules = parse_rules(bnet)
    random.Random(seed).shuffle(rules)
    return to_bnet(rules), {v: v for v, _ in rules}, []


def t_equivalent(bnet: str, seed: int):
    rng = random.Random(seed)
    vs = variables(bnet)
    out = []
    for v, e in parse_rules(bnet):
        w = rng.choice(vs)
        m = rng.randrange(5)
        if m == 0:
            e2 = f"!!({e})"
        elif m == 1:
            e2 = f"({e}) & ({w} | !{w})"
        elif m == 2:
            e2 = f"({e}) | ({w} & !{w})"
        elif m == 3:
            e2 = f"(({e}) & {w}) | (({e}) & !{w})"
        else:
            e2 = f"!(!({e}) | ({w} & !{w}))"
        out.append((v, e2))
    return to_bnet(out), {v: v for v in vs}, []


def t_negate(bnet: str, seed: int):
    """Encode one or two variables by their negation: v = !nv."""
    rng = random.Random(seed)
    vs = variables(bnet)
    flip = rng.sample(vs, min(len(vs), rng.choice([1, 1, 2])))
    new = {v: (f"n_{v}" if v in flip else v) for v in vs}
    pat = re.compile(r"[A-Za-z_][A-Za-z0-9_]*")

    def sub(m):
        w = m.group(0)
        if w in flip:
            return f"(!{new[w]})"
        return w

    out = []
    for v, e in parse_rules(bnet):
        e2 = pat.sub(sub, e)
        out.append((new[v], f"!({e2})" if v in flip else e2))
    return to_bnet(out), new, flip


TRANSFORMS = {"rename": t_rename, "reorder": t_reorder, "equivalent": t_equivalent, "negate": t_negate}


# --------------------------------------------------------------------------------------------
# shape families added after the seeded-change review (general shapes first revealed by a change that the
# earlier families missed; the concrete instance that revealed a shape is the FIRST member of its family, the
# rest are systematic / seeded variations).  None of them is part of network_family(): the property modules
# that need a shape pull it explicitly, so the case order of the other modules is unaffected.
# --------------------------------------------------------------------------------------------
def _letters(k, start="a"):
    return [chr(ord(start) + i) for i in range(k)]


def switches(k: int, names=None) -> str:
    """k independent positive-feedback pairs: the full diagram has depth k and 3^k nodes, the root has 2k stable motifs."""
    names = names or _letters(2 * k)
    rules = []
    for i in range(k):
        x, y = names[2 * i], names[2 * i + 1]
        rules += [(x, y), (y, x)]
    return to_bnet(rules)


NESTED_SWITCHES = norm("a, a; b, (a & b) | (!a & !b & c); c, (b & c) | (!b & d); d, d | (c & a)")

# ---- (1) deep diagrams: depth >= 2, used with "partial expansion, then a shallower limited call" histories ---------
DEEP = {
    "three_switches": switches(3),
    "nested_switches": NESTED_SWITCHES,
    "two_switches": switches(2),
    "switch_toggle": union(switch(), toggle()),
    "switch_latch_toggle": union(switch(), latch(), toggle()),
    "deep": HAND["deep"],
    "multipath": HAND["multipath"],
    "D5": HAND["D5"],
    "source_chain": HAND["source_chain"],
    "switch_maa": union(switch(), MAA_CORE),
}


def deep_nets(seed: int, tier: str):
    """Networks whose full diagram has depth >= 2 (most of them): the fixed ones above, then seeded unions of 2-3 small
    bistable / oscillating modules, then 'latch DAG' networks (see latch_dag_net)."""
    for k, v in DEEP.items():
        yield (k, v)
    mods = [switch, toggle, latch, lambda i="": norm(f"g{i}, g{i}"), lambda i="": norm(f"o{i}, !o{i}"), lambda i="": norm(f"m{i}, m{i} | n{i}; n{i}, m{i} & n{i}")]
    rng = random.Random(seed * 31 + 5)
    for i in range(40 if tier == "quick" else 400):
        k = rng.choice([2, 2, 3])
        yield (f"mods{seed}_{i}", union(*[rng.choice(mods)(j) for j in range(k)]))
    for i in range(200 if tier == "quick" else 2000):
        yield (f"ldag{seed}_{i}", latch_dag_net(seed * 7_001 + i))


def shallower_histories(max_level: int = 3):
    """(prefix, final) pairs: an earlier partial expansion, then a level-limited BFS from the root whose limit is SHALLOWER
    than what the prefix already expanded (so that every node the limited call looks at is already expanded)."""
    out = []
    for deep in range(1, max_level + 1):
        for shallow in range(0, deep):
            out.append(([["bfs", None, deep, None]], ["bfs", None, shallow, None]))
    # manual depth-first / level-wise prefixes
    out.append(([["succ", 0], ["succ", 1], ["succ", 2], ["succ", 3], ["succ", 4], ["succ", 5], ["succ", 6]], ["bfs", None, 0, None]))
    out.append(([["dfs", None, 2, None]], ["bfs", None, 0, None]))
    out.append(([["dfs", None, 3, None]], ["bfs", None, 1, None]))
    out.append(([["dfs", None, None, 4]], ["bfs", None, 0, None]))
    out.append(([["bfs", None, None, 5]], ["bfs", None, 0, None]))
    out.append(([["bfs", None, None, 8]], ["bfs", None, 1, None]))
    out.append(([["min", None, None, False]], ["bfs", None, 0, None]))
    out.append(([["min", None, None, False]], ["bfs", None, 1, None]))
    out.append(([["aseeds", None]], ["bfs", None, 0, None]))
    out.append(([["bfs", None, 1, None], ["succ", 3], ["succ", 5]], ["bfs", None, 1, None]))
    out.append(([["bfs", 1, 1, None], ["succ", 0]], ["bfs", None, 0, None]))  # expanded below a child first, then the root
    out.append(([["bfs", 1, 1, None], ["succ", 0]], ["bfs", 1, 0, None]))  # shallower call started at the child
    return out


def random_shallower_history(rng: random.Random, names):
    """Seeded variant: 1-3 plain limited calls, then a BFS with a level limit in 0..2 from the root (or a node)."""
    pre = random_history(rng.randrange(1 << 30), names, rng.randint(1, 3), ["bfs", "bfs", "dfs", "succ", "succ", "min", "aseeds"])
    return pre, ["bfs", None if rng.random() < 0.8 else rng.randint(0, 6), rng.randint(0, 2), None]


# ---- (2) several independent negative cycles (every one of them is in the NFVS) plus memory variables --------------
NEG_CYCLES = {
    # whole space is the only trap space, one complex attractor; d, e remember their value while a = 0
    "neg3_mem2": norm("a, !a; b, !b; c, a & !c; d, (d & !a) | (a & b); e, (e & !a) | (a & !b)"),
    "neg2_mem1": norm("a, !a; b, !b; d, (d & !a) | (a & b)"),
    "neg2_mem2": norm("a, !a; b, !b; d, (d & !a) | (a & b); e, (e & !b) | (b & !a)"),
    "neg3": norm("a, !a; b, !b; c, !c"),
    "neg2_gated": norm("a, !a; b, a & !b; c, (c & !b) | (b & a)"),
    "negpair_mem": norm("a, !b; b, a; c, !c; d, (d & !a) | (a & c)"),
    "neg2_switch": norm("a, !a; b, !b; x, (x & !a) | (a & y); y, (y & !b) | (b & x)"),
}


def neg_cycle_net(seed: int) -> str:
    """k = 2..3 'clock' variables with a negative self-loop (possibly gated by an earlier clock) or a negative 2-cycle, plus
    1-3 memory variables  m' = (m & !g) | (g & l)  that copy a literal l over the clocks while clock g is on."""
    rng = random.Random(seed)
    k = rng.choice([2, 2, 3])
    clocks, rules = [], []
    for i in range(k):
        c = f"c{i}"
        r = rng.random()
        if r < 0.5 or not clocks:
            rules.append((c, f"!{c}"))
        elif r < 0.7:
            rules.append((c, f"{rng.choice(clocks)} & !{c}"))
        elif r < 0.85:
            rules.append((c, f"!{c} | {rng.choice(['', '!'])}{rng.choice(clocks)}"))
        else:  # negative 2-cycle with a partner variable
            rules += [(c, f"!q{i}"), (f"q{i}", c)]
        clocks.append(c)
    for j in range(rng.choice([1, 2, 2, 3])):
        m = f"m{j}"
        g = rng.choice(clocks)
        others = [c for c in clocks if c != g] + [f"m{t}" for t in range(j)]
        lit = rng.choice(["", "!"]) + rng.choice(others)
        if rng.random() < 0.3 and len(others) > 1:
            lit = f"({lit} {rng.choice(['&', '|'])} {rng.choice(['', '!'])}{rng.choice(others)})"
        rules.append((m, f"({m} & {rng.choice(['', '!'])}{g}) | ({rng.choice(['', '!'])}{g} & {lit})" if rng.random() < 0.25 else f"({m} & !{g}) | ({g} & {lit})"))
    return to_bnet(rules)


def neg_cycle_nets(seed: int, tier: str):
    for k, v in NEG_CYCLES.items():
        yield (k, v)
    for i in range(300 if tier == "quick" else 3000):
        yield (f"negc{seed}_{i}", neg_cycle_net(seed * 9_001 + i))


# ---- (3) block-structured networks: a motif-avoidant module regulating a bistable module; input-conditioned modules ---
XNOR2 = norm("P, (P & Q) | (!P & !Q); Q, (P & Q) | (!P & !Q)")  # fixed point 11 and the motif-avoidant cycle {00, 01, 10}
# upstream modules: (rules, output variable that is 0 on the motif-avoidant attractor and 1 in the stable motif)
UP_MODULES = {"core": (MAA_CORE, "C"), "xnor": (XNOR2, "P")}
# downstream bistable modules with a hook {h} for an upstream literal
DOWN_MODULES = {
    "switch_or": "X, Y; Y, X | {h}",
    "switch_and": "X, Y; Y, X & {h}",
    "switch_or2": "X, Y | {h}; Y, X | {h}",
    "toggle_or": "X, !Y | {h}; Y, !X",
    "latch_or": "X, X | {h}",
    "latch_and": "X, X & {h}",
    "and3_or": "X, Y & Z; Y, (X & Z) | {h}; Z, X & Y",
    "maa_down": "X, ((!X & !Y) | Z) & {h}; Y, ((!X & !Y) | Z) & {h}; Z, X & Y",
}
BLOCKS = {
    # first: the two instances that revealed the shape
    "core__switch_or": norm(MAA_CORE + "\n" + DOWN_MODULES["switch_or"].format(h="C").replace(";", "\n")),
    "cond_core": norm("s, s; A, (!A & !B) | C; B, (!A & !B) | C; C, (A & B) | (!s & (A | B))"),
}


def block_net(up: str, down: str, neg: bool = False, extra: str | None = None) -> str:
    rules, outv = UP_MODULES[up]
    text = rules + "\n" + norm(DOWN_MODULES[down].format(h=("!" if neg else "") + outv))
    if extra:
        text = union(text, extra)
    return norm(text)


def cond_net(kind: int) -> str:
    """A module with the SAME variable set under both values of the source s: motif-avoidant under one value, clean under the other."""
    return [
        BLOCKS["cond_core"],
        norm("s, s; A, (!A & !B) | C; B, (!A & !B) | C; C, (A & B) | (s & (A | B))"),  # MAA under s = 0
        norm("s, s; P, (P & Q) | (!P & !Q) | (!s & (P | Q)); Q, (P & Q) | (!P & !Q) | (!s & (P | Q))"),
        norm("s, s; P, (P & Q) | (!P & !Q) | (s & (P | Q)); Q, (P & Q) | (!P & !Q) | (s & (P | Q))"),
        norm("s, s; r, r; A, (!A & !B) | C; B, (!A & !B) | C; C, (A & B) | (!s & r & (A | B))"),  # two sources, MAA in 3 of 4 valuations
        norm("s, s; A, (!A & !B) | C; B, (!A & !B) | C; C, (A & B) | (!s & (A | B)); X, Y; Y, X | C"),  # conditioned module with a downstream switch
        norm("s, s; A, ((!A & !B) | C) | (!s & A); B, (!A & !B) | C; C, A & B"),
        norm("t, t; s, s; A, (!A & !B) | C; B, (!A & !B) | C; C, (A & B) | (!s & (A | B)); P, (P & Q) | (!P & !Q) | (!t & (P | Q)); Q, (P & Q) | (!P & !Q) | (!t & (P | Q))"),
    ][kind]


def switch_cond_nets():
    """A module whose dynamics is conditioned by a BISTABLE (not source) controller: motif-avoidant while the controller is in one state, clean - with
    different stable motifs - in the other.  (name, bnet); the first one is the instance that revealed the shape."""
    controllers = {"switch": ("p, q; q, p", "p"), "toggle": ("p, !q; q, !p", "p"), "latch": ("p, p | q; q, !q & !p", "p"), "selfloop": ("p, p", "p")}
    modules = {
        "xnor": (["a1", "a2"], "(a1 & a2) | (!a1 & !a2)"),
        "core": (["A", "B"], "(!A & !B) | C"),
    }
    offs = {"and": "{x} & {y}", "or": "{x} | {y}", "zero": "false", "copy": "{x}"}
    out = []
    for cname, (ctext, cv) in controllers.items():
        for mname, (mv, mexpr) in modules.items():
            for oname, off in offs.items():
                for on_value in (1, 0):
                    on, offlit = (cv, "!" + cv) if on_value else ("!" + cv, cv)
                    rules = [(v, f"({offlit} & ({off.format(x=mv[0], y=mv[1])})) | ({on} & ({mexpr}))") for v in mv]
                    if mname == "core":
                        rules.append(("C", "A & B"))
                    out.append((f"bcond_{cname}_{mname}_{oname}_{on_value}", norm(to_bnet(rules) + "\n" + norm(ctext))))
    return out


def block_nets(seed: int, tier: str):
    """(name, bnet): MAA module -> downstream bistable module (all module pairs, both hook polarities), input-conditioned modules,
    the same with an independent extra module, then seeded compositions."""
    seen = set()

    def emit(name, b):
        if b not in seen and len(variables(b)) <= 8:
            seen.add(b)
            return [(name, b)]
        return []

    for k, v in BLOCKS.items():
        yield from emit(k, v)
    for kind in range(8):
        yield from emit(f"cond{kind}", cond_net(kind))
    sc = switch_cond_nets()
    for name, b in sc[:6]:
        yield from emit(name, b)
    for up in UP_MODULES:
        for down in DOWN_MODULES:
            for neg in (False, True):
                yield from emit(f"{up}__{down}{'_neg' if neg else ''}", block_net(up, down, neg))
    for up in UP_MODULES:
        for down in ("switch_or", "latch_or", "switch_and"):
            for extra_name, extra in (("switch", norm("M1, M2; M2, M1")), ("source", norm("s, s")), ("osc", norm("O, !O"))):
                yield from emit(f"{up}__{down}+{extra_name}", block_net(up, down, False, extra))
    for name, b in sc[6:]:
        yield from emit(name, b)
    rng = random.Random(seed * 77 + 3)
    for i in range(60 if tier == "quick" else 600):
        up = rng.choice(list(UP_MODULES))
        rules, outv = UP_MODULES[up]
        upvars = variables(rules)
        # a random 2-3 variable downstream part over X, Y, Z in which some rules read an upstream variable
        body = random_net(seed * 13_007 + i, rng.choice([2, 2, 3]), p_const=0.0, p_src=0.1, p_self=0.5, names=["X", "Y", "Z"][: rng.choice([2, 2, 3])])
        drules = []
        for v, e in parse_rules(body):
            if rng.random() < 0.6:
                e = f"({e}) {rng.choice(['&', '|'])} {rng.choice(['', '!'])}{rng.choice(upvars)}"
            drules.append((v, e))
        text = rules + "\n" + to_bnet(drules)
        if rng.random() < 0.3:
            text = norm("s, s") + "\n" + text.replace("C, A & B", "C, (A & B) | (!s & (A | B))")
        yield from emit(f"blk{seed}_{i}", norm(text))


# ---- (3b) the SAME module with IDENTICAL stable motifs under both controller values: clean under one, motif-avoidant under the other ----
SM_MODULES = {
    "core": {"A": "(!A & !B) | C", "B": "(!A & !B) | C", "C": "A & B"},  # motif {A=B=C=1}, motif-avoidant cycle {000, 100, 010}
    "xnor": {"P": "(P & Q) | (!P & !Q)", "Q": "(P & Q) | (!P & !Q)"},  # motif {P=Q=1}, motif-avoidant cycle {00, 01, 10}
}
# "escapes": extra disjuncts which, while the condition holds, let the motif-avoidant cycle drain into the stable motif without creating
# a new trap space (so the stable motifs of the module are the same under both values of the condition)
SM_ESCAPES = {
    "core": [{"B": "A"}, {"A": "B"}, {"A": "B", "B": "A"}, {"B": "A & !C"}, {"A": "B & !C"}],
    "xnor": [{"P": "Q"}, {"Q": "P"}, {"P": "Q", "Q": "P"}],
}
# clean modules over the same variables with the same single stable motif (all ones) and no motif-avoidant attractor
SM_CLEAN_ALTERNATIVES = {
    "core": [{"A": "!A | (B & C)", "B": "!B | (A & C)", "C": "!C | (A & B)"}, {"A": "!A | C", "B": "!B | C", "C": "A & B"}, {"A": "B | C | !A", "B": "(A & C) | !B", "C": "A & B"}],
    "xnor": [{"P": "!P | Q", "Q": "!Q | P"}, {"P": "!P | Q", "Q": "(P & Q) | (!P & !Q)"}],
}
# controllers: (rules with the placeholders {g}, {h}; the two valuations of the controller variables that are visited)
SM_CONTROLLERS = {
    "source": ("{g}, {g}", lambda g, h: [{g: 0}, {g: 1}]),
    "switch": ("{g}, {h}; {h}, {g}", lambda g, h: [{g: 0, h: 0}, {g: 1, h: 1}]),
    "toggle": ("{g}, !{h}; {h}, !{g}", lambda g, h: [{g: 0, h: 1}, {g: 1, h: 0}]),
}
SM_NAMES = [("I", "J"), ("s", "t"), ("Z", "Y"), ("a0", "a1"), ("D", "E")]  # controller names sorting before / after / between the module's variables


def same_motif_cond_net(module: str, escape: dict, positive: bool, controller: str = "source", names=("I", "J"), extra: str | None = None):
    """(bnet, valuations): `module` whose motif-avoidant cycle gets an escape into the stable motif exactly while the controller
    variable has the value `positive`; valuations = the controller valuations under which the module is to be compared."""
    g, h = names
    cond = g if positive else "!" + g
    rules = dict(SM_MODULES[module])
    for v, t in escape.items():
        rules[v] = f"{rules[v]} | ({cond} & ({t}))"
    ctext, vals = SM_CONTROLLERS[controller]
    text = norm(ctext.format(g=g, h=h)) + "\n" + to_bnet(list(rules.items()))
    if extra:
        text = text + "\n" + norm(extra)
    return norm(text), vals(g, h)


def same_motif_cond_nets(seed: int, tier: str, accept=None):
    """(name, bnet): a module that is clean under one value of a controller (source / bistable pair) and has a motif-avoidant attractor under
    the other value, with the same variable set and the SAME stable motifs in both cases.  First the instance that revealed the shape, then
    module x escape x condition polarity x controller kind x controller names (either node may get the smaller id), the same with a downstream /
    independent extra module and with two sources, then seeded perturbations of the module (a random extra term guarded by the condition) of
    which only those are kept that `accept(bnet, valuations)` confirms to have the shape (accept=None keeps all)."""
    seen = set()

    def emit(name, b, vals, always=False):
        if b in seen or len(variables(b)) > 8:
            return []
        seen.add(b)
        if always or accept is None or accept(b, vals):
            return [(name, b)]
        return []

    # the instance that revealed the shape: clean under I = 0 (tested first), motif-avoidant under I = 1
    yield from emit("smc_first", *same_motif_cond_net("core", {"B": "A"}, False), always=True)
    for controller in SM_CONTROLLERS:
        for module in SM_MODULES:
            for k, esc in enumerate(SM_ESCAPES[module]):
                for positive in (False, True):
                    for names in (SM_NAMES if controller == "source" and k == 0 else SM_NAMES[:2]):
                        yield from emit(f"smc_{controller}_{module}{k}_{int(positive)}_{names[0]}", *same_motif_cond_net(module, esc, positive, controller, names))
    extras = {"down_switch": "X, Y; Y, X | {o}", "down_latch": "X, X & {o}", "indep_switch": "X, Y; Y, X", "indep_osc": "O, !O", "indep_source": "r, r"}
    for module, outv in (("core", "C"), ("xnor", "P")):
        for ename, extra in extras.items():
            for positive in (False, True):
                yield from emit(f"smc_{module}+{ename}_{int(positive)}", *same_motif_cond_net(module, SM_ESCAPES[module][0], positive, "source", ("I", "J"), extra.format(o=outv)))
    # two sources: the escape is open under a conjunction / disjunction of them (all four valuations are compared)
    for module in SM_MODULES:
        for cond in ("I & J", "I | J", "!I & J", "!I | !J", "(I & !J) | (!I & J)"):
            rules = dict(SM_MODULES[module])
            for v, t in SM_ESCAPES[module][0].items():
                rules[v] = f"{rules[v]} | (({cond}) & ({t}))"
            b = norm("I, I; J, J") + "\n" + to_bnet(list(rules.items()))
            yield from emit(f"smc2_{module}_{cond.replace(' ', '')}", b, [{"I": i, "J": j} for i in (0, 1) for j in (0, 1)])
    # multiplexed modules: under one controller value the motif-avoidant module, under the other a DIFFERENT clean module with the same stable motif
    for module in SM_MODULES:
        for k, alt in enumerate(SM_CLEAN_ALTERNATIVES[module]):
            for positive in (False, True):
                for controller, names in (("source", ("s", "t")), ("source", ("I", "J")), ("switch", ("s", "t"))):
                    g, h = names
                    on, off = (g, "!" + g) if positive else ("!" + g, g)
                    rules = [(v, f"({on} & ({e})) | ({off} & ({alt[v]}))") for v, e in SM_MODULES[module].items()]
                    ctext, vals = SM_CONTROLLERS[controller]
                    yield from emit(f"smx_{controller}_{module}{k}_{int(positive)}_{g}", norm(norm(ctext.format(g=g, h=h)) + "\n" + to_bnet(rules)), vals(g, h))
    # seeded perturbations
    rng = random.Random(seed * 53 + 11)
    kept = 0
    for i in range(300 if tier == "quick" else 3000):
        module = rng.choice(list(SM_MODULES))
        mv = list(SM_MODULES[module])
        controller = rng.choice(["source", "source", "switch", "toggle"])
        g, h = rng.choice(SM_NAMES)
        cond = rng.choice(["", "!"]) + g
        rules = dict(SM_MODULES[module])
        for v in rng.sample(mv, rng.choice([1, 1, 2])):
            lits = [rng.choice(["", "!"]) + w for w in rng.sample(mv, rng.choice([1, 1, 2]))]
            t = " & ".join(lits)
            if rng.random() < 0.7:
                rules[v] = f"{rules[v]} | ({cond} & {t})"
            else:
                rules[v] = f"({rules[v]}) & (!({cond}) | {t})" if rng.random() < 0.5 else f"({rules[v]}) & !({cond} & {t})"
        ctext, vals = SM_CONTROLLERS[controller]
        b = norm(norm(ctext.format(g=g, h=h)) + "\n" + to_bnet(list(rules.items())))
        got = emit(f"smcr{seed}_{i}", b, vals(g, h))
        kept += len(got)
        yield from got
        if kept >= (60 if tier == "quick" else 600):
            break


# ---- (3c) several independent switches (+ a downstream latch / oscillator): partial expansions under level / stack / size limits ------------
LIMIT_NETS = {
    "three_switches": norm("a1, a2; a2, a1; b1, b2; b2, b1; c1, c2; c2, c1"),
    "two_switches": norm("a1, a2; a2, a1; b1, b2; b2, b1"),
    "switches_latch": norm("a1, a2; a2, a1; b1, b2; b2, b1; z, z | (a1 & b1)"),
    "switch_latch": norm("x1, x2; x2, x1; z, z | x1"),
    "switch_osc": norm("a1, a2; a2, a1; p, !q | a1; q, p & !a1"),
    "four_switches": switches(4),
    "switch_toggle_latch": norm("a1, a2; a2, a1; u, !w; w, !u; z, z & (a1 | u)"),
}


def limit_net(seed: int) -> str:
    """2-4 independent bistable modules (switch / toggle / set-reset latch pair) and, possibly, a downstream latch or a gated oscillator."""
    rng = random.Random(seed)
    k = rng.choice([2, 3, 3, 4])
    rules, outs = [], []
    for i in range(k):
        x, y = f"m{i}a", f"m{i}b"
        kind = rng.choice(["switch", "switch", "toggle", "asym"])
        if kind == "switch":
            rules += [(x, y), (y, x)]
        elif kind == "toggle":
            rules += [(x, f"!{y}"), (y, f"!{x}")]
        else:
            rules += [(x, f"{x} | {y}"), (y, f"{x} & {y}")]
        outs.append(x)
    r = rng.random()
    if len(rules) <= 6 and r < 0.6:
        lits = [rng.choice(["", "!"]) + o for o in rng.sample(outs, rng.choice([1, 2]))]
        c = f" {rng.choice(['&', '|'])} ".join(lits)
        if r < 0.4:
            rules.append(("z", rng.choice([f"z | ({c})", f"z & ({c})"])))
        else:
            rules += [("p", f"!q | ({c})"), ("q", f"p & !({c})")]
    return to_bnet(rules)


def limit_nets(seed: int, tier: str):
    for k, v in LIMIT_NETS.items():
        yield (k, v)
    for i in range(150 if tier == "quick" else 1500):
        yield (f"lim{seed}_{i}", limit_net(seed * 6_007 + i))


def limited_dfs_histories(max_level: int = 3, max_stack: int = 4):
    """(prefix, final): an earlier limited expansion (level-limited bfs first), then a stack-limited dfs from the root.  Whatever the
    combination, a True return of the final call claims that everything reachable from the root is expanded."""
    out = [([["bfs", None, k, None]], ["dfs", None, s, None]) for k in range(max_level + 1) for s in range(max_stack + 1)]
    for s in range(max_stack + 1):
        out.append(([["dfs", None, (s + 1) % (max_stack + 1), None]], ["dfs", None, s, None]))  # repeated dfs calls with different stack limits
        out.append(([["dfs", None, s, None]], ["dfs", None, s, None]))  # ... and with the same limit
    for s in (0, 1, 2):
        out.append(([["min", None, 3, False]], ["dfs", None, s, None]))
        out.append(([["succ", 0], ["succ", 1], ["succ", 2]], ["dfs", None, s, None]))
        out.append(([["bfs", None, None, 4]], ["dfs", None, s, None]))
        out.append(([["aseeds", 3]], ["dfs", None, s, None]))
        out.append(([["bfs", None, 1, None], ["dfs", None, s, None]], ["dfs", None, s, None]))
    return out


def limited_aseeds_histories(max_size: int = 8):
    """(prefix, final): attractor-seed expansion under a size limit 1..max_size on a fresh diagram and after an earlier limited call."""
    prefixes = [[], [["bfs", None, 0, None]], [["bfs", None, 1, None]], [["min", None, 3, False]], [["dfs", None, 1, None]], [["succ", 0], ["succ", 1]]]
    return [(pre, ["aseeds", k]) for pre in prefixes for k in range(1, max_size + 1)]


def random_limited_history(rng: random.Random, names):
    """Seeded variant: 0-2 limited plain calls, then a stack-limited dfs or a size-limited attractor-seed expansion."""
    pre = random_history(rng.randrange(1 << 30), names, rng.randint(0, 2), ["bfs", "bfs", "dfs", "succ", "min", "aseeds"])
    final = ["dfs", None, rng.randint(0, 4), None] if rng.random() < 0.5 else ["aseeds", rng.randint(1, 12)]
    return pre, final


# ---- (3d) variables that BECOME sources once an input is fixed (x, x & s), next to other blocks --------------------------------------------
EMERGENT_FIRST = norm("p, q; q, p; s, s; x, x & s; y, y & s")  # the instance that revealed the shape: under s = 1, x and y are new inputs
EMERGENT_FORMS = ["{x} & {s}", "{x} | !{s}", "{x} | {s}", "{x} & !{s}", "({x} & {s}) | ({x} & {t})", "{x} & ({s} | {p})"]
EMERGENT_MODULES = {
    "switch": "p, q; q, p",
    "toggle": "p, !q; q, !p",
    "maa_core": "A, (!A & !B) | C; B, (!A & !B) | C; C, A & B; p, p | C",
    "down_latch": "p, p | ({x} & q); q, q",
    "down_switch": "p, q | {x}; q, p",
    "gated_osc": "p, !p & {x}",
    "none": "",
}


def emergent_source_net(forms, module: str, two_inputs: bool = False) -> str:
    xs = ["x", "y", "z"][: len(forms)]
    rules = [("s", "s")] + ([("t", "t")] if two_inputs else [])
    mod = EMERGENT_MODULES[module].format(x=xs[0])
    for x, f in zip(xs, forms):
        rules.append((x, f.format(x=x, s="s", t="t" if two_inputs else "s", p="p" if "p," in mod else "s")))
    return norm(to_bnet(rules) + ("\n" + norm(mod) if mod else ""))


def emergent_source_nets(seed: int, tier: str):
    """(name, bnet): networks with 1-2 free inputs in which 1-3 further variables become inputs after percolating an input valuation, next to an
    independent / downstream bistable or motif-avoidant module.  First the instance that revealed the shape, then forms x modules, then seeded mixes."""
    seen = set()

    def emit(name, b):
        if b in seen or len(variables(b)) > 8:
            return []
        seen.add(b)
        return [(name, b)]

    yield from emit("emergent_first", EMERGENT_FIRST)
    for module in EMERGENT_MODULES:
        for k, f in enumerate(EMERGENT_FORMS):
            two = "{t}" in f
            yield from emit(f"emergent_{module}_{k}x2", emergent_source_net([f, f], module, two))
            if k < 2:
                yield from emit(f"emergent_{module}_{k}x1", emergent_source_net([f], module, two))
                yield from emit(f"emergent_{module}_{k}x3", emergent_source_net([f, f, f], module, two))
    rng = random.Random(seed * 59 + 7)
    for i in range(80 if tier == "quick" else 800):
        forms = [rng.choice(EMERGENT_FORMS) for _ in range(rng.choice([1, 2, 2, 3]))]
        yield from emit(f"emergent{seed}_{i}", emergent_source_net(forms, rng.choice(list(EMERGENT_MODULES)), any("{t}" in f for f in forms) or rng.random() < 0.3))


# ---- (4) ties between minimal source blocks whose variable names interleave alphabetically -------------------------
def tie_net(names_a, names_b, down=None, module: str = "switch", names_c=None) -> str:
    def mod(x, y):
        if module == "switch":
            return [(x, y), (y, x)]
        if module == "toggle":
            return [(x, f"!{y}"), (y, f"!{x}")]
        return [(x, f"{x} | {y}"), (y, f"{x} & {y}")]

    rules = mod(*names_a) + mod(*names_b) + (mod(*names_c) if names_c else [])
    if down:
        rules.append(down)
    return to_bnet(sorted(rules))


def tie_nets(seed: int, tier: str):
    """Two or three minimal blocks with the same number of stable motifs; block variable names interleave (A,D / B,C ...)."""
    yield ("tie_AD_BC_E", tie_net(("A", "D"), ("B", "C"), ("E", "A & B")))
    yield ("tie_AD_BC", tie_net(("A", "D"), ("B", "C")))
    yield ("tie_AC_BD_E", tie_net(("A", "C"), ("B", "D"), ("E", "A | B")))
    yield ("tie_toggle_AD_BC_E", tie_net(("A", "D"), ("B", "C"), ("E", "A & !B"), module="toggle"))
    yield ("tie3_AF_BE_CD", tie_net(("A", "F"), ("B", "E"), None, names_c=("C", "D")))
    yield ("tie_lower_ad_bc_e", tie_net(("a", "d"), ("b", "c"), ("e", "a & b")))
    yield ("tie_long_names", tie_net(("gene_1", "gene_4"), ("gene_2", "gene_3"), ("out", "gene_1 & gene_2")))
    yield ("tie_mixed_modules", to_bnet(sorted([("A", "D"), ("D", "A"), ("B", "!C"), ("C", "!B"), ("E", "A & B")])))
    yield ("tie_maa_AD_BC", norm("A, (A & D) | (!A & !D); D, (A & D) | (!A & !D); B, (B & C) | (!B & !C); C, (B & C) | (!B & !C)"))
    rng = random.Random(seed * 41 + 9)
    pool = list("ABCDEFGH")
    for i in range(20 if tier == "quick" else 200):
        vs = rng.sample(pool, 5)
        rng.shuffle(vs)
        down = (vs[4], f"{rng.choice(['', '!'])}{vs[0]} {rng.choice(['&', '|'])} {rng.choice(['', '!'])}{vs[2]}") if rng.random() < 0.7 else None
        yield (f"tie{seed}_{i}", tie_net((vs[0], vs[1]), (vs[2], vs[3]), down, module=rng.choice(["switch", "switch", "toggle", "asym"])))


# ---- (5) multi-path DAGs: nodes reachable from the root by paths of different lengths (nested shortcut edges) --------
MULTIPATH = {
    "nested_shortcuts": norm("x0, x0 | x5; x1, x1 & !x0; x2, x2 | !x5; x3, x3 & !x2 & x4; x4, x2; x5, x5 | !x3"),
    "D5": HAND["D5"],
    "multipath": HAND["multipath"],
    "multipath5": norm("a, a | b; b, b | a; c, c | (a & b); d, d & c; e, e | (d & a)"),
    "or_chain": norm("a, a | b; b, b | c; c, c | a; d, d & a; e, e & d & b"),
    "nested_switches": NESTED_SWITCHES,
}


def latch_dag_net(seed: int, n: int | None = None) -> str:
    """Every variable is a set- or reset-latch  x' = x | c  /  x' = x & c  (c a conjunction of 1-2 literals over other variables)
    or, occasionally, a copy of a literal.  Such networks have many nested trap spaces and stable motifs that percolate into
    spaces lying below other motifs, i.e. diagrams with shortcut edges."""
    rng = random.Random(seed)
    n = n or rng.choice([4, 5, 5, 6, 6, 6])
    names = [f"x{i}" for i in range(n)]
    rules = []
    for v in names:
        others = [w for w in names if w != v]
        lits = [rng.choice(["", "!"]) + w for w in rng.sample(others, rng.choice([1, 1, 2]))]
        c = " & ".join(lits)
        r = rng.random()
        if r < 0.42:
            rules.append((v, f"{v} | ({c})" if len(lits) > 1 else f"{v} | {c}"))
        elif r < 0.84:
            rules.append((v, f"{v} & {c}"))
        else:
            rules.append((v, lits[0]))
    return to_bnet(rules)


def multipath_nets(seed: int, tier: str):
    for k, v in MULTIPATH.items():
        yield (k, v)
    for i in range(400 if tier == "quick" else 4000):
        yield (f"ldag{seed}_{i}", latch_dag_net(seed * 7_001 + i))


def depth_first_histories(rng: random.Random | None = None):
    """Histories in which the sub-diagram below a node exists before a longer path to that node is discovered."""
    out = [
        [["dfs", None, None, None]],
        [["dfs", None, 3, None], ["dfs", None, None, None]],
        [["dfs", None, None, 5], ["bfs", None, None, None]],
        [["succ", 0], ["dfs", 1, None, None], ["dfs", 2, None, None], ["dfs", None, None, None]],
        [["succ", 0], ["dfs", 2, None, None], ["dfs", 1, None, None], ["bfs", None, None, None]],
        [["succ", 0], ["dfs", -1, None, None], ["dfs", -2, None, None], ["dfs", None, None, None]],
        [["min", None, None, False], ["dfs", None, None, None]],
        [["aseeds", None], ["dfs", None, None, None]],
    ]
    if rng is not None:
        # manual depth-first order: always expand the most recently created unexpanded node (ids taken modulo the size)
        h = [["succ", 0]]
        for _ in range(rng.randint(3, 10)):
            h.append(["succ", -rng.randint(1, 3)])
        h.append(rng.choice([["dfs", None, None, None], ["bfs", None, None, None]]))
        out.append(h)
    return out


# ---- (6) non-default configurations -------------------------------------------------------------------------------
MANY_MOTIFS = {
    "switches3_tail": norm(switches(3) + "\ng, a & c & e"),  # root with 6 stable motifs
    "three_switches": switches(3),
    "two_switches": switches(2),
    "switch_latch_toggle": DEEP["switch_latch_toggle"],
    "sources3": sources(3),
}


def config_variant(rng: random.Random, p_each: float = 0.5) -> dict:
    """A configuration with at least one NON-default value (small limits / thresholds / budgets)."""
    cfg = {}
    if rng.random() < p_each:
        cfg["max_motifs_per_node"] = rng.choice([0, 1, 2, 3, 4, 5])
    if rng.random() < p_each:
        cfg["attractor_candidates_limit"] = rng.choice([0, 1, 2, 3])
    if rng.random() < p_each * 0.6:
        cfg["retained_set_optimization_threshold"] = rng.choice([0, 1, 2, 3])
    if rng.random() < p_each * 0.4:
        cfg["minimum_simulation_budget"] = rng.choice([0, 1])
    if rng.random() < p_each * 0.4:
        cfg["nfvs_size_threshold"] = rng.choice([0, 1, 3])
    if not cfg:
        cfg["max_motifs_per_node"] = rng.choice([1, 2, 3, 4])
    return cfg


# ---- (7) in-place edits of one network object between solver calls ----------------------------------------------------
def replace_rule(bnet: str, var: str, expr: str) -> str:
    return to_bnet([(v, expr if v == var else e) for v, e in parse_rules(bnet)])


def random_edit(rng: random.Random, bnet: str):
    """(variable, new expression): a new update function for one variable - over the inputs it already has (a different truth table, the negation,
    one input dropped), over other variables of the network, a constant, or the identity (the variable becomes a source)."""
    rules = parse_rules(bnet)
    names = [v for v, _ in rules]
    v, old = rng.choice(rules)
    ins = sorted({w for w in re.findall(r"[A-Za-z_][A-Za-z0-9_]*", old) if w in names})
    r = rng.random()
    if r < 0.35 and ins:
        new = dnf(ins, [rng.randint(0, 1) for _ in range(1 << len(ins))])
    elif r < 0.45:
        new = f"!({old})"
    elif r < 0.55 and len(ins) > 1:
        keep = rng.sample(ins, len(ins) - 1)
        new = dnf(sorted(keep), [rng.randint(0, 1) for _ in range(1 << len(keep))])
    elif r < 0.85:
        k = rng.randint(1, min(3, len(names)))
        new_ins = sorted(rng.sample(names, k))
        new = dnf(new_ins, [rng.randint(0, 1) for _ in range(1 << k)])
    elif r < 0.93:
        new = v
    else:
        new = rng.choice(["true", "false"])
    return v, new


EDIT_FIRST = (norm("a, a | b; b, a & c; c, !b | c"), [["a", "b"], ["b", "a & !c"], ["c", "!b & c"]])  # the instance that revealed the shape


def edit_sequences(seed: int, name: str, bnet: str, count: int):
    """`count` call sequences on ONE network object: [["query", {...}] | ["edit", var, expr], ...].  The first ones are systematic (all three problem
    kinds, an edit, all three problem kinds again; the same with two edits, with an edit that is taken back, with reversed time), the rest seeded."""
    names = variables(bnet)
    rng = random.Random(f"{seed}-{name}-edits")

    def q(problem, **kw):
        d = {"problem": problem, "reverse": False, "ensure": {}, "avoid": [], "sources": "default", "source_list": None, "limit": None}
        d.update(kw)
        return ["query", d]

    def rq():
        problem = rng.choice(["min", "max", "fix"])
        ensure = random_space(rng, names, rng.choice([0, 0, 0.3]))
        if problem == "max" and len(ensure) == len(names):
            ensure.pop(sorted(ensure)[0])
        src = rng.choice(["default", "default", "default", "none", "true"])
        return q(problem, reverse=rng.random() < 0.3, ensure=ensure, avoid=[random_space(rng, names, 0.4) for _ in range(rng.choice([0, 0, 1]))],
                 sources=src, limit=rng.choice([None, None, None, None, 1, 2]))

    def edits(k):
        text, out = bnet, []
        for _ in range(k):
            v, e = random_edit(rng, text)
            text = replace_rule(text, v, e)
            out.append(["edit", v, e])
        return out

    allq = [q("min"), q("max"), q("fix")]
    seqs = [
        allq + edits(1) + allq,
        allq + edits(2) + allq,
        [q("fix")] + edits(1) + [q("fix")] + edits(1) + [q("fix")] + edits(1) + [q("fix")],
        [q("min", reverse=True), q("max", reverse=True)] + edits(1) + [q("min", reverse=True), q("max", reverse=True), q("fix", reverse=True)],
        edits(1) + allq,  # edited before the first call
    ]
    e1 = edits(1)
    old = dict(parse_rules(bnet))[e1[0][1]]
    seqs.append(allq + e1 + allq + [["edit", e1[0][1], old]] + allq)  # an edit that is taken back
    for s in seqs[:count]:
        yield s
    for _ in range(max(0, count - len(seqs))):
        s = []
        text = bnet
        for _ in range(rng.randint(2, 4)):
            s += [rq() for _ in range(rng.randint(1, 2))]
            v, e = random_edit(rng, text)
            text = replace_rule(text, v, e)
            s.append(["edit", v, e])
        s += [rq() for _ in range(rng.randint(1, 3))]
        yield s


# ---- (8) an oscillating module plus 'marker' variables that can only be lost / gained while it oscillates ---------------------------------
# The marker's stable value is a stable motif, so the node above it is expanded and NOT minimal; the states with the unstable marker value are
# transient, but the cheap candidate search (simulation_minification=False) keeps one of them as the node's only candidate.
OSCILLATORS = {
    "neg3": ("X, Z; Y, X; Z, !Y", ["X", "Y", "Z"]),
    "neg2": ("X, !Y; Y, X", ["X", "Y"]),
    "neg3_all": ("X, !Z; Y, !X; Z, !Y", ["X", "Y", "Z"]),
    "neg1": ("X, !X", ["X"]),
}
MARKER_FORMS = ["M, M & !({c})", "M, M | ({c})", "M, M & !({c}); N, N & M", "M, M & !({c}); N, N | !M"]
MARKER_TOPS = {"none": "", "switch": "p, q; q, p", "source": "s, s", "toggle": "p, !q; q, !p"}
MARKER_FIRST = norm("X, Z; Y, X; Z, !Y; M, M & !(Y & Z)")  # the instance that revealed the shape


def _marker_conditions(vs):
    out = []
    for a, b in itertools.combinations(vs, 2):
        out += [f"{a} & {b}", f"!{a} & {b}", f"{a} & !{b}", f"!{a} & !{b}"]
    for v in vs:
        out += [v, "!" + v]
    return out


def marker_nets(seed: int, tier: str):
    """(name, bnet): oscillator x marker form x condition (a literal or a conjunction of two literals over the oscillator) x an optional independent
    module on top (so that the oscillating node is a child, not the root); first the instance that revealed the shape, then all combinations in a
    seeded order, then seeded mixes with two independently conditioned markers."""
    seen = set()

    def emit(name, b):
        if b in seen or len(variables(b)) > 7:
            return []
        seen.add(b)
        return [(name, b)]

    yield from emit("marker_first", MARKER_FIRST)
    combos = [(o, k, c, t) for o, (_, vs) in OSCILLATORS.items() for k in range(len(MARKER_FORMS)) for c in _marker_conditions(vs) for t in MARKER_TOPS]
    rng = random.Random(seed * 67 + 29)
    rng.shuffle(combos)
    for o, k, c, t in combos[: 150 if tier == "quick" else len(combos)]:
        text = OSCILLATORS[o][0] + "; " + MARKER_FORMS[k].format(c=c) + ("; " + MARKER_TOPS[t] if MARKER_TOPS[t] else "")
        yield from emit(f"marker_{o}_{k}_{c.replace(' ', '')}_{t}", norm(text))
    for i in range(100 if tier == "quick" else 1000):
        o = rng.choice(list(OSCILLATORS))
        conds = _marker_conditions(OSCILLATORS[o][1])
        c1, c2 = rng.choice(conds), rng.choice(conds)
        m1 = rng.choice(["M, M & !({c})", "M, M | ({c})"]).format(c=c1)
        m2 = rng.choice(["N, N & !({c})", "N, N | ({c})", "N, N & (M | ({c}))", "N, N | (M & ({c}))"]).format(c=c2)
        t = MARKER_TOPS[rng.choice(list(MARKER_TOPS))]
        yield from emit(f"marker{seed}_{i}", norm(OSCILLATORS[o][0] + "; " + m1 + "; " + m2 + ("; " + t if t else "")))


# ---- (9) variables that become inputs only after a stable motif of ANOTHER module is fixed (no input at the root) ---------------------------------
PERC_INPUT_FIRST = norm("p, q; q, p; w, z; z, w; x, (p & !x) | (!p & x); y, (p & !y) | (!p & y)")  # the instance that revealed the shape
PERC_INPUT_CONTROLLERS = {"switch": "p, q; q, p", "toggle": "p, !q; q, !p", "asym": "p, p | q; q, p & q", "source": "p, p", "latch": "p, p | (q & !p); q, q & p"}
PERC_INPUT_FORMS = ["({p} & !{x}) | (!{p} & {x})", "{x} & {p}", "{x} | !{p}", "({p} & {x}) | (!{p} & !{x})", "{x} | {p}", "{x} & !{p}", "({x} & {p}) | (!{p} & {o})",
                    "({x} | !{p}) & ({p} | !{o})"]
PERC_INPUT_EXTRAS = {"none": "", "switch": "w, z; z, w", "osc": "w, !w", "down_switch": "w, z | {x}; z, w", "down_latch": "w, w & ({x} | p)", "toggle": "w, !z; z, !w"}


def percolated_input_net(controller: str, forms, extra: str = "none") -> str:
    xs = ["x", "y", "v"][: len(forms)]
    rules = norm(PERC_INPUT_CONTROLLERS[controller])
    for k, (x, f) in enumerate(zip(xs, forms)):
        rules += "\n" + norm(f"{x}, " + f.format(x=x, p="p", o=xs[(k + 1) % len(xs)] if len(xs) > 1 else "p"))
    e = PERC_INPUT_EXTRAS[extra].format(x=xs[0])
    return norm(rules + ("\n" + norm(e) if e else ""))


def percolated_input_nets(seed: int, tier: str):
    """(name, bnet): a bistable (or source) controller p and 1-3 variables whose update function collapses to the identity under one value of p (so they
    are inputs of the percolated network of a NON-root node), optionally next to an independent / downstream module.  First the instance that revealed
    the shape, then controller x form x multiplicity x extra module in a seeded order, then seeded mixes of forms."""
    seen = set()

    def emit(name, b):
        if b in seen or len(variables(b)) > 7:
            return []
        seen.add(b)
        return [(name, b)]

    yield from emit("perc_input_first", PERC_INPUT_FIRST)
    combos = [(c, k, m, e) for c in PERC_INPUT_CONTROLLERS for k in range(len(PERC_INPUT_FORMS)) for m in (2, 1, 3) for e in PERC_INPUT_EXTRAS]
    rng = random.Random(seed * 71 + 13)
    rng.shuffle(combos)
    for c, k, m, e in combos[: 120 if tier == "quick" else len(combos)]:
        yield from emit(f"perc_input_{c}_{k}x{m}_{e}", percolated_input_net(c, [PERC_INPUT_FORMS[k]] * m, e))
    for i in range(120 if tier == "quick" else 1200):
        forms = [rng.choice(PERC_INPUT_FORMS) for _ in range(rng.choice([1, 2, 2, 3]))]
        yield from emit(f"perc_input{seed}_{i}", percolated_input_net(rng.choice(list(PERC_INPUT_CONTROLLERS)), forms, rng.choice(list(PERC_INPUT_EXTRAS))))


# ---- (10) a motif-avoidant module next to (or coupled with) bistable modules: the motif-avoidant attractor lies in the overlap of sibling nodes ------
MAA_OVERLAP_FIRST = [
    norm("A, !A & !B | C; B, !A & !B | C; C, A & B; P, P | (Q & A); Q, Q | (P & A)"),  # the instances that revealed the shape
    norm("A, (!A & !B) | C; B, (!A & !B) | C; C, A & B; p1, p2; p2, p1; q1, q2; q2, q1"),
]
MAA_OVERLAP_SIDE = {
    "switch": "p{i}, q{i}; q{i}, p{i}",
    "set_latch": "p{i}, p{i} | t{i}; t{i}, !t{i} & !p{i}",
    "self_or": "p{i}, p{i} | (q{i} & {o}); q{i}, q{i} | (p{i} & {o})",
    "asym": "p{i}, p{i} | q{i}; q{i}, p{i} & q{i}",
    "toggle": "p{i}, !q{i}; q{i}, !p{i}",
    "self_and": "p{i}, p{i} & (q{i} | {o}); q{i}, q{i} & (p{i} | !{o})",
    "single_or": "p{i}, p{i} | ({o} & !{o})",
    "single": "p{i}, p{i}",
}


def maa_overlap_net(up: str, sides) -> str:
    rules, outv = UP_MODULES[up]
    other = variables(rules)[0]
    text = rules
    for i, side in enumerate(sides):
        text += "\n" + norm(MAA_OVERLAP_SIDE[side].format(i=i + 1, o=other if i % 2 == 0 else outv))
    return norm(text)


def maa_overlap_nets(seed: int, tier: str):
    """(name, bnet): a motif-avoidant module (MAA core / XNOR pair) and 1-3 bistable side modules that are independent of it or read one of its
    variables; every stable motif of a side module leaves the motif-avoidant attractor alive, so it lies in the intersection of sibling nodes.
    First the instances that revealed the shape, then module x 1-2 side modules, then seeded combinations of 2-3 side modules."""
    seen = set()

    def emit(name, b):
        if b in seen or len(variables(b)) > 8:
            return []
        seen.add(b)
        return [(name, b)]

    for k, b in enumerate(MAA_OVERLAP_FIRST):
        yield from emit(f"maa_overlap_first{k}", b)
    sides = list(MAA_OVERLAP_SIDE)
    combos = [(u, (a,)) for u in UP_MODULES for a in sides] + [(u, (a, b)) for u in UP_MODULES for a in sides for b in sides]
    rng = random.Random(seed * 73 + 19)
    rng.shuffle(combos)
    for u, ss in combos[: 80 if tier == "quick" else len(combos)]:
        yield from emit(f"maa_overlap_{u}_{'_'.join(ss)}", maa_overlap_net(u, ss))
    for i in range(80 if tier == "quick" else 800):
        u = rng.choice(list(UP_MODULES))
        yield from emit(f"maa_overlap{seed}_{i}", maa_overlap_net(u, [rng.choice(sides) for _ in range(rng.choice([2, 2, 3]))]))


# ---- (11) multi-path diagrams in which a stable motif of one module splits into two steps once another module is fixed ------------------------------
# Under one state of the controller P the module's joint motif (e.g. R = U = T = 0) is reached in two steps (first T, then R, U): the node X below the
# joint motif m is a grandchild, not a child, of the controller node n although it lies inside n.
TWO_STEP_MODULES = {
    "ru_t": "R, R & U | T; U, R; T, R & (T | {c})",  # first: the instance that revealed the shape
    "r_t": "R, R | T; T, R & (T | {c})",
    "ru_t_dual": "R, (R | U) & T; U, R; T, R | (T & {c})",
    "r_t_dual": "R, R & T; T, R | (T & {c})",
    "ru_t_chain": "R, R & U; U, R | T; T, U & (T | {c})",
    "r_gated": "R, T | (R & {c}); T, R & T",
    "r_and": "R, R & (T | {c}); T, T & R",
    "r_or": "R, R | (T & {c}); T, T | R",
}
TWO_STEP_CONTROLLERS = {"switch": "P, Q; Q, P", "toggle": "P, !Q; Q, !P", "asym": "P, P | Q; Q, P & Q"}


def two_step_nets(seed: int, tier: str):
    """(name, bnet): controller x two-step module x polarity of the condition, then seeded latch-DAG networks with 3-5 variables (most of which have nested
    shortcut edges).  Callers keep those for which a brute-force filter confirms the shape and add a motif-avoidant gadget."""
    for m, mt in TWO_STEP_MODULES.items():
        for c, ct in TWO_STEP_CONTROLLERS.items():
            for lit in ("P", "!P"):
                yield (f"two_step_{m}_{c}_{'pos' if lit == 'P' else 'neg'}", norm(ct + "; " + mt.format(c=lit)))
    rng = random.Random(seed * 89 + 3)
    for i in range(400 if tier == "quick" else 4000):
        yield (f"two_step_ldag{seed}_{i}", latch_dag_net(seed * 8_009 + i, n=rng.choice([3, 4, 4, 5])))


def interleave(*gens):
    """Round-robin over generators (each argument is (generator, k): take k items per round) until all are exhausted."""
    its = [(iter(g), k) for g, k in gens]
    live = list(range(len(its)))
    while live:
        for idx in list(live):
            it, k = its[idx]
            for _ in range(k):
                try:
                    yield next(it)
                except StopIteration:
                    live.remove(idx)
                    break
