"""Brute-force explicit-state reference semantics for Boolean networks with few (<= ~10) variables.

Independent of biobalm.  biodivine_aeon is used ONLY to parse network text and to tabulate every
update function on all states; everything else (successors, reachability, attractors, trap spaces,
percolation, Petri-net semantics, reduced STG, succession diagram, control semantics) is computed
here by enumeration.

Encoding: variables are numbered in the order of `names` (= the order of the parsed network, which
is the order biobalm uses).  A state is an int whose bit i is the value of variable i.  A set of
states is a Python int used as a bit set over the 2**n states (bit s set <=> state s in the set).
A space is a dict name -> 0/1 (biobalm's BooleanSpace).
"""
from __future__ import annotations

import itertools
from functools import lru_cache

MAX_VARS = 10


# --------------------------------------------------------------------------------------------
# generic space utilities (no network needed)
# --------------------------------------------------------------------------------------------
def is_subspace(x: dict, y: dict) -> bool:
    """x is a subspace of y (x fixes everything y fixes, to the same value)."""
    return all(k in x and x[k] == v for k, v in y.items())


def intersect(x: dict, y: dict):
    for k, v in y.items():
        if k in x and x[k] != v:
            return None
    r = dict(x)
    r.update(y)
    return r


def skey(space: dict):
    """Hashable canonical form of a space."""
    return tuple(sorted(space.items()))


def _encode(spaces):
    names = sorted({k for s in spaces for k in s})
    pos = {k: i for i, k in enumerate(names)}
    enc = []
    for s in spaces:
        f = v = 0
        for k, b in s.items():
            f |= 1 << pos[k]
            if b:
                v |= 1 << pos[k]
        enc.append((f, v))
    return enc


def maximal(spaces: list[dict]) -> list[dict]:
    """Inclusion-maximal elements (as sets of states) of a list of distinct spaces."""
    enc = _encode(spaces)
    order = sorted(range(len(spaces)), key=lambda i: len(spaces[i]))  # fewest fixed variables first
    found = []
    for i in order:
        f, v = enc[i]
        # i is inside j  <=>  j's fixed variables are fixed in i with the same values
        if not any((f & fj) == fj and (v & fj) == vj for fj, vj in found):
            found.append((f, v))
    keep = set(found)
    return [s for s, e in zip(spaces, enc) if e in keep]


def minimal(spaces: list[dict]) -> list[dict]:
    enc = _encode(spaces)
    order = sorted(range(len(spaces)), key=lambda i: -len(spaces[i]))  # most fixed variables first
    found = []
    for i in order:
        f, v = enc[i]
        # j is inside i  <=>  i's fixed variables are fixed in j with the same values
        if not any((fj & f) == f and (vj & f) == v for fj, vj in found):
            found.append((f, v))
    keep = set(found)
    return [s for s, e in zip(spaces, enc) if e in keep]


# --------------------------------------------------------------------------------------------
# parsing / tabulation (the only place that touches biodivine_aeon)
# --------------------------------------------------------------------------------------------
def _tabulate_bn(bn):
    """names (network order) and, per variable, the ON-set of its update function as a bit set."""
    from biodivine_aeon import AsynchronousGraph

    bn = bn.infer_valid_graph()
    names = list(bn.variable_names())
    n = len(names)
    if n > MAX_VARS:
        raise ValueError(f"oracle supports at most {MAX_VARS} variables, got {n}")
    graph = AsynchronousGraph(bn)
    ctx = graph.symbolic_context()
    ids = [ctx.find_network_bdd_variable(v) for v in bn.variables()]
    on = []
    for i, v in enumerate(bn.variables()):
        if bn.get_update_function(v) is None:
            # free input without a rule: identity (biobalm: no Petri-net transition)
            on.append(sum(1 << s for s in range(1 << n) if (s >> i) & 1))
            continue
        bdd = graph.mk_update_function(v)
        m = 0
        if bdd.is_true():
            m = (1 << (1 << n)) - 1
        elif not bdd.is_false():
            for s in range(1 << n):
                d = {ids[j]: bool((s >> j) & 1) for j in range(n)}
                if bdd.r_restrict(d).is_true():
                    m |= 1 << s
        on.append(m)
    return names, on


class Net:
    """Explicit-state view of one Boolean network."""

    def __init__(self, names: list[str], on: list[int]):
        self.names = list(names)
        self.n = len(names)
        self.N = 1 << self.n
        self.ALL = (1 << self.N) - 1
        self.on = list(on)  # on[i]: bit set of states where f_i = 1
        self.idx = {v: i for i, v in enumerate(self.names)}
        # lit[i][b]: bit set of the states with x_i = b
        self.lit = []
        for i in range(self.n):
            one = 0
            for s in range(self.N):
                if (s >> i) & 1:
                    one |= 1 << s
            self.lit.append((self.ALL & ~one, one))
        self._succ = None
        self._traps = {}
        self._attr = None
        self._sd = None

    # ---- construction -----------------------------------------------------------------
    @staticmethod
    def from_bnet(text: str) -> "Net":
        from biodivine_aeon import BooleanNetwork

        return Net(*_tabulate_bn(BooleanNetwork.from_bnet(text)))

    @staticmethod
    def from_bn(bn) -> "Net":
        return Net(*_tabulate_bn(bn))

    # ---- states -----------------------------------------------------------------------
    def state_of(self, d: dict) -> int:
        """dict over all variables -> state int."""
        assert set(d) == set(self.names), (sorted(d), self.names)
        return sum((1 if d[v] else 0) << i for i, v in enumerate(self.names))

    def state_dict(self, s: int) -> dict:
        return {v: (s >> i) & 1 for i, v in enumerate(self.names)}

    def f(self, i: int, s: int) -> int:
        return (self.on[i] >> s) & 1

    def image(self, s: int) -> int:
        """Synchronous image F(s)."""
        return sum(self.f(i, s) << i for i in range(self.n))

    def moves(self, s: int) -> list[tuple[int, str]]:
        """(variable index, 'up'/'down') for every enabled asynchronous transition in s."""
        out = []
        for i in range(self.n):
            fv, xv = self.f(i, s), (s >> i) & 1
            if fv != xv:
                out.append((i, "up" if fv else "down"))
        return out

    def succ(self, s: int) -> list[int]:
        if self._succ is None:
            self._succ = [[t ^ (1 << i) for i in range(self.n) if self.f(i, t) != (t >> i) & 1] for t in range(self.N)]
        return self._succ[s]

    def states(self, bits: int) -> list[int]:
        out = []
        s = 0
        while bits:
            low = bits & -bits
            out.append(low.bit_length() - 1)
            bits ^= low
        return out

    def bits(self, states) -> int:
        m = 0
        for s in states:
            m |= 1 << s
        return m

    # ---- reachability / attractors ----------------------------------------------------
    def reach(self, start) -> int:
        """Forward-reachable set (bit set) from a state or an iterable of states."""
        if isinstance(start, int):
            start = [start]
        seen = 0
        stack = []
        for s in start:
            if not (seen >> s) & 1:
                seen |= 1 << s
                stack.append(s)
        while stack:
            x = stack.pop()
            for y in self.succ(x):
                if not (seen >> y) & 1:
                    seen |= 1 << y
                    stack.append(y)
        return seen

    def attractors(self) -> list[int]:
        """Terminal SCCs of the asynchronous STG, each as a bit set; sorted by smallest state."""
        if self._attr is not None:
            return self._attr
        # iterative Tarjan; an SCC is an attractor iff no transition leaves it
        index = [-1] * self.N
        low = [0] * self.N
        onstack = [False] * self.N
        comp = [-1] * self.N
        sccs = []
        st = []
        counter = 0
        for root in range(self.N):
            if index[root] != -1:
                continue
            work = [(root, 0)]
            index[root] = low[root] = counter
            counter += 1
            st.append(root)
            onstack[root] = True
            while work:
                v, pi = work[-1]
                succs = self.succ(v)
                if pi < len(succs):
                    work[-1] = (v, pi + 1)
                    w = succs[pi]
                    if index[w] == -1:
                        index[w] = low[w] = counter
                        counter += 1
                        st.append(w)
                        onstack[w] = True
                        work.append((w, 0))
                    elif onstack[w]:
                        low[v] = min(low[v], index[w])
                else:
                    work.pop()
                    if work:
                        u = work[-1][0]
                        low[u] = min(low[u], low[v])
                    if low[v] == index[v]:
                        members = []
                        while True:
                            w = st.pop()
                            onstack[w] = False
                            comp[w] = len(sccs)
                            members.append(w)
                            if w == v:
                                break
                        sccs.append(members)
        atts = []
        for ci, members in enumerate(sccs):
            if all(comp[t] == ci for s in members for t in self.succ(s)):
                atts.append(self.bits(members))
        atts.sort(key=lambda a: (a & -a).bit_length())
        self._attr = atts
        return atts

    def attractor_of(self, s: int):
        """The attractor containing state s, or None."""
        for a in self.attractors():
            if (a >> s) & 1:
                return a
        return None

    def attractors_reachable_from(self, bits: int) -> list[int]:
        r = self.reach(self.states(bits))
        return [a for a in self.attractors() if a & r]

    def fixed_points(self) -> list[int]:
        return [s for s in range(self.N) if not self.succ(s)]

    # ---- spaces -----------------------------------------------------------------------
    def mask(self, space: dict) -> int:
        """Bit set of the states of a space (variables unknown to the network raise KeyError)."""
        m = self.ALL
        for k, v in space.items():
            m &= self.lit[self.idx[k]][1 if v else 0]
        return m

    def const_on(self, i: int, m: int):
        """Value of f_i if it is constant on the non-empty state set m, else None."""
        if m & self.on[i] == 0:
            return 0
        if m & ~self.on[i] == 0:
            return 1
        return None

    def is_trap(self, space: dict) -> bool:
        m = self.mask(space)
        return all(self.const_on(self.idx[k], m) == v for k, v in space.items())

    def is_trap_set(self, bits: int) -> bool:
        return all((bits >> t) & 1 for s in self.states(bits) for t in self.succ(s))

    def all_spaces(self):
        for vals in itertools.product((None, 0, 1), repeat=self.n):
            yield {k: v for k, v in zip(self.names, vals) if v is not None}

    def trap_spaces(self, reverse: bool = False) -> list[dict]:
        """All trap spaces (of the time-reversed dynamics if `reverse`), including the full space."""
        if reverse not in self._traps:
            if not reverse:
                self._traps[reverse] = [sp for sp in self.all_spaces() if self.is_trap(sp)]
            else:
                # S is a trap set of the reversed STG iff no transition ENTERS S from outside.
                enters = []
                for sp in self.all_spaces():
                    m = self.mask(sp)
                    ok = True
                    for s in self.states(self.ALL & ~m):
                        if any((m >> t) & 1 for t in self.succ(s)):
                            ok = False
                            break
                    if ok:
                        enters.append(sp)
                self._traps[reverse] = enters
        return self._traps[reverse]

    def trap_family(self, reverse=False, ensure=None, avoid=(), must_fix=(), nontrivial=False) -> list[dict]:
        """Trap spaces T with T <= ensure, T not inside any avoided space, fixing all of `must_fix`,
        and (if nontrivial) fixing at least one variable that `ensure` leaves free."""
        ensure = ensure or {}
        out = []
        for t in self.trap_spaces(reverse):
            if not is_subspace(t, ensure):
                continue
            if any(is_subspace(t, a) for a in avoid):
                continue
            if any(v not in t for v in must_fix):
                continue
            if nontrivial and len(t) <= len(ensure):
                continue
            out.append(t)
        return out

    def hull(self, bits: int) -> dict:
        """Smallest subspace containing a non-empty state set."""
        sp = {}
        for i, v in enumerate(self.names):
            if bits & self.lit[i][0] == 0:
                sp[v] = 1
            elif bits & self.lit[i][1] == 0:
                sp[v] = 0
        return sp

    def trap_hull(self, bits: int) -> dict:
        """Smallest trap space containing a non-empty state set."""
        sp = self.hull(bits)
        while not self.is_trap(sp):
            m = self.mask(sp)
            for s in self.states(m):
                for t in self.succ(s):
                    m |= 1 << t
            sp = self.hull(m)
        return sp

    def min_traps(self, inside: dict | None = None) -> list[dict]:
        """Inclusion-minimal trap spaces (inside `inside`): every minimal trap space is the smallest
        trap space around one of the attractors it contains."""
        inside = inside or {}
        m = self.mask(inside)
        hulls = {}
        for a in self.attractors():
            if a & ~m == 0:
                h = self.trap_hull(a)
                if is_subspace(h, inside):
                    hulls[skey(h)] = h
        return minimal(list(hulls.values()))

    def min_traps_by_definition(self, inside: dict | None = None) -> list[dict]:
        return minimal(self.trap_family(ensure=inside or {}))

    def max_traps_in(self, space: dict, must_fix=()) -> list[dict]:
        """Maximal trap spaces STRICTLY inside `space` among those fixing every variable of must_fix."""
        return maximal(self.trap_family(ensure=space, must_fix=must_fix, nontrivial=True))

    def source_vars(self) -> list[str]:
        """Variables whose update function is the identity."""
        return [v for i, v in enumerate(self.names) if self.on[i] == self.lit[i][1]]

    def constant_vars(self) -> dict:
        return {v: (1 if self.on[i] else 0) for i, v in enumerate(self.names) if self.on[i] in (0, self.ALL)}

    # ---- percolation ------------------------------------------------------------------
    def percolate(self, space: dict) -> dict:
        """Least fixed point of value propagation; given values are kept even if they conflict."""
        cur = dict(space)
        changed = True
        while changed:
            changed = False
            m = self.mask(cur)
            for i, v in enumerate(self.names):
                if v in cur:
                    continue
                c = self.const_on(i, m)
                if c is not None:
                    cur[v] = c
                    changed = True
                    m = self.mask(cur)
        return cur

    def percolate_strict(self, space: dict) -> dict:
        """biobalm.space_utils.percolate_space_strict (DESIGN 7/C11): propagation starts from the given
        values alone, variables with constant update functions never take part; reported are the
        variables v with a non-constant function that is forced to b on the closure R*, provided v is
        not given or is given with the same value b (a given, self-sustained variable IS reported)."""
        const = self.constant_vars()
        cur = dict(space)
        result = {}
        changed = True
        while changed:
            changed = False
            m = self.mask(cur)
            for i, v in enumerate(self.names):
                if v in const or v in result:
                    continue
                c = self.const_on(i, m)
                if c is None:
                    continue
                if v in cur and cur[v] != c:
                    continue  # conflict with a given value: neither reported nor changed
                result[v] = c
                if v not in cur:
                    cur[v] = c
                    m = self.mask(cur)
                changed = True
        return result

    # ---- derived networks -------------------------------------------------------------
    def reversed_moves(self):
        """Predecessor lists of the STG (successors of the time-reversed dynamics)."""
        pred = [[] for _ in range(self.N)]
        for s in range(self.N):
            for t in self.succ(s):
                pred[t].append(s)
        return pred

    def override(self, fix: dict) -> "Net":
        """Network in which every variable of `fix` has the constant update function fix[v]."""
        on = list(self.on)
        for k, v in fix.items():
            on[self.idx[k]] = self.ALL if v else 0
        return Net(self.names, on)

    def restrict(self, space: dict) -> "Net":
        """Network over the variables `space` leaves free, update functions evaluated with the fixed values."""
        free = [v for v in self.names if v not in space]
        sub = Net(free, [0] * len(free))
        for j, v in enumerate(free):
            i = self.idx[v]
            m = 0
            for t in range(sub.N):
                d = dict(space)
                d.update(sub.state_dict(t))
                if self.f(i, self.state_of(d)):
                    m |= 1 << t
            sub.on[j] = m
        return sub

    def project(self, names: list[str]) -> "Net":
        """Sub-network on a backward-closed variable set (functions must not depend on the rest)."""
        keep = [v for v in self.names if v in names]
        sub = Net(keep, [0] * len(keep))
        for j, v in enumerate(keep):
            i = self.idx[v]
            m = 0
            for t in range(sub.N):
                d = {w: 0 for w in self.names}
                d.update(sub.state_dict(t))
                val = self.f(i, self.state_of(d))
                # independence of the dropped variables
                for w in self.names:
                    if w not in keep:
                        d2 = dict(d)
                        d2[w] = 1
                        assert self.f(i, self.state_of(d2)) == val, "projection on a set that is not backward closed"
                if val:
                    m |= 1 << t
            sub.on[j] = m
        return sub

    def depends_on(self, i: int, j: int) -> bool:
        """f_i semantically depends on x_j."""
        return any(self.f(i, s) != self.f(i, s ^ (1 << j)) for s in range(self.N))

    # ---- reduced STG ------------------------------------------------------------------
    def reduced_stg_deadlocks(self, retained: dict, ensure=None, avoid=()) -> list[int]:
        """States without an enabled transition after removing every transition that moves a
        retained variable away from its retained value; inside `ensure`, outside every `avoid`."""
        m = self.mask(ensure or {})
        for a in avoid:
            m &= ~self.mask(a)
        out = []
        for s in self.states(m):
            dead = True
            for i, v in enumerate(self.names):
                x = (s >> i) & 1
                if self.f(i, s) == x:
                    continue
                if v in retained and x == retained[v]:
                    continue  # this transition would move v away from its retained value: removed
                dead = False
                break
            if dead:
                out.append(s)
        return out

    # ---- succession diagram reference ---------------------------------------------------
    def full_sd(self):
        """Reference full succession diagram.

        Returns (root_key, nodes, edges): nodes maps skey(space) -> space (percolated trap spaces
        reachable from the percolated root), edges maps (parent_key, child_key) -> list of stable
        motifs (maximal trap spaces strictly inside the parent; at the root among those fixing every
        source variable) that percolate to the child."""
        if self._sd is not None:
            return self._sd
        root = self.percolate({})
        rk = skey(root)
        nodes = {rk: root}
        edges = {}
        stack = [root]
        sources = self.source_vars()
        while stack:
            sp = stack.pop()
            k = skey(sp)
            for m in self.max_traps_in(sp, must_fix=sources if k == rk else ()):
                c = self.percolate(m)
                ck = skey(c)
                edges.setdefault((k, ck), []).append(m)
                if ck not in nodes:
                    nodes[ck] = c
                    stack.append(c)
        self._sd = (rk, nodes, edges)
        return self._sd

    def sd_children(self, space: dict) -> dict:
        """child_key -> list of motifs for a percolated trap space that is a node of the full diagram
        (or any percolated trap space; then the non-root rule is used)."""
        rk, nodes, edges = self.full_sd()
        k = skey(space)
        if k in nodes:
            return {c: ms for (p, c), ms in edges.items() if p == k}
        out = {}
        for m in self.max_traps_in(space):
            out.setdefault(skey(self.percolate(m)), []).append(m)
        return out

    # ---- attractor ownership ------------------------------------------------------------
    def attractors_in(self, space: dict) -> list[int]:
        m = self.mask(space)
        return [a for a in self.attractors() if a & ~m == 0]

    def owned_attractors(self, space: dict, kids: list[dict]) -> list[int]:
        """Attractors inside `space` that are not inside any of the `kids` spaces."""
        km = [self.mask(k) for k in kids]
        return [a for a in self.attractors_in(space) if not any(a & ~k == 0 for k in km)]

    def motif_avoidant(self) -> list[int]:
        """Attractors that are not inside any minimal trap space."""
        mins = [self.mask(t) for t in self.min_traps()]
        return [a for a in self.attractors() if not any(a & ~m == 0 for m in mins)]


# --------------------------------------------------------------------------------------------
# Petri-net semantics (for a networkx DiGraph produced by biobalm.petri_net_translation)
# --------------------------------------------------------------------------------------------
def pn_variables(pn) -> list[str]:
    return sorted(str(p)[3:] for p in pn.nodes if str(p).startswith("b0_"))


def pn_well_formed(pn) -> list[str]:
    """Structural problems of the encoding (empty list = well formed): every variable has both
    places; every transition consumes exactly one place of one variable and produces the opposite
    place of the same variable, and only reads (consumes and reproduces) other places."""
    problems = []
    places = {p for p, k in pn.nodes(data="kind") if k == "place"}
    for p in places:
        if not (p.startswith("b0_") or p.startswith("b1_")):
            problems.append(f"bad place name {p}")
        other = ("b1_" if p.startswith("b0_") else "b0_") + p[3:]
        if other not in places:
            problems.append(f"place {p} without its twin")
    for t, k in pn.nodes(data="kind"):
        if k == "place":
            continue
        if k != "transition":
            problems.append(f"node {t} of kind {k}")
            continue
        pre, post = set(pn.predecessors(t)), set(pn.successors(t))
        if not (pre <= places and post <= places):
            problems.append(f"{t} touches a non-place")
            continue
        cons, prod = pre - post, post - pre
        if len(cons) != 1 or len(prod) != 1:
            problems.append(f"{t} consumes {sorted(cons)} produces {sorted(prod)}")
            continue
        c, p = next(iter(cons)), next(iter(prod))
        if c[3:] != p[3:] or c[:3] == p[:3]:
            problems.append(f"{t} moves {c} to {p}")
    return problems


def pn_moves(pn, state: dict) -> set[tuple[str, str]]:
    """(variable, 'up'/'down') for every Petri-net transition enabled in `state` (dict over the
    net's variables): a transition is enabled iff all its input places are marked."""
    out = set()
    for t, k in pn.nodes(data="kind"):
        if k != "transition":
            continue
        pre, post = set(pn.predecessors(t)), set(pn.successors(t))
        if all(state[p[3:]] == (1 if p.startswith("b1_") else 0) for p in pre):
            cons, prod = pre - post, post - pre
            c = next(iter(cons))
            out.add((c[3:], "up" if c.startswith("b0_") else "down"))
    return out
