"""Shared helpers of the bounded stand-in: importing the tree under test, replaying API-call
histories on a real SuccessionDiagram, canonical dumps, and the executable twins of the
SuccessionDiagram invariants (DESIGN.md section 5) evaluated against oracle.Net."""
from __future__ import annotations

import os
import pickle
import sys

HERE = os.path.dirname(os.path.abspath(__file__))
if HERE not in sys.path:
    sys.path.insert(0, HERE)

import oracle  # noqa: E402
from oracle import is_subspace, skey  # noqa: E402

REPO = os.path.abspath(os.environ.get("PYVC_REPO", "/repo"))


class HarnessAbort(Exception):
    """The tree under test cannot be imported from PYVC_REPO."""


def import_biobalm():
    """Import biobalm from PYVC_REPO (front of sys.path) and verify where it came from."""
    if sys.path[0] != REPO:
        sys.path.insert(0, REPO)
    import biobalm

    f = os.path.abspath(biobalm.__file__)
    if not f.startswith(REPO + os.sep):
        raise HarnessAbort(f"biobalm imported from {f}, expected below {REPO}")
    return biobalm


def is_biobalm_file(path: str) -> bool:
    return os.path.abspath(path).startswith(os.path.join(REPO, "biobalm") + os.sep)


# --------------------------------------------------------------------------------------------
# failures
# --------------------------------------------------------------------------------------------
def fail(kind, clause, detail="", observed=None, expected=None):
    return {"kind": kind, "clause": clause, "detail": str(detail), "observed": jsonable(observed), "expected": jsonable(expected)}


def jsonable(x):
    if x is None or isinstance(x, (bool, int, float, str)):
        return x
    if isinstance(x, dict):
        return {str(k): jsonable(v) for k, v in x.items()}
    if isinstance(x, (list, tuple, set, frozenset)):
        items = [jsonable(v) for v in x]
        if isinstance(x, (set, frozenset)):
            items = sorted(items, key=repr)
        return items
    return repr(x)


# --------------------------------------------------------------------------------------------
# diagrams
# --------------------------------------------------------------------------------------------
def make_sd(bnet: str, config: dict | None = None):
    import_biobalm()
    from biobalm import SuccessionDiagram

    cfg = SuccessionDiagram.default_config()
    if config:
        cfg.update(config)
    return SuccessionDiagram.from_rules(bnet, config=cfg)


def node_ref(sd, k):
    return None if k is None else int(k) % len(sd)


def run_step(sd, step):
    """Execute one history step on sd.  Returns (sd, result) where sd may be a new object (pickle)
    and result is JSON-able.  RuntimeError (documented limit errors) is recorded, not raised."""
    op = step[0]
    a = step[1:]
    try:
        if op == "bfs":
            r = sd.expand_bfs(node_ref(sd, a[0]), bfs_level_limit=a[1], size_limit=a[2])
        elif op == "dfs":
            r = sd.expand_dfs(node_ref(sd, a[0]), dfs_stack_limit=a[1], size_limit=a[2])
        elif op == "min":
            r = sd.expand_minimal_spaces(node_ref(sd, a[0]), size_limit=a[1], skip_ignored=a[2])
        elif op == "aseeds":
            r = sd.expand_attractor_seeds(size_limit=a[0])
        elif op == "target":
            r = sd.expand_to_target(dict(a[0]), size_limit=a[1])
        elif op == "block":
            r = sd.expand_block(find_motif_avoidant_attractors=a[0], size_limit=a[1], optimize_source_nodes=a[2],
                                exact_attractor_detection=a[3])
        elif op == "scc":
            r = sd.expand_scc(find_motif_avoidant_attractors=a[0])
        elif op == "build":
            r = sd.build()
        elif op == "succ":
            r = sorted(sd.node_successors(node_ref(sd, a[0]), compute=True))
        elif op == "succ_space":  # single-node expansion of the node whose space is given (nothing happens if the diagram has no such node)
            i = sd.find_node(dict(a[0]))
            r = None if i is None else sorted(sd.node_successors(i, compute=True))
        elif op == "cands":
            r = states_json(sd.node_attractor_candidates(node_ref(sd, a[0]), compute=True, greedy_asp_minification=a[1],
                                                         simulation_minification=a[2]))
        elif op == "seeds":
            r = states_json(sd.node_attractor_seeds(node_ref(sd, a[0]), compute=True, symbolic_fallback=a[1]))
        elif op == "sets":
            r = [s.cardinality() for s in sd.node_attractor_sets(node_ref(sd, a[0]), compute=True)]
        elif op == "skip":
            r = sd.skip_to_minimal(node_ref(sd, a[0]))
        elif op == "skip_remaining":
            r = sd.skip_remaining()
        elif op == "skip_all":  # skip_to_minimal on every currently unexpanded node
            r = [sd.skip_to_minimal(i) for i in list(sd.stub_ids())]
        elif op == "reclaim":
            r = sd.reclaim_node_data()
        elif op == "pickle":
            sd = pickle.loads(pickle.dumps(sd))
            r = None
        elif op == "control":
            from biobalm.control import succession_control

            ivs = succession_control(sd, dict(a[0]), strategy=a[1], max_drivers_per_succession_node=a[2],
                                     forbidden_drivers=set(a[3]) if a[3] is not None else None, successful_only=a[4],
                                     skip_feedforward_successions=a[5])
            r = [intervention_json(i) for i in ivs]
        else:
            raise ValueError(f"unknown history op {op}")
    except RuntimeError as e:
        return sd, {"raised": "RuntimeError", "msg": str(e)[:80]}
    return sd, r


def run_history(sd, history, after_step=None):
    log = []
    for i, step in enumerate(history):
        sd, r = run_step(sd, step)
        log.append(r)
        if after_step is not None:
            after_step(sd, i, step, r)
    return sd, log


def states_json(states):
    return [dict(sorted(s.items())) for s in states]


def intervention_json(iv):
    return {"succession": [dict(sorted(m.items())) for m in iv.succession], "control": [[dict(sorted(d.items())) for d in c] for c in iv.control],
            "strategy": iv.strategy, "successful": iv.successful}


def vertex_set_bits(sd, net: oracle.Net, vs) -> int:
    """biodivine_aeon.VertexSet over sd.network's variables -> oracle bit set."""
    bits = 0
    for m in vs.items():
        d = {sd.network.get_variable_name(k): int(v) for k, v in m.to_dict().items()}
        bits |= 1 << net.state_of(d)
    return bits


def state_or_none(net: oracle.Net, d):
    """State int of a dict that should assign exactly the network's variables, else None."""
    if not isinstance(d, dict) or set(d) != set(net.names) or any(v not in (0, 1) for v in d.values()):
        return None
    return net.state_of(d)


def successors(sd, i):
    return sorted(sd.dag.successors(i))


def motifs(sd, p, c):
    return list(sd.dag.edges[p, c]["all_motifs"])


def dump(sd, with_cache=True) -> dict:
    """Canonical JSON-able dump of everything observable: ids, spaces, flags, edges, motifs (in
    order), depths and cached attractor data (sets as sorted state lists)."""
    names = list(sd.network.variable_names())
    nodes = []
    for i in sd.node_ids():
        d = sd.node_data(i)
        rec = {"id": i, "space": dict(sorted(d["space"].items())), "expanded": bool(d["expanded"]), "skipped": bool(d["skipped"]),
               "depth": d["depth"], "succ": successors(sd, i)}
        if with_cache:
            rec["cand"] = None if d["attractor_candidates"] is None else states_json(d["attractor_candidates"])
            rec["seeds"] = None if d["attractor_seeds"] is None else states_json(d["attractor_seeds"])
            sets = d["attractor_sets"]
            if sets is None:
                rec["sets"] = None
            else:
                rec["sets"] = [sorted("".join(str(int(m.to_named_dict()[v])) for v in names) for m in s.items()) for s in sets]
        nodes.append(rec)
    edges = []
    for p, c in sorted(sd.dag.edges):
        e = sd.dag.edges[p, c]
        edges.append({"p": p, "c": c, "motif": dict(sorted(e["motif"].items())), "all": [dict(sorted(m.items())) for m in e["all_motifs"]]})
    return {"names": names, "len": len(sd), "depth": sd.depth(), "nodes": nodes, "edges": edges,
            "index": sorted((str(k), v) for k, v in sd.node_indices.items())}


# --------------------------------------------------------------------------------------------
# executable invariants (DESIGN.md section 5)
# --------------------------------------------------------------------------------------------
def longest_paths(sd) -> dict:
    import networkx as nx

    lp = {v: 0 for v in sd.dag.nodes}
    for v in nx.topological_sort(sd.dag):
        for w in sd.dag.successors(v):
            lp[w] = max(lp[w], lp[v] + 1)
    return lp


def check_structure(sd, net: oracle.Net, plain: bool = True, check_depth: bool = False) -> list:
    """I-ids, I-key, I-space, I-stub, I-norm / I-skip, I-edge (and I-depth on request).

    plain=True: every expanded node that is not flagged `skipped` must be a *normal* node (successors
    and motifs exactly as in the full diagram).  plain=False (histories with source shortcuts / SCC
    attachment): such a node may instead have any set of distinct percolated trap spaces strictly
    inside it as successors, provided every minimal trap space inside the node is inside one of them."""
    out = []
    K = len(sd)
    ids = sorted(sd.dag.nodes)
    if ids != list(range(K)) or list(sd.node_ids()) != list(range(K)) or sd.root() != 0:
        out.append(fail("ids_not_contiguous", "I-ids", observed=ids, expected=list(range(K))))
        return out
    spaces = [sd.node_data(i)["space"] for i in range(K)]
    keys = [skey(s) for s in spaces]
    if len(set(keys)) != K:
        dup = [k for k in set(keys) if keys.count(k) > 1]
        out.append(fail("duplicate_space", "no trap space appears as two nodes (I-key)", observed=dup))
    for i in range(K):
        if sd.find_node(spaces[i]) != i:
            out.append(fail("index_mismatch", "I-key: find_node(space[i]) == i", observed=sd.find_node(spaces[i]), expected=i))
    if len(sd.node_indices) != K:
        out.append(fail("index_size", "I-key: index is a bijection", observed=len(sd.node_indices), expected=K))
    root = net.percolate({})
    if spaces[0] != root:
        out.append(fail("root_space", "the root is the percolation of the unconstrained space", observed=spaces[0], expected=root))
    rk, ref_nodes, ref_edges = net.full_sd()
    for i in range(K):
        sp = spaces[i]
        d = sd.node_data(i)
        if not net.is_trap(sp):
            out.append(fail("node_not_trap", "every node is a trap space (I-space)", f"node {i}", observed=sp))
            continue
        if net.percolate(sp) != sp:
            out.append(fail("node_not_percolated", "every node is closed under percolation (I-space)", f"node {i}", observed=sp,
                            expected=net.percolate(sp)))
            continue
        succ = successors(sd, i)
        if not d["expanded"]:
            if succ:
                out.append(fail("stub_with_successors", "every unexpanded node has no successors (I-stub)", f"node {i}", observed=succ))
            continue
        for c in succ:
            if not (is_subspace(spaces[c], sp) and spaces[c] != sp):
                out.append(fail("edge_not_strict", "successor strictly inside parent (I-edge)", f"{i}->{c}", observed=spaces[c], expected=sp))
        if d["skipped"]:
            exp = sorted(skey(t) for t in net.min_traps(sp))
            obs = sorted(keys[c] for c in succ)
            if obs != exp:
                out.append(fail("skip_successors", "skip node successors are exactly the minimal trap spaces inside it (I-skip)", f"node {i}",
                                observed=obs, expected=exp))
            for c in succ:
                if not sd.node_data(c)["expanded"] or successors(sd, c):
                    out.append(fail("skip_child_not_leaf", "children of skip nodes are expanded leaves (I-skip)", f"{i}->{c}"))
            continue
        ref = net.sd_children(sp)
        obs_children = sorted(keys[c] for c in succ)
        if obs_children == sorted(ref):
            normal = True
        else:
            normal = False
        if normal:
            for c in succ:
                obs_m = sorted(skey(m) for m in motifs(sd, i, c))
                exp_m = sorted(skey(m) for m in ref[keys[c]])
                if obs_m != exp_m:
                    if plain:
                        out.append(fail("edge_motifs", "each edge carries exactly the stable motifs that percolate to its child (I-norm)",
                                        f"{i}->{c}", observed=obs_m, expected=exp_m))
        elif plain:
            out.append(fail("successors_mismatch", "expanded node has exactly the successors it has in the full diagram (I-norm)",
                            f"node {i} space {sp}", observed=obs_children, expected=sorted(ref)))
        else:
            mins = net.min_traps(sp)
            if succ:
                for t in mins:
                    if not any(is_subspace(t, spaces[c]) for c in succ):
                        out.append(fail("minimal_trap_unreachable", "every minimal trap space inside an expanded node is inside a successor",
                                        f"node {i}", observed=t))
            elif [skey(t) for t in mins] != [keys[i]]:
                out.append(fail("false_leaf", "an expanded leaf is a minimal trap space", f"node {i}", observed=sp, expected=mins))
    if check_depth:
        out += check_depths(sd)
    return out


def check_depths(sd) -> list:
    out = []
    lp = longest_paths(sd)
    for v in sd.dag.nodes:
        if sd.node_data(v)["depth"] != lp[v]:
            out.append(fail("depth_not_longest_path", "a node's depth equals the length of the longest path from the root to it", f"node {v}",
                            observed=sd.node_data(v)["depth"], expected=lp[v]))
    if sd.depth() != max(lp.values()):
        out.append(fail("diagram_depth", "the diagram depth is the maximum node depth", observed=sd.depth(), expected=max(lp.values())))
    return out


def owned(sd, net: oracle.Net, i) -> list[int]:
    """Attractors inside node i's space that are inside none of its current successors."""
    return net.owned_attractors(sd.node_data(i)["space"], [sd.node_data(c)["space"] for c in successors(sd, i)])


def check_cache(sd, net: oracle.Net, i, what=("cand", "seeds", "sets"), prefix="") -> list:
    """I-cache for node i: whatever is cached must be correct for the node's CURRENT successors
    (exact for ordinary nodes; sound and duplicate-free for skip nodes)."""
    out = []
    d = sd.node_data(i)
    sp = d["space"]
    skip = bool(d["skipped"])
    mine = owned(sd, net, i)
    where = f"node {i} space {dict(sorted(sp.items()))} successors {successors(sd, i)}"
    cand, seeds, sets = d["attractor_candidates"], d["attractor_seeds"], d["attractor_sets"]
    if "cand" in what and cand is not None:
        cs = [state_or_none(net, c) for c in cand]
        if any(c is None for c in cs):
            out.append(fail(prefix + "candidate_not_state", "candidates are full network states", where, observed=cand))
        else:
            m = net.mask(sp)
            if any(not (m >> c) & 1 for c in cs):
                out.append(fail(prefix + "candidate_outside_node", "candidates lie inside the node's trap space", where, observed=cand))
            if not skip:
                miss = [a for a in mine if not any((a >> c) & 1 for c in cs)]
                if miss:
                    out.append(fail(prefix + "candidates_miss_attractor", "every attractor of the node that is not inside a successor contains a candidate",
                                    where, observed=states_json(cand), expected=[net.state_dict(net.states(a)[0]) for a in miss]))
    if "seeds" in what and seeds is not None:
        ss = [state_or_none(net, c) for c in seeds]
        if any(c is None for c in ss):
            out.append(fail(prefix + "seed_not_state", "every seed is a full network state", where, observed=seeds))
        else:
            atts = [net.attractor_of(s) for s in ss]
            if any(a is None for a in atts):
                bad = [seeds[k] for k, a in enumerate(atts) if a is None]
                out.append(fail(prefix + "seed_not_in_attractor", "every seed lies in an attractor", where, observed=bad))
            else:
                if any(a not in mine for a in atts):
                    bad = [seeds[k] for k, a in enumerate(atts) if a not in mine]
                    out.append(fail(prefix + "seed_attractor_not_owned", "the seed's attractor is inside the node and inside none of its successors",
                                    where, observed=bad))
                if len(set(atts)) != len(atts):
                    out.append(fail(prefix + "duplicate_seed", "seeds of one node lie in pairwise different attractors", where, observed=states_json(seeds)))
                if not skip:
                    miss = [a for a in mine if a not in atts]
                    if miss:
                        out.append(fail(prefix + "seeds_miss_attractor", "every attractor owned by the node has a seed", where,
                                        observed=states_json(seeds), expected=[net.state_dict(net.states(a)[0]) for a in miss]))
    if "sets" in what and sets is not None:
        if seeds is None:
            out.append(fail(prefix + "sets_without_seeds", "attractor sets are cached together with their seeds", where))
        elif len(sets) != len(seeds):
            out.append(fail(prefix + "sets_seeds_length", "attractor sets are in the order of the node's seeds", where, observed=len(sets), expected=len(seeds)))
        else:
            for k, vs in enumerate(sets):
                s = state_or_none(net, seeds[k])
                if s is None:
                    continue
                bits = vertex_set_bits(sd, net, vs)
                if bits != net.attractor_of(s):
                    exp = net.attractor_of(s)
                    out.append(fail(prefix + "set_not_attractor", "set k is exactly the attractor containing seed k, over all network variables", where,
                                    observed=sorted(net.states(bits)), expected=None if exp is None else sorted(net.states(exp))))
    return out


def all_seeds(sd, net, ids=None, compute=True):
    """(node id, state int, seed dict) for the given nodes (default: expanded ones)."""
    out = []
    for i in (sd.expanded_ids() if ids is None else ids):
        for s in sd.node_attractor_seeds(i, compute=compute):
            out.append((i, state_or_none(net, s), s))
    return out


def check_global_seeds(sd, net: oracle.Net, triples, exactly_once=True, lost_kind="attractor_not_reported", dup_kind="attractor_reported_twice") -> list:
    """Every attractor of the network is represented by (exactly|at least) one seed."""
    out = []
    count = {a: 0 for a in net.attractors()}
    for i, s, d in triples:
        a = None if s is None else net.attractor_of(s)
        if a is not None:
            count[a] += 1
    for a, c in count.items():
        rep = net.state_dict(net.states(a)[0])
        if c == 0:
            out.append(fail(lost_kind, "every attractor of the network is represented by a seed", f"attractor of size {bin(a).count('1')}", observed=0, expected=rep))
        elif c > 1 and exactly_once:
            out.append(fail(dup_kind, "every attractor is represented by exactly one seed in the whole diagram", f"attractor containing {rep}", observed=c, expected=1))
    return out


# --------------------------------------------------------------------------------------------
# strategies with default settings (each is a one-step history)
# --------------------------------------------------------------------------------------------
STRATEGIES = {
    "build": ["build"],
    "block": ["block", True, None, True, False],
    "bfs": ["bfs", None, None, None],
    "dfs": ["dfs", None, None, None],
    "scc": ["scc", True],
    "aseeds": ["aseeds", None],
    "min": ["min", None, None, False],
}


def same_motifs_one_maa(bnet, valuations):
    """Shape filter of families.same_motif_cond_nets (brute force): under all the given controller valuations the rest of the network has the SAME
    stable motifs (maximal trap spaces), under at least one of them it has a motif-avoidant attractor and under at least one it has none."""
    net = oracle.Net.from_bnet(bnet)
    motifs, maa = set(), set()
    for val in valuations:
        sub = net.restrict(net.percolate(val))
        motifs.add(tuple(sorted(skey(m) for m in sub.max_traps_in({}))))
        maa.add(bool(sub.motif_avoidant()))
    return len(motifs) == 1 and maa == {True, False}


def hidden_children(bnet):
    """Shape filter of the C05 family `hidden_node_cases` (brute force on the full reference diagram): triples (n, m, X) of node spaces such that n and m
    are children of the root, X is a child of m, X lies strictly inside n and is NOT a child of n (it is reachable from n only through other nodes), and m
    does not lie inside n."""
    net = oracle.Net.from_bnet(bnet)
    rk, nodes, edges = net.full_sd()
    kids = {}
    for (p, c) in edges:
        kids.setdefault(p, set()).add(c)
    out = []
    roots = sorted(kids.get(rk, ()))
    for n in roots:
        for m in roots:
            if m == n or is_subspace(nodes[m], nodes[n]):
                continue
            for x in sorted(kids.get(m, ())):
                if x not in kids.get(n, ()) and nodes[x] != nodes[n] and is_subspace(nodes[x], nodes[n]):
                    out.append((nodes[n], nodes[m], nodes[x]))
    return out


def net_info(net: oracle.Net) -> dict:
    atts = net.attractors()
    return {"vars": net.n, "attractors": len(atts), "complex": sum(1 for a in atts if a & (a - 1)), "maa": len(net.motif_avoidant()),
            "min_traps": len(net.min_traps())}
