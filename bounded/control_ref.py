"""Reference semantics for succession control (C06, C07) on top of oracle.Net."""
from __future__ import annotations

import itertools

from oracle import intersect, is_subspace, skey


def resolve_target(net, spec):
    """Non-empty target (C06/C07 quantify over non-empty targets): an empty result is replaced by {first variable: 0}."""
    t = _resolve_target(net, spec)
    return t if t else {net.names[0]: 0}


def _resolve_target(net, spec):
    """Symbolic target description -> space.  ["space", {...}] | ["mintrap", k] | ["node", k] |
    ["mintrap_drop", k, j] (k-th minimal trap space with every j-th variable dropped: not a trap space in general)."""
    kind = spec[0]
    if kind == "space":
        return dict(spec[1])
    mins = sorted(net.min_traps(), key=skey)
    if kind == "mintrap":
        return dict(mins[spec[1] % len(mins)])
    if kind == "mintrap_drop":
        t = mins[spec[1] % len(mins)]
        keep = [v for i, v in enumerate(sorted(t)) if (i + spec[1]) % max(2, spec[2]) != 0]
        out = {v: t[v] for v in keep}
        return out or dict(t)
    if kind == "node":
        nodes = sorted(net.full_sd()[1])
        return dict(net.full_sd()[1][nodes[spec[1] % len(nodes)]])
    raise ValueError(spec)


def chain(net, succession):
    """prev_0 = {} (whole state space); prev_i = prev_{i-1} + Perc(m_i | prev_{i-1}) (biobalm's accumulation)."""
    prev = [{}]
    for m in succession:
        cur = dict(m)
        cur.update(prev[-1])
        nxt = dict(prev[-1])
        nxt.update(net.percolate(cur))
        prev.append(nxt)
    return prev


def ldoi_contains(net, driver, prev, motif) -> bool:
    d = dict(driver)
    d.update(prev)  # values already fixed by earlier steps take precedence (biobalm: driver_dict | assume_fixed)
    return is_subspace(net.percolate(d), motif)


def override_forces(net, driver, prev, motif):
    """In the network with `driver` overridden, does every attractor reachable from the states of
    `prev` have the motif's values?  Returns (ok, witness state of an offending attractor)."""
    nd = net.override(driver)
    start = nd.mask(prev)
    mm = nd.mask(motif)
    for a in nd.attractors_reachable_from(start):
        if a & ~mm:
            return False, nd.state_dict(nd.states(a & ~mm)[0])
    return True, None


def reference_drivers(net, motif, prev, strategy, max_size, forbidden):
    """All working assignments on the inclusion-minimal working variable sets of size <= bound inside the pool."""
    inner = {k: v for k, v in motif.items() if k not in prev}
    if strategy == "internal":
        pool = sorted(set(inner) - set(forbidden))
    else:
        pool = sorted(set(net.names) - set(forbidden))
    bound = len(inner) if max_size is None else max_size
    found_sets = []
    drivers = []
    for size in range(0, bound + 1):
        for vs in itertools.combinations(pool, size):
            if any(set(f) <= set(vs) for f in found_sets):
                continue
            works = []
            if strategy == "internal":
                d = {k: inner[k] for k in vs}
                if ldoi_contains(net, d, prev, motif):
                    works.append(d)
            else:
                for vals in itertools.product((0, 1), repeat=size):
                    d = dict(zip(vs, vals))
                    if ldoi_contains(net, d, prev, motif):
                        works.append(d)
            if works:
                found_sets.append(vs)
                drivers += works
    return drivers


def reference_successions(net, target):
    """Successions of the target-directed expansion on a fresh diagram (C07, first sentence).

    Returns (list of successions, partial) where a succession is a tuple of reduced motifs (skey form)
    and partial = (expanded keys, node keys, edges)."""
    rk, nodes, edges = net.full_sd()
    children = {}
    for (p, c), ms in edges.items():
        children.setdefault(p, {})[c] = ms
    expanded = set()
    present = {rk}
    level = [rk]
    seen = {rk}
    while level:
        nxt = []
        for k in level:
            sp = nodes[k]
            if intersect(sp, target) is None:
                continue
            if is_subspace(sp, target) and sp != target:
                continue
            expanded.add(k)
            for c in children.get(k, {}):
                present.add(c)
                if c not in seen:
                    seen.add(c)
                    nxt.append(c)
        level = nxt
    mins = net.min_traps()

    def valid(k):
        inside = [t for t in mins if is_subspace(t, nodes[k])]
        return all(is_subspace(t, target) for t in inside)

    preds = {k: [p for p in expanded if k in children.get(p, {})] for k in present}
    ok = {k: valid(k) for k in present}
    successions = []

    def paths_to(k):
        if k == rk:
            yield [rk]
            return
        for p in preds[k]:
            for path in paths_to(p):
                yield path + [k]

    for k in sorted(present):
        if not ok[k] or not any(not ok[p] for p in preds[k]):
            continue
        for path in paths_to(k):
            lists = []
            for x, y in zip(path[:-1], path[1:]):
                parent = nodes[x]
                lists.append([skey({a: b for a, b in m.items() if a not in parent}) for m in children[x][y]])
            for combo in itertools.product(*lists):
                successions.append(tuple(combo))
    if not successions and any(ok.values()):
        successions = [()]
    return successions, (expanded, present, ok)
