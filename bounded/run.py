#!/venv/bin/python
"""Runner of the bounded stand-in (see README.md).

    /venv/bin/python bounded/run.py C05 --seed 1 --budget 40 --jobs 16 --out f.json [--tier quick|thorough]
    /venv/bin/python bounded/run.py --replay bounded/replays/C05-<hash>.json

Exit status: 0 no failure, 1 at least one failure, 3 crash of the harness itself.
Environment: PYVC_REPO (default /repo) names the tree whose biobalm is imported; PYVC_REPLAY_DIR (default
bounded/replays) is where replay files of failing cases are written.
"""
from __future__ import annotations

import argparse
import hashlib
import importlib
import json
import multiprocessing as mp
import multiprocessing.connection as mpc
import os
import sys
import time
import traceback

HERE = os.path.dirname(os.path.abspath(__file__))
sys.path.insert(0, HERE)
import common  # noqa: E402

DEFAULT_CASE_TIMEOUT = 60.0
GRACE_AFTER_BUDGET = 10.0
MAX_STORED_PER_KIND = 25  # failures beyond this are counted in "failure_counts" but not stored / given a replay file


def case_hash(case) -> str:
    return hashlib.sha256(json.dumps(case, sort_keys=True, default=repr).encode()).hexdigest()[:16]


def case_limit(case, default: float) -> float:
    """Per-case wall-clock limit: a case may carry its own "wall_limit" (seconds), otherwise the module's CASE_TIMEOUT."""
    if isinstance(case, dict) and isinstance(case.get("wall_limit"), (int, float)):
        return float(case["wall_limit"])
    return default


def load_prop(prop: str):
    return importlib.import_module(f"props.{prop}")


def evaluate(mod, case) -> dict:
    """Run one case in the current process; classify exceptions."""
    try:
        if hasattr(mod, "check_with_info"):
            failures, info = mod.check_with_info(case)
        else:
            failures, info = mod.check(case), {}
        nontrivial = bool(mod.nontrivial(case, info)) if hasattr(mod, "nontrivial") else True
        return {"status": "ok", "failures": failures, "nontrivial": nontrivial, "info": common.jsonable(info)}
    except common.HarnessAbort as e:
        return {"status": "abort", "error": str(e)}
    except BaseException as e:  # noqa: BLE001
        tb = traceback.extract_tb(e.__traceback__)
        text = "".join(traceback.format_exception(type(e), e, e.__traceback__))[-3000:]
        if any(common.is_biobalm_file(fr.filename) for fr in tb):
            # raised by (or below) biobalm code: a property-relevant observation, not a harness bug
            where = [f"{os.path.basename(fr.filename)}:{fr.lineno}" for fr in tb if common.is_biobalm_file(fr.filename)][-1]
            f = common.fail("biobalm_exception", "the operation completes (no undocumented exception)", f"{type(e).__name__} at {where}: {e}"[:400])
            return {"status": "ok", "failures": [f], "nontrivial": True, "info": {"traceback": text}}
        return {"status": "harness_error", "error": text}


def worker_main(prop: str, conn):
    # clingo prints "domRec ignored: ..." on the C-level stderr: silence fd 2 of the worker
    try:
        devnull = os.open(os.devnull, os.O_WRONLY)
        os.dup2(devnull, 2)
    except OSError:
        pass
    try:
        common.import_biobalm()
        mod = load_prop(prop)
    except BaseException as e:  # noqa: BLE001
        conn.send({"status": "abort", "error": "".join(traceback.format_exception(type(e), e, e.__traceback__))[-3000:]})
        return
    conn.send({"status": "ready"})
    while True:
        try:
            case = conn.recv()
        except EOFError:
            return
        if case is None:
            return
        conn.send(evaluate(mod, case))


class Worker:
    def __init__(self, ctx, prop):
        self.parent, child = ctx.Pipe()
        self.proc = ctx.Process(target=worker_main, args=(prop, child), daemon=True)
        self.proc.start()
        child.close()
        self.case = None
        self.started = None
        self.ready = False

    def kill(self):
        try:
            self.proc.terminate()
            self.proc.join(1.0)
            if self.proc.is_alive():
                self.proc.kill()
                self.proc.join(1.0)
        except Exception:  # noqa: BLE001
            pass
        try:
            self.parent.close()
        except Exception:  # noqa: BLE001
            pass


def run_property(prop, seed, tier, budget, jobs, out_path):
    t0 = time.time()
    mod = load_prop(prop)
    timeout = float(getattr(mod, "CASE_TIMEOUT", DEFAULT_CASE_TIMEOUT))
    timeout_fails = bool(getattr(mod, "TIMEOUT_IS_FAILURE", False))
    ctx = mp.get_context("fork")
    gen = iter(mod.cases(seed, tier))
    seen = set()
    workers = [Worker(ctx, prop) for _ in range(max(1, jobs))]
    res = {"property": prop, "seed": seed, "tier": tier, "bound": mod.BOUND, "evaluations": 0, "distinct_nontrivial": 0,
           "rule": getattr(mod, "RULE", "every evaluated case counts as non-trivial"), "skipped_timeouts": 0, "abandoned_at_budget": 0,
           "failures": [], "failure_counts": {}, "samples": [], "harness_errors": [], "repo": common.REPO}
    exhausted = False
    abort = None

    def record_failure(case, f):
        if res["failure_counts"].get(f["kind"], 0) >= MAX_STORED_PER_KIND:
            res["failure_counts"][f["kind"]] += 1
            return
        h = case_hash(case)
        rdir = os.environ.get("PYVC_REPLAY_DIR")  # scratch runs (e.g. against a patched tree) keep their replay files out of bounded/replays
        rel = os.path.join(rdir, f"{prop}-{h}.json") if rdir else os.path.join("bounded", "replays", f"{prop}-{h}.json")
        path = rel if rdir else os.path.join(HERE, "replays", f"{prop}-{h}.json")
        os.makedirs(os.path.dirname(path), exist_ok=True)
        if not os.path.exists(path):
            with open(path, "w") as fh:
                json.dump({"property": prop, "case": case}, fh, indent=1, sort_keys=True)
        res["failure_counts"][f["kind"]] = res["failure_counts"].get(f["kind"], 0) + 1
        g = dict(f)
        g["case"] = case
        g["replay"] = rel
        res["failures"].append(g)

    def next_case():
        nonlocal exhausted
        while not exhausted:
            try:
                c = next(gen)
            except StopIteration:
                exhausted = True
                return None
            h = case_hash(c)
            if h in seen:
                continue
            seen.add(h)
            return c
        return None

    try:
        while True:
            now = time.time()
            over = (now - t0) >= budget
            busy = [w for w in workers if w.case is not None]
            if (over or exhausted) and not busy:
                break
            if over and (now - t0) >= budget + GRACE_AFTER_BUDGET:
                for w in busy:
                    res["abandoned_at_budget"] += 1
                    w.kill()
                    w.case = None
                break
            # hand out work
            if not over:
                for w in workers:
                    if w.ready and w.case is None and not exhausted:
                        c = next_case()
                        if c is None:
                            break
                        w.case, w.started = c, time.time()
                        w.parent.send(c)
            conns = [w.parent for w in workers if (w.case is not None or not w.ready)]
            if not conns:
                if exhausted:
                    break
                time.sleep(0.01)
                continue
            ready = mpc.wait(conns, timeout=0.1)
            for w in workers:
                if w.parent in ready:
                    try:
                        msg = w.parent.recv()
                    except (EOFError, OSError):
                        msg = {"status": "harness_error", "error": "worker died (exit code %s)" % w.proc.exitcode}
                        dead_case = w.case
                        w.kill()
                        idx = workers.index(w)
                        workers[idx] = Worker(ctx, prop)
                        if dead_case is not None:
                            res["harness_errors"].append({"case": dead_case, "error": msg["error"]})
                        continue
                    if msg["status"] == "ready":
                        w.ready = True
                        continue
                    if msg["status"] == "abort":
                        abort = msg["error"]
                        break
                    case, w.case = w.case, None
                    if msg["status"] == "harness_error":
                        res["harness_errors"].append({"case": case, "error": msg["error"]})
                        continue
                    res["evaluations"] += 1
                    if msg["nontrivial"]:
                        res["distinct_nontrivial"] += 1
                        if len(res["samples"]) < 5:
                            res["samples"].append(case)
                    for f in msg["failures"]:
                        record_failure(case, f)
            if abort:
                break
            # per-case wall-clock limit
            for k, w in enumerate(workers):
                limit = case_limit(w.case, timeout) if w.case is not None else timeout
                if w.case is not None and time.time() - w.started > limit:
                    case = w.case
                    w.kill()
                    workers[k] = Worker(ctx, prop)
                    if timeout_fails:
                        res["evaluations"] += 1
                        res["distinct_nontrivial"] += 1
                        record_failure(case, common.fail("timeout", "every public operation terminates within bounded work",
                                                         f"case did not finish within {limit} s"))
                    else:
                        res["skipped_timeouts"] += 1
    finally:
        for w in workers:
            w.kill()
    res["wall_s"] = round(time.time() - t0, 2)
    if abort:
        res["harness_errors"].append({"case": None, "error": abort})
    if out_path:
        with open(out_path, "w") as fh:
            json.dump(res, fh, indent=1, sort_keys=True, default=repr)
    kinds = res["failure_counts"]
    print(f"{prop} seed={seed} tier={tier}: evaluations={res['evaluations']} nontrivial={res['distinct_nontrivial']} "
          f"failures={sum(kinds.values())} {kinds if kinds else ''} skipped_timeouts={res['skipped_timeouts']} "
          f"abandoned={res['abandoned_at_budget']} harness_errors={len(res['harness_errors'])} wall={res['wall_s']}s")
    for f in res["failures"][:10]:
        print(f"  FAIL {f['kind']}: {f['clause']} | {f['detail'][:200]} | replay {f['replay']}")
    for h in res["harness_errors"][:3]:
        print("  HARNESS ERROR:", str(h["error"])[-1500:])
    if res["harness_errors"]:
        return 3
    return 1 if res["failures"] else 0


def _replay_child(prop, case, conn):
    try:
        common.import_biobalm()
        mod = load_prop(prop)
        conn.send(evaluate(mod, case))
    except BaseException as e:  # noqa: BLE001
        conn.send({"status": "harness_error", "error": "".join(traceback.format_exception(type(e), e, e.__traceback__))})


def replay(path):
    with open(path) as fh:
        data = json.load(fh)
    prop, case = data["property"], data["case"]
    mod = load_prop(prop)
    timeout = case_limit(case, float(getattr(mod, "CASE_TIMEOUT", DEFAULT_CASE_TIMEOUT))) * 2
    ctx = mp.get_context("fork")
    parent, child = ctx.Pipe()
    p = ctx.Process(target=_replay_child, args=(prop, case, child), daemon=True)
    p.start()
    child.close()
    print(f"replaying {prop} on {common.REPO}\ncase: {json.dumps(case, sort_keys=True)}")
    if parent.poll(timeout):
        msg = parent.recv()
    else:
        p.kill()
        if getattr(mod, "TIMEOUT_IS_FAILURE", False):
            print(f"FAIL timeout: case did not finish within {timeout} s")
            return 1
        print(f"case did not finish within {timeout} s (skipped, not a violation for {prop})")
        return 0
    p.join(5)
    if msg["status"] != "ok":
        print("HARNESS ERROR\n" + str(msg.get("error")))
        return 3
    print("info:", json.dumps(msg.get("info"), sort_keys=True, default=repr)[:2000])
    if not msg["failures"]:
        print("no failure observed")
        return 0
    for f in msg["failures"]:
        print(f"FAIL {f['kind']}: {f['clause']}\n  detail:   {f['detail']}\n  observed: {json.dumps(f['observed'], default=repr)[:1500]}\n"
              f"  expected: {json.dumps(f['expected'], default=repr)[:1500]}")
    return 1


def main(argv=None):
    ap = argparse.ArgumentParser()
    ap.add_argument("property", nargs="?")
    ap.add_argument("--seed", type=int, default=int(os.environ.get("VERIF_SEED", "1")))
    ap.add_argument("--budget", type=float, default=40.0)
    ap.add_argument("--jobs", type=int, default=8)
    ap.add_argument("--out")
    ap.add_argument("--tier", choices=["quick", "thorough"], default="quick")
    ap.add_argument("--replay")
    a = ap.parse_args(argv)
    try:
        common.import_biobalm()
    except BaseException as e:  # noqa: BLE001
        print(f"HARNESS ERROR: cannot import biobalm from PYVC_REPO={common.REPO}: {e}")
        return 3
    try:
        if a.replay:
            return replay(a.replay)
        if not a.property:
            ap.error("property id or --replay required")
        return run_property(a.property, a.seed, a.tier, a.budget, a.jobs, a.out)
    except SystemExit:
        raise
    except BaseException:  # noqa: BLE001
        traceback.print_exc()
        return 3


if __name__ == "__main__":
    sys.exit(main())
