"""C14 - cached attractor data is never stale."""
import random

import families
import oracle
from common import check_cache, fail, make_sd, net_info, run_step, states_json

BOUND = ("networks with <= 6(7) variables (exhaustive 1-variable, sampled 2-variable, seeded random) and hand-built networks with <= 9 variables; seeded histories of "
         "<= 6 (quick) / <= 10 (thorough) calls interleaving candidate/seed/set queries on arbitrary (mostly unexpanded) nodes with every way of giving a node "
         "successors (single-node expansion, bfs, dfs, minimal-space with/without skip_ignored, attractor-seed, target, block with/without source shortcuts, "
         "scc and build at any position, skip_to_minimal, skip_remaining) and with reclaim_node_data / pickle round trips; after EVERY call the cached candidates, seeds and "
         "sets of EVERY node are compared with the brute-force attractors owned by the node under its current successors; every second seeded case runs under a "
         "NON-default configuration (small motif / candidate limits, thresholds, budgets) and the shape family (k independent switches, deep diagrams, block-structured "
         "motif-avoidant networks) combines such configurations with pickle round trips and reclaim_node_data between queries and expansions; the scc-attach shape: networks "
         "with several source SCCs (2-4 independent bistable / oscillating modules with optional downstream module, <= 8 variables), a candidates / seeds / sets query on the stub root "
         "or on a stub child of the root (1-3 of them), optional pickle / reclaim, then expand_scc with and without the motif-avoidance check")
RULE = "non-trivial = at some moment a node that had cached attractor data while unexpanded was given successors"
CASE_TIMEOUT = 60.0

OPS = families.PLAIN_OPS + families.QUERY_OPS * 3 + families.SKIP_OPS * 2 + families.HOUSE_OPS + ["block", "scc", "build"]
D4_SHAPES = [
    [["seeds", 0, False], ["skip_remaining"]],
    [["seeds", 0, False], ["skip", 0]],
    [["sets", 0], ["skip", 0]],
    [["succ", 0], ["seeds", 1, False], ["cands", 2, True, True], ["seeds", 2, False], ["min", None, None, True]],
    [["cands", 0, True, True], ["skip_remaining"]],
    [["seeds", 0, False], ["block", True, None, True, False]],
    [["seeds", 0, False], ["scc", True]],
    [["seeds", 0, False], ["scc", False]],
    [["cands", 0, True, True], ["scc", False]],
    [["sets", 0], ["succ", 0]],
    [["bfs", None, 0, None], ["seeds", 1, False], ["seeds", 2, False], ["skip_remaining"]],
]


ROUND_TRIPS = [
    [["seeds", 0, False], ["pickle"], ["succ", 0], ["seeds", 0, False]],
    [["cands", 0, True, True], ["reclaim"], ["pickle"], ["bfs", None, 1, None], ["seeds", 0, False], ["seeds", 1, False]],
    [["succ", 0], ["seeds", 1, False], ["reclaim"], ["cands", 1, True, True], ["pickle"], ["succ", 1], ["cands", 1, False, False]],
    [["bfs", None, 1, None], ["sets", 2], ["pickle"], ["reclaim"], ["skip_remaining"], ["seeds", 2, False]],
    [["seeds", 0, False], ["reclaim"], ["block", True, None, True, False], ["pickle"], ["seeds", 0, False]],
    [["cands", 0, False, True], ["pickle"], ["scc", True], ["reclaim"], ["sets", 0]],
    [["succ", 0], ["cands", 1, True, False], ["cands", 2, True, True], ["pickle"], ["min", None, None, True], ["reclaim"], ["seeds", 1, False]],
]


def shape_cases(seed, tier):
    nets = list(families.MANY_MOTIFS.items()) + list(families.deep_nets(seed, tier)) + list(families.block_nets(seed, tier))
    for k, (name, bnet) in enumerate(nets):
        names = families.variables(bnet)
        rng = random.Random(f"{seed}-{name}-c14-cfg")
        fixed = k < len(families.MANY_MOTIFS) + len(families.DEEP)
        for h in (ROUND_TRIPS if fixed else [ROUND_TRIPS[k % len(ROUND_TRIPS)]]):
            yield {"net": name, "bnet": bnet, "config": families.config_variant(rng), "history": h}
        hist = families.random_history(rng.randrange(1 << 30), names, rng.randint(3, 6), OPS + families.HOUSE_OPS * 3)
        yield {"net": name, "bnet": bnet, "config": families.config_variant(rng), "history": hist}


SCC_ATTACH_FIRST = families.norm("A, B; B, A; C, D; D, C; G, H; H, G; E, !F | A; F, E & !C")  # the instance that revealed the shape


def scc_attach_cases(seed, tier):
    """shape added after the seeded-change review: networks with SEVERAL source SCCs (independent bistable / oscillating modules, optionally with a
    downstream module); an attractor query (candidates / seeds / sets) on a stub - the root or a child of the root - then (optionally a pickle round
    trip / reclaim and) expand_scc with and without the motif-avoidance check, which attaches one sub-diagram per source SCC below that stub: the
    attach points (the stub itself and, for the second, third ... SCC, the leaves of the sub-diagram attached before) must not keep their data."""
    nets = [("scc_attach_first", SCC_ATTACH_FIRST), ("two_switches", families.switches(2)), ("three_switches", families.switches(3))]
    nets += list(families.LIMIT_NETS.items()) + [(k, v) for k, v in families.DEEP.items() if k not in ("deep", "D5", "source_chain")]
    more = [x for pair in zip(families.limit_nets(seed, tier), families.tie_nets(seed, tier), families.deep_nets(seed, tier)) for x in pair]
    more += list(families.limit_nets(seed, tier))[20:]
    queries = [["sets", 0], ["seeds", 0, False], ["cands", 0, True, True], ["cands", 0, False, False]]
    done = set()
    k = 0
    for name, bnet in nets + more:
        names = families.variables(bnet)
        if bnet in done or len(names) > 8:
            continue
        done.add(bnet)
        k += 1
        rng = random.Random(f"{seed}-{name}-c14-scc")
        hists = []
        for q in queries:
            for maa in (False, True):
                for mid in ([], [["pickle"]], [["reclaim"]]):
                    hists.append([q] + mid + [["scc", maa]])                                                              # stub root
                    for child in (1, 2, 3, 4):
                        hists.append([["succ", 0], [q[0], child] + q[2:]] + mid + [["scc", maa]])                        # stub child of the root
                    hists.append([["succ", 0], [q[0], 1] + q[2:], [q[0], 3] + q[2:], [q[0], 0] + q[2:]] + mid + [["scc", maa]])
        first = [[["sets", 0], ["scc", False]], [["succ", 0], ["sets", 1], ["pickle"], ["scc", False]]]
        # candidates are an over-approximation (a stale list is not wrong by itself) and the motif-avoidance check overwrites seeds / sets of attach points:
        # two thirds of the histories query seeds / sets and switch the check off
        strong = [h for h in hists if h[-1] == ["scc", False] and not any(st[0] == "cands" for st in h)]
        n = 6 if k <= 12 else 3
        chosen = (first + hists[:60:7]) if k == 1 else rng.sample(strong, n - n // 3) + rng.sample(hists, n // 3)
        for h in chosen:
            if rng.random() < 0.3:
                h = h + [rng.choice([["seeds", 0, False], ["sets", 1], ["aseeds", None], ["bfs", None, None, None]])]
            yield {"net": name, "bnet": bnet, "config": {}, "history": h}


def cases(seed, tier):
    yield from families.interleave((scc_attach_cases(seed, tier), 1), (shape_cases(seed, tier), 1), (general_cases(seed, tier), 4))


def general_cases(seed, tier):
    maxlen = 6 if tier == "quick" else 10
    first = True
    for name, bnet in families.network_family(seed, tier, hand_max_vars=9):
        names = families.variables(bnet)
        if first or name in ("D4", "D9", "maa_latch", "source_and", "multipath", "doc_abc"):
            for h in D4_SHAPES:
                yield {"net": name, "bnet": bnet, "history": h}
            first = False
        for rnd in range(4 if tier == "quick" else 10):
            rng = random.Random(f"{seed}-{rnd}-{name}-c14")
            hist = []
            if rng.random() < 0.2:
                hist.append(rng.choice([["scc", True], ["scc", False], ["block", True, None, True, False], ["build"]]))
            hist += families.random_history(rng.randrange(1 << 30), names, rng.randint(2, maxlen), OPS)
            yield {"net": name, "bnet": bnet, "config": families.config_variant(rng) if rnd % 2 else {}, "history": hist}


def check_with_info(case):
    net = oracle.Net.from_bnet(case["bnet"])
    info = net_info(net)
    info["invalidations"] = 0
    sd = make_sd(case["bnet"], case.get("config"))
    out = []
    for k, step in enumerate(case["history"]):
        had = {i for i in sd.node_ids() if not sd.node_data(i)["expanded"] and any(sd.node_data(i)[f] is not None for f in
                                                                                  ("attractor_candidates", "attractor_seeds", "attractor_sets"))}
        sd, r = run_step(sd, step)
        info["invalidations"] += sum(1 for i in had if sd.node_data(i)["expanded"] and sd.dag.out_degree(i) > 0)
        for i in sd.node_ids():
            for f in check_cache(sd, net, i, prefix="stale_"):
                f["detail"] = f"after step {k} {step}: " + f["detail"]
                out.append(f)
            d = sd.node_data(i)
            # what the accessors report without recomputation is the cache
            try:
                got = sd.node_attractor_seeds(i, compute=False)
                if got != d["attractor_seeds"]:
                    out.append(fail("accessor_differs_from_cache", "node_attractor_seeds(compute=False) reports the cached seeds", f"node {i}"))
            except KeyError:
                if d["attractor_seeds"] is not None:
                    out.append(fail("accessor_keyerror_with_cache", "compute=False raises KeyError only when nothing is cached", f"node {i}"))
            try:
                got = sd.node_attractor_candidates(i, compute=False)
                exp = d["attractor_candidates"] if d["attractor_candidates"] is not None else d["attractor_seeds"]
                if got != exp:
                    out.append(fail("accessor_differs_from_cache", "node_attractor_candidates(compute=False) reports the cached candidates (or seeds)", f"node {i}",
                                    observed=states_json(got)))
            except KeyError:
                if d["attractor_candidates"] is not None or d["attractor_seeds"] is not None:
                    out.append(fail("accessor_keyerror_with_cache", "compute=False raises KeyError only when nothing is cached", f"node {i}"))
        if out:
            break
    return out, info


def check(case):
    return check_with_info(case)[0]


def nontrivial(case, info):
    return info.get("invalidations", 0) >= 1
