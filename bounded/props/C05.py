"""C05 - diagrams completed with skip nodes never lose an attractor."""
import random

import families
import oracle
from common import fail, make_sd, net_info, run_step, state_or_none
from oracle import intersect, is_subspace

BOUND = ("hand-built motif-avoidant networks (MAA core alone and composed with 1-3 latches, switches, toggles, sources, a second core; <= 9 variables) and "
         "block-structured ones with <= 7 variables (motif-avoidant module regulating a bistable module; module conditioned by a source or by a bistable controller) "
         "first, then hand-built and seeded random networks with <= 6 variables; history = seeded prefix of <= 3 limited plain expansion calls "
         "interleaved with attractor queries on stubs, then skip_remaining / skip_to_minimal on every stub / minimal-space expansion with skip_ignored "
         "(followed by skip_remaining if stubs remain), then node_attractor_seeds(compute=True) for all node ids in ascending, descending or a seeded "
         "random order; the D12 history is the first case.  Classification of a lost attractor: the cache state of all nodes is recorded before every attractor "
         "query the checker issues; kind lost_maa_under_skip_exclusion (finding D12) only if every node owning the attractor is a skip node for which the exclusion "
         "rule as written in the unchanged tree (non-ancestor node with cached candidates == [] or seeds == []), evaluated by the checker's own implementation on the "
         "state recorded before that node was searched, removes a region containing the attractor; otherwise lost_attractor; plus the hidden-node shape: MAA core / XNOR pair "
         "next to a controller x two-step module or a latch-DAG network with 3-5 variables (<= 8 variables in total) whose reference diagram has children n, m of the root and a "
         "child X of m strictly inside n that is not a child of n (brute-force filter); root, n and m expanded one by one in either order, then skip_remaining / skip_to_minimal "
         "on every stub, seeds in ascending / descending / seeded order, minimum_simulation_budget in {1,10,50,default}")
RULE = "non-trivial = at least one skip node was created and the network has >= 2 attractors or a motif-avoidant attractor"
CASE_TIMEOUT = 60.0

D12_HISTORY = [["bfs", None, 0, None], ["succ", 2]]


# the instance that revealed the hidden-node shape, "P, Q; Q, P; R, R & U | T; U, R; T, R & (T | P)" + MAA core, is the first member of families.two_step_nets


def hidden_node_cases(seed, tier):
    """shape added after the seeded-change review: a motif-avoidant gadget next to a multi-path network in which a node X is a child of the root's child m and
    lies inside another child n of the root without being a child of n (brute-force filter common.hidden_children on the network without the gadget); history:
    root, then n and m expanded one by one (either order, sometimes one more node), then skip_remaining / skip_to_minimal on every stub - inside n, X is now
    hidden behind a SKIP node: space inclusion without a path in the diagram - then seeds in ascending / descending / seeded order.  First the revealing
    instance, then controller x two-step module x polarity x gadget (MAA core / XNOR pair), then latch-DAG networks with 3-5 variables."""
    from common import hidden_children

    gadgets = [("core", families.MAA_CORE), ("xnor", families.rename(families.XNOR2, {"P": "G", "Q": "H"}))]
    k = 0
    for name, small in families.two_step_nets(seed, tier):
        triples = hidden_children(small)
        if not triples:
            continue
        rng = random.Random(f"{seed}-{name}-c05-hidden")
        for j, (gname, gadget) in enumerate(gadgets if k < 12 else [gadgets[k % 2]]):
            bnet = families.norm(small + "\n" + gadget)
            n, m, x = triples[0] if (k == 0 or len(triples) == 1) else rng.choice(triples)
            first = k == 0 and j == 0
            pre = [["bfs", None, 0, None], ["succ_space", n], ["succ_space", m]]
            if not first and rng.random() < 0.4:
                pre[1], pre[2] = pre[2], pre[1]
            if not first and rng.random() < 0.25:
                pre.append(["succ", rng.randint(1, 9)])
            # (cost) every node in which the gadget is free holds the motif-avoidant attractor, which the random-walk elimination cannot remove: most cases give it a small budget
            cfg = {} if first or rng.random() < 0.2 else {"minimum_simulation_budget": rng.choice([1, 10, 50])}
            yield {"net": f"{name}+{gname}", "bnet": bnet, "config": cfg, "prefix": pre, "skip": ["skip_remaining"] if first or rng.random() < 0.7 else ["skip_all"],
                   "order": "asc" if first or rng.random() < 0.6 else rng.choice(["desc", "perm"]), "perm_seed": rng.randrange(1000)}
        k += 1


def cases(seed, tier):
    yield from families.interleave((hidden_node_cases(seed, tier), 1), (general_cases(seed, tier), 40))


def general_cases(seed, tier):
    yield {"net": "D12", "bnet": families.HAND["D12"], "prefix": D12_HISTORY, "skip": ["skip_remaining"], "order": "asc"}
    ops = families.PLAIN_OPS + ["seeds", "cands", "skip"]
    # block-structured motif-avoidant networks (module conditioned by a source / a bistable controller, module regulating a bistable module): every way of skipping on a
    # fresh diagram and after the root was expanded, ids ascending
    blocks = [(n, b) for n, b in families.block_nets(seed, tier) if len(families.variables(b)) <= 7]
    for name, bnet in blocks[:60] if tier == "quick" else blocks:
        for pre in ([], [["succ", 0]]):
            for skip in (["min", None, None, True], ["skip_remaining"], ["skip_all"]):
                yield {"net": name, "bnet": bnet, "prefix": pre, "skip": skip, "order": "asc", "perm_seed": 0}
    nets = list(families.maa_nets()) + [("xnor_2switch", families.union(families.XNOR2, families.switch(1), families.switch(2))),
                                        ("xnor_switch_toggle", families.union(families.XNOR2, families.switch(), families.toggle()))] + blocks[:40]
    rounds = 6 if tier == "quick" else 30
    for rnd in range(rounds):
        for name, bnet in nets:
            yield make_case(seed, rnd, name, bnet, ops)
    for name, bnet in families.network_family(seed, tier, hand_max_vars=9):
        for rnd in range(2 if tier == "quick" else 4):
            yield make_case(seed, rnd, name, bnet, ops)


def make_case(seed, rnd, name, bnet, ops):
    rng = random.Random(f"{seed}-{rnd}-{name}-c05")
    names = families.variables(bnet)
    pre = families.random_history(rng.randrange(1 << 30), names, rng.randint(0, 3), ops)
    if rng.random() < 0.5:  # D12 shape: expand the root, then one or two children, nothing else
        pre = [["bfs", None, 0, None]] + [["succ", rng.randint(1, 8)] for _ in range(rng.randint(0, 2))]
        if rng.random() < 0.3:
            pre.append(["seeds", rng.randint(0, 8), False])
    skip = rng.choice([["skip_remaining"], ["skip_all"], ["min", None, None, True], ["skip_remaining"]])
    return {"net": name, "bnet": bnet, "prefix": pre, "skip": skip, "order": rng.choice(["asc", "desc", "perm"]), "perm_seed": rng.randrange(1000)}


def cache_snapshot(sd):
    """What the skip-node exclusion rule reads: for every node its space and whether its cached candidates / seeds are the EMPTY LIST (None = unknown)."""
    snap = {}
    for n in sd.node_ids():
        d = sd.node_data(n)
        snap[n] = (dict(d["space"]), d["attractor_candidates"] is not None and list(d["attractor_candidates"]) == [],
                   d["attractor_seeds"] is not None and list(d["attractor_seeds"]) == [])
    return snap


def rule_exclusions(node_space, snap):
    """Independent re-implementation of the exclusion rule AS WRITTEN in the unchanged tree (attractor_candidates.compute_attractor_candidates, block
    `if node_data["skipped"]:`, and the same rule in attractor_symbolic.symbolic_attractor_fallback): for a skip node with space S, every node n whose space is
    NOT a superspace-or-equal of S and whose cached candidates == [] or cached seeds == [] contributes the region S & space(n) (if non-empty) that is
    removed from the search.  Returns [(n, common subspace)]."""
    out = []
    for n, (n_space, cand_empty, seeds_empty) in snap.items():
        if is_subspace(node_space, n_space):
            continue  # n is an ancestor-or-equal of the node in the full diagram
        if cand_empty or seeds_empty:
            common = intersect(node_space, n_space)
            if common is not None:
                out.append((n, common))
    return out


class Observer:
    """Records, before every attractor query the checker issues, the cache state of all nodes, and remembers for every node the state under which its
    currently cached result was computed (the state the exclusion rule saw)."""

    def __init__(self):
        self.rule_state = {}  # node id -> snapshot taken just before the query that computed its cached candidates (or its seeds via the symbolic fallback)
        self.queries = 0

    def before(self, sd):
        for i in list(self.rule_state):
            d = sd.node_data(i) if i < len(sd) else None
            if d is None or (d["attractor_candidates"] is None and d["attractor_seeds"] is None):
                del self.rule_state[i]  # the cache was discarded (the node was expanded / skipped meanwhile)
        return cache_snapshot(sd), {i: (sd.node_data(i)["attractor_candidates"] is None, sd.node_data(i)["attractor_seeds"] is None) for i in sd.node_ids()}

    def after(self, sd, before):
        snap, unknown = before
        self.queries += 1
        for i, (cand_none, seeds_none) in unknown.items():
            if i >= len(sd):
                continue
            d = sd.node_data(i)
            if (cand_none and d["attractor_candidates"] is not None) or (cand_none and seeds_none and d["attractor_seeds"] is not None):
                self.rule_state[i] = snap


def run_observed(sd, step, obs):
    """run_step, with the cache state recorded around attractor queries (the only steps of C05 histories that compute attractor data of the diagram's own nodes)."""
    if step[0] in ("seeds", "cands", "sets"):
        b = obs.before(sd)
        sd, r = run_step(sd, step)
        obs.after(sd, b)
        return sd, r
    return run_step(sd, step)


def explain_loss(sd, net, obs, a):
    """Is the loss of attractor `a` (reported by no node) FULLY explained by exclusions that the rule-as-written performs on the observed cache states?
    Returns (explained, text).  Explained = every node that owns `a` (contains it, none of its successors does) is a skip node whose candidates were computed
    under an observed cache state for which the rule-as-written removes a region containing `a` from the search."""
    owners = []
    for i in sd.node_ids():
        sp = sd.node_data(i)["space"]
        if a & ~net.mask(sp):
            continue
        if any(a & ~net.mask(sd.node_data(c)["space"]) == 0 for c in sd.dag.successors(i)):
            continue
        owners.append(i)
    if not owners:
        return False, "no node owns the attractor (it is inside a successor of every node that contains it)"
    notes = []
    explained = True
    for i in owners:
        d = sd.node_data(i)
        if not d["skipped"]:
            explained = False
            notes.append(f"node {i} {dict(sorted(d['space'].items()))} is an ordinary node that owns it")
            continue
        snap = obs.rule_state.get(i)
        if snap is None:
            explained = False
            notes.append(f"skip node {i}: its cached result was not computed by a query the checker observed")
            continue
        hits = [(n, common) for n, common in rule_exclusions(d["space"], snap) if a & ~net.mask(common) == 0]
        if hits:
            n, common = hits[0]
            notes.append(f"skip node {i}: the rule as written excludes {dict(sorted(common.items()))} = node {i} & node {n} (node {n} had "
                         f"{'candidates == []' if snap[n][1] else 'seeds == []'} when node {i} was searched)")
        else:
            explained = False
            unknown = [n for n, (n_space, ce, se) in snap.items() if not (ce or se) and not is_subspace(d["space"], n_space) and intersect(d["space"], n_space) is not None
                       and a & ~net.mask(intersect(d["space"], n_space)) == 0]
            outside = [c for c in sd.dag.successors(i) if not is_subspace(sd.node_data(c)["space"], d["space"])]
            notes.append(f"skip node {i} {dict(sorted(d['space'].items()))} owns it and the rule as written (evaluated on the cache state observed before node {i} was "
                         f"searched) excludes no region containing it; nodes overlapping it there whose caches were NOT empty lists: {unknown}; "
                         f"successors of the skip node outside its space: {outside}")
    return explained, "; ".join(notes)


def check_with_info(case):
    net = oracle.Net.from_bnet(case["bnet"])
    info = net_info(net)
    sd = make_sd(case["bnet"], case.get("config"))
    obs = Observer()
    for step in case["prefix"]:
        sd, _ = run_observed(sd, step, obs)
    sd, r = run_step(sd, case["skip"])
    if list(sd.stub_ids()):
        sd, _ = run_step(sd, ["skip_remaining"])
    skip_nodes = [i for i in sd.node_ids() if sd.node_data(i)["skipped"]]
    info["skip_nodes"] = len(skip_nodes)
    info["nodes"] = len(sd)
    out = []
    if list(sd.stub_ids()):
        out.append(fail("stub_after_skipping", "the remaining nodes are skipped", observed=list(sd.stub_ids())))
    for i in skip_nodes:
        sp = sd.node_data(i)["space"]
        bad = [c for c in sd.dag.successors(i) if not is_subspace(sd.node_data(c)["space"], sp)]
        if bad:
            out.append(fail("skip_edge_to_trap_outside_node", "the remaining nodes are skipped to THEIR minimal trap spaces (every successor of a skip node lies inside it)",
                            f"skip node {i} {dict(sorted(sp.items()))}", observed=[sd.node_data(c)["space"] for c in bad]))
    ids = list(sd.node_ids())
    if case["order"] == "desc":
        ids.reverse()
    elif case["order"] == "perm":
        random.Random(case.get("perm_seed", 0)).shuffle(ids)
    count = {a: 0 for a in net.attractors()}
    for i in ids:
        b = obs.before(sd)
        seeds = sd.node_attractor_seeds(i, compute=True)
        obs.after(sd, b)
        m = net.mask(sd.node_data(i)["space"])
        for s in seeds:
            st = state_or_none(net, s)
            a = None if st is None else net.attractor_of(st)
            if a is None:
                out.append(fail("seed_not_in_attractor", "every reported seed lies in an attractor", f"node {i}", observed=s))
            elif a & ~m:
                out.append(fail("seed_attractor_outside_node", "the seed's attractor is inside its node's trap space", f"node {i}", observed=s))
            else:
                count[a] += 1
    maas = net.motif_avoidant()
    info["queries_observed"] = obs.queries
    for a, c in count.items():
        rep = net.state_dict(net.states(a)[0])
        if c == 0:
            explained, why = explain_loss(sd, net, obs, a)
            # known finding D12 = lost SOLELY because of exclusions the rule-as-written performs; anything else is a new violation
            kind = "lost_maa_under_skip_exclusion" if explained else "lost_attractor"
            out.append(fail(kind, "attractor detection over all nodes reports every attractor of the network at least once",
                            f"attractor of size {bin(a).count('1')} containing {rep}; motif-avoidant={a in maas}; {why}", observed=0, expected=">= 1"))
        elif c > 1 and not maas:
            out.append(fail("duplicate_without_maa", "if the network has no motif-avoidant attractor, every attractor is reported exactly once",
                            f"attractor containing {rep}", observed=c, expected=1))
    return out, info


def check(case):
    return check_with_info(case)[0]


def nontrivial(case, info):
    return info["skip_nodes"] >= 1 and (info["attractors"] >= 2 or info["maa"] >= 1)
