"""C05 - diagrams completed with skip nodes never lose an attractor."""
import random

import families
import oracle
from common import fail, make_sd, net_info, run_history, run_step, state_or_none, states_json

BOUND = ("hand-built motif-avoidant networks (MAA core alone and composed with 1-3 latches, switches, toggles, sources, a second core; <= 9 variables) "
         "first, then hand-built and seeded random networks with <= 6 variables; history = seeded prefix of <= 3 limited plain expansion calls "
         "interleaved with attractor queries on stubs, then skip_remaining / skip_to_minimal on every stub / minimal-space expansion with skip_ignored "
         "(followed by skip_remaining if stubs remain), then node_attractor_seeds(compute=True) for all node ids in ascending, descending or a seeded "
         "random order; the D12 history is the first case")
RULE = "non-trivial = at least one skip node was created and the network has >= 2 attractors or a motif-avoidant attractor"
CASE_TIMEOUT = 60.0

D12_HISTORY = [["bfs", None, 0, None], ["succ", 2]]


def cases(seed, tier):
    yield {"net": "D12", "bnet": families.HAND["D12"], "prefix": D12_HISTORY, "skip": ["skip_remaining"], "order": "asc"}
    ops = families.PLAIN_OPS + ["seeds", "cands", "skip"]
    nets = list(families.maa_nets())
    rounds = 6 if tier == "quick" else 30
    for rnd in range(rounds):
        for name, bnet in nets:
            yield make_case(seed, rnd, name, bnet, ops)
    for name, bnet in families.network_family(seed, tier, hand_max_vars=9):
        for rnd in range(2 if tier == "quick" else 4):
            yield make_case(seed, rnd, name, bnet, ops)


def make_case(seed, rnd, name, bnet, ops):
    rng = random.Random(f"{seed}-{rnd}-{name}-c05")
    names = families.variables(bnet)
    pre = families.random_history(rng.randrange(1 << 30), names, rng.randint(0, 3), ops)
    if rng.random() < 0.5:  # D12 shape: expand the root, then one or two children, nothing else
        pre = [["bfs", None, 0, None]] + [["succ", rng.randint(1, 8)] for _ in range(rng.randint(0, 2))]
        if rng.random() < 0.3:
            pre.append(["seeds", rng.randint(0, 8), False])
    skip = rng.choice([["skip_remaining"], ["skip_all"], ["min", None, None, True], ["skip_remaining"]])
    return {"net": name, "bnet": bnet, "prefix": pre, "skip": skip, "order": rng.choice(["asc", "desc", "perm"]), "perm_seed": rng.randrange(1000)}


def check_with_info(case):
    net = oracle.Net.from_bnet(case["bnet"])
    info = net_info(net)
    sd = make_sd(case["bnet"])
    sd, _ = run_history(sd, case["prefix"])
    sd, r = run_step(sd, case["skip"])
    if list(sd.stub_ids()):
        sd, _ = run_step(sd, ["skip_remaining"])
    skip_nodes = [i for i in sd.node_ids() if sd.node_data(i)["skipped"]]
    info["skip_nodes"] = len(skip_nodes)
    info["nodes"] = len(sd)
    out = []
    if list(sd.stub_ids()):
        out.append(fail("stub_after_skipping", "the remaining nodes are skipped", observed=list(sd.stub_ids())))
    ids = list(sd.node_ids())
    if case["order"] == "desc":
        ids.reverse()
    elif case["order"] == "perm":
        random.Random(case.get("perm_seed", 0)).shuffle(ids)
    count = {a: 0 for a in net.attractors()}
    for i in ids:
        seeds = sd.node_attractor_seeds(i, compute=True)
        m = net.mask(sd.node_data(i)["space"])
        for s in seeds:
            st = state_or_none(net, s)
            a = None if st is None else net.attractor_of(st)
            if a is None:
                out.append(fail("seed_not_in_attractor", "every reported seed lies in an attractor", f"node {i}", observed=s))
            elif a & ~m:
                out.append(fail("seed_attractor_outside_node", "the seed's attractor is inside its node's trap space", f"node {i}", observed=s))
            else:
                count[a] += 1
    maas = net.motif_avoidant()
    skip_masks = [net.mask(sd.node_data(i)["space"]) for i in skip_nodes]
    for a, c in count.items():
        rep = net.state_dict(net.states(a)[0])
        if c == 0:
            in_skip = any(a & ~m == 0 for m in skip_masks)
            kind = "lost_maa_under_skip_exclusion" if (a in maas and in_skip) else "lost_attractor"
            out.append(fail(kind, "attractor detection over all nodes reports every attractor of the network at least once",
                            f"attractor of size {bin(a).count('1')} containing {rep}; motif-avoidant={a in maas}; inside a skip node={in_skip}",
                            observed=0, expected=">= 1"))
        elif c > 1 and not maas:
            out.append(fail("duplicate_without_maa", "if the network has no motif-avoidant attractor, every attractor is reported exactly once",
                            f"attractor containing {rep}", observed=c, expected=1))
    return out, info


def check(case):
    return check_with_info(case)[0]


def nontrivial(case, info):
    return info["skip_nodes"] >= 1 and (info["attractors"] >= 2 or info["maa"] >= 1)
