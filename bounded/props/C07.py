"""C07 - control output is complete, minimal and honours the user's constraints (fresh diagram,
skip_feedforward_successions=False; completeness under that flag is excluded, DESIGN.md 7/C07)."""
import random

import control_ref as cr
import families
import oracle
from common import fail, make_sd, net_info
from oracle import skey

BOUND = ("networks with <= 6 variables (exhaustive 1-variable, sampled 2-variable, seeded random 3-6(7) variables) and hand-built networks with <= 7 "
         "variables; fresh diagram; targets: minimal trap spaces (whole / with variables dropped), nodes of the full diagram, seeded random subspaces; "
         "both strategies; max_drivers_per_succession_node in {None,0,1,2,3}; seeded forbidden sets of 0-2 variables; successful_only on/off; "
         "successions compared as multisets with the paths of the reference target-directed expansion, drivers with brute-force enumeration of all "
         "variable subsets of the pool")
BOUND += ("; the shared-child shape: a node that is a child of the root and of a sibling (96 hand-built 6-variable cases: six rotations of the names x four gates x four targets)")
RULE = "non-trivial = the reference has at least one succession with at least one step"
CASE_TIMEOUT = 60.0


def shared_child_cases(seed, tier):
    """shape added after the round-5 seeded-change review (C07-m5): a node that is a child of the root AND of one of its siblings (the percolation of one stable
    motif lies inside another motif), created before that sibling or after it depending on the names, and that reaches the region outside the target only through its
    own children; a third module reading one of the two decides the target. Names are rotated so that the order in which clingo lists the motifs (hence the node
    ids) varies."""
    base = "{a}, {b}; {b}, {a}; {c}, {a} | {d}; {d}, {c}; {e}, {f} | {g}; {f}, {e} | {g}"
    letters = ["A", "B", "C", "D", "E", "F"]
    k = 0
    for rot in (0, 2, 4, 1, 3, 5):
        nm = dict(zip("abcdef", letters[rot:] + letters[:rot]))
        for gate in ("!{a}", "{a}", "!{c}", "{c}"):
            bnet = families.norm(base.replace("{g}", gate).format(**nm))
            for target in ({nm["e"]: 1, nm["f"]: 1}, {nm["e"]: 0, nm["f"]: 0}, {nm["c"]: 1, nm["e"]: 1}, None):
                rng = random.Random(f"{seed}-{k}-c07-shared")
                k += 1
                yield {"net": f"shared_child_r{rot}_{gate}", "bnet": bnet, "target": ["space", target] if target else ["mintrap", rng.randrange(6)],
                       "strategy": rng.choice(["internal", "all"]), "max_drivers": rng.choice([None, None, 2]), "forbidden": []}


def cases(seed, tier):
    yield from families.interleave((shared_child_cases(seed, tier), 1), (general_cases(seed, tier), 3))


def general_cases(seed, tier):
    for name, bnet in families.network_family(seed, tier, hand_max_vars=7):
        names = families.variables(bnet)
        for rnd in range(4 if tier == "quick" else 10):
            rng = random.Random(f"{seed}-{rnd}-{name}-c07")
            t = rng.random()
            if t < 0.4:
                target = ["mintrap", rng.randrange(8)]
            elif t < 0.6:
                target = ["mintrap_drop", rng.randrange(8), rng.randint(2, 3)]
            elif t < 0.75:
                target = ["node", rng.randrange(12)]
            else:
                target = ["space", families.random_space(rng, names, 0.4) or {names[-1]: 0}]
            yield {"net": name, "bnet": bnet, "target": target, "strategy": rng.choice(["internal", "all"]),
                   "max_drivers": rng.choice([None, None, 0, 1, 2, 3]), "forbidden": sorted(rng.sample(names, rng.choice([0, 0, 1, 2]) % (len(names) + 1)))}


def dkey(d):
    return skey(d)


def check_with_info(case):
    from biobalm.control import succession_control, successions_to_target

    net = oracle.Net.from_bnet(case["bnet"])
    info = net_info(net)
    target = cr.resolve_target(net, case["target"])
    info["target"] = target
    ref, _ = cr.reference_successions(net, target)
    info["ref_successions"] = len(ref)
    info["ref_steps"] = sum(len(s) for s in ref)
    out = []
    sd0 = make_sd(case["bnet"])
    obs = [tuple(skey(m) for m in s) for s in successions_to_target(sd0, target)]
    if sorted(obs) != sorted(ref):
        missing = [s for s in set(ref) if obs.count(s) < ref.count(s)]
        extra = [s for s in set(obs) if obs.count(s) > ref.count(s)]
        kind = "succession_missing" if missing else "succession_spurious_or_duplicated"
        out.append(fail(kind, "the successions are exactly the chains of stable motifs along all paths of the target-directed expansion to the outermost "
                        "trap spaces all of whose minimal trap spaces lie in the target, each once", f"missing {missing} extra {extra}", observed=sorted(obs), expected=sorted(ref)))
        return out, info
    forb = set(case["forbidden"])
    sd = make_sd(case["bnet"])
    all_ivs = succession_control(sd, target, strategy=case["strategy"], max_drivers_per_succession_node=case["max_drivers"], forbidden_drivers=set(forb),
                                 successful_only=False)
    sd2 = make_sd(case["bnet"])
    ok_ivs = succession_control(sd2, target, strategy=case["strategy"], max_drivers_per_succession_node=case["max_drivers"], forbidden_drivers=set(forb),
                                successful_only=True)
    if sorted(tuple(skey(m) for m in i.succession) for i in all_ivs) != sorted(ref):
        out.append(fail("intervention_per_succession", "successful_only=False returns one intervention per succession",
                        observed=len(all_ivs), expected=len(ref)))
    n_success = 0
    for iv in all_ivs:
        succ = [dict(m) for m in iv.succession]
        prev = cr.chain(net, succ)
        any_empty = False
        for k, (m, overrides) in enumerate(zip(succ, iv.control)):
            exp = cr.reference_drivers(net, m, prev[k], case["strategy"], case["max_drivers"], forb)
            inner = {a: b for a, b in m.items() if a not in prev[k]}
            bound = len(inner) if case["max_drivers"] is None else case["max_drivers"]
            for d in overrides:
                if set(d) & forb:
                    out.append(fail("forbidden_driver_reported", "no forbidden variable is ever reported", f"step {k}", observed=d, expected=sorted(forb)))
                if len(d) > bound:
                    out.append(fail("oversized_driver_set", "no oversized set is ever reported", f"step {k} bound {bound}", observed=d))
            o, e = sorted(dkey(d) for d in overrides), sorted(dkey(d) for d in exp)
            if o != e:
                miss = [d for d in e if d not in o]
                extra = [d for d in o if d not in e]
                kind = "driver_missing" if miss else ("driver_duplicated" if len(set(o)) != len(o) and set(o) == set(e) else "driver_not_minimal_or_not_working")
                out.append(fail(kind, "the reported override sets are exactly the inclusion-minimal sets of allowed variables, up to the size bound, whose fixing forces the step's motif",
                                f"step {k} motif {m} previous {prev[k]} strategy {case['strategy']} bound {bound} forbidden {sorted(forb)}; missing {miss} extra {extra}",
                                observed=o, expected=e))
            if not overrides:
                any_empty = True
        if iv.successful != (not any_empty):
            out.append(fail("successful_flag_wrong", "an intervention is flagged unsuccessful exactly when some step has no override left",
                            observed=iv.successful, expected=not any_empty))
        n_success += 1 if iv.successful else 0
    a = sorted((tuple(skey(m) for m in i.succession), tuple(tuple(dkey(d) for d in c) for c in i.control)) for i in all_ivs if i.successful)
    b = sorted((tuple(skey(m) for m in i.succession), tuple(tuple(dkey(d) for d in c) for c in i.control)) for i in ok_ivs)
    if a != b:
        out.append(fail("successful_only_filter", "successful_only=True returns exactly the successful interventions", observed=len(b), expected=len(a)))
    info["successful"] = n_success
    return out, info


def check(case):
    return check_with_info(case)[0]


def nontrivial(case, info):
    return info.get("ref_steps", 0) >= 1
