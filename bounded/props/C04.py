"""C04 - lazily built diagrams are always a faithful part of the full diagram."""
import random

import families
import oracle
from common import check_structure, fail, make_sd, motifs, net_info, run_step
from oracle import skey

BOUND = ("networks with <= 6 variables (exhaustive 1-variable, sampled 2-variable, seeded random 3-6(7) variables) and hand-built networks with <= 9 "
         "variables; seeded histories of <= 4 (quick) / <= 7 (thorough) plain expansion calls (bfs, dfs, minimal-space, attractor-seed, target-directed, "
         "block without source shortcuts, single-node expansion) with random size/level/stack limits in 0..8 and random start nodes; all structural "
         "invariants re-checked against the brute-force lattice after every call; then unrestricted bfs or dfs compared with a fresh full expansion; plus networks with "
         "diagrams of depth >= 2 (unions of bistable modules, nested switches, latch DAGs) under 'partial expansion, then a shallower level-limited bfs' and depth-first "
         "histories; a quarter of the seeded cases and the cases on networks with 4-6 stable motifs at the root run under max_motifs_per_node in 1..6 (a call that "
         "hits the limit raises and must leave the node unexpanded; the final comparison then runs with the limit lifted); the percolated-input shape: networks with <= 6 "
         "variables in which 1-3 variables become inputs once a bistable / source controller is fixed (8 update-function forms, 5 controllers, 6 side modules, seeded mixes; "
         "families.percolated_input_nets and emergent_source_nets) under expand_block(optimize_source_nodes=False) with / without the motif-avoidance check and size limits 6..20, "
         "optionally followed by a second call, then (half of the cases) the unrestricted expansion; a quarter of these cases use optimize_source_nodes=True and are checked "
         "with the weaker invariants for source shortcuts")
RULE = "non-trivial = the reference diagram has >= 3 nodes and at least one step left the diagram partially expanded (a stub existed after it)"
CASE_TIMEOUT = 60.0


def shape_cases(seed, tier):
    fixed = families.shallower_histories()
    for k, (name, bnet) in enumerate(families.deep_nets(seed, tier)):
        names = families.variables(bnet)
        rng = random.Random(f"{seed}-{name}-c04-shallow")
        if name in families.DEEP:
            picks = [p + [f] for p, f in fixed] + families.depth_first_histories(rng)
        else:
            pre, final = families.random_shallower_history(rng, names)
            picks = [fixed[k % len(fixed)][0] + [fixed[k % len(fixed)][1]], pre + [final], rng.choice(families.depth_first_histories(rng)[1:])]
        for h in picks:
            yield {"net": name, "bnet": bnet, "history": h, "finish": "dfs" if k % 2 else "bfs"}
        if name in families.DEEP or k % 5 == 0:
            for lim in ((1, 2, 3, 4, 5, 6) if name in families.DEEP else (rng.randint(1, 4),)):
                h = rng.choice([[["bfs", None, None, None]], [["dfs", None, None, None]], [["succ", 0], ["bfs", None, None, None]], [["min", None, None, False]]])
                yield {"net": name, "bnet": bnet, "config": {"max_motifs_per_node": lim}, "history": h, "finish": "bfs"}


def percolated_input_cases(seed, tier):
    """shape added after the seeded-change review: no input at the root, but fixing a stable motif (one state of a bistable pair) turns other variables into
    inputs of the percolated network of a NON-root node; block expansion with optimize_source_nodes=False (a plain expansion procedure: every expanded
    node has exactly its successors of the full diagram) with / without the motif-avoidance check, size limits and earlier partial expansions; a
    quarter of the cases with optimize_source_nodes=True (source shortcuts allowed: every successor is a percolated trap space strictly inside its
    parent and every minimal trap space stays reachable).  Networks: families.percolated_input_nets and families.emergent_source_nets."""
    nets = [x for pair in zip(families.percolated_input_nets(seed, tier), families.emergent_source_nets(seed, tier)) for x in pair]
    nets = nets[:1] + [n for n in nets[1:] if len(families.variables(n[1])) <= 6]  # (cost: the full diagrams of the larger ones have > 50 nodes)
    for k, (name, bnet) in enumerate(nets):
        rng = random.Random(f"{seed}-{name}-c04-percin")
        for rnd in range(3):
            first = k == 0 and rnd == 0
            opt = (not first) and rnd == 2 and rng.random() < 0.75
            block = ["block", False if first else rng.random() < 0.5, None if first or rng.random() < 0.7 else rng.randint(6, 20), opt, False]
            # block expansion starts at the root and does nothing below a root that is already expanded: earlier calls are rare and mostly queries
            pre = [] if first or rng.random() < 0.8 else rng.choice([[["seeds", 0, False]], [["cands", 0, True, True]], [["succ", 0]], [["bfs", None, 0, None]], [["pickle"]]])
            post = [] if rng.random() < 0.6 else [rng.choice([["block", rng.random() < 0.5, None, opt, False], ["succ", rng.randint(0, 8)], ["bfs", None, 1, None]])]
            yield {"net": name, "bnet": bnet, "history": pre + [block] + post, "finish": "bfs" if first else rng.choice(["bfs", "dfs", None, None]), "plain": not opt}


def cases(seed, tier):
    yield from families.interleave((percolated_input_cases(seed, tier), 1), (shape_cases(seed, tier), 1), (general_cases(seed, tier), 5))


def general_cases(seed, tier):
    maxlen = 4 if tier == "quick" else 7
    for name, bnet in families.network_family(seed, tier, hand_max_vars=9):
        names = families.variables(bnet)
        for rnd in range(3 if tier == "quick" else 6):
            rng = random.Random(f"{seed}-{rnd}-{name}-c04")
            hist = families.random_history(rng.randrange(1 << 30), names, rng.randint(1, maxlen), families.PLAIN_OPS)
            case = {"net": name, "bnet": bnet, "history": hist, "finish": rng.choice(["bfs", "dfs"])}
            if rnd == 2 and rng.random() < 0.75:
                case["config"] = {"max_motifs_per_node": rng.randint(1, 4)}
            yield case


def signature(sd):
    nodes = sorted(skey(sd.node_data(i)["space"]) for i in sd.node_ids())
    edges = sorted((skey(sd.node_data(p)["space"]), skey(sd.node_data(c)["space"]), tuple(sorted(skey(m) for m in motifs(sd, p, c)))) for p, c in sd.dag.edges)
    return nodes, edges


def check_with_info(case):
    net = oracle.Net.from_bnet(case["bnet"])
    info = net_info(net)
    info["ref_nodes"] = len(net.full_sd()[1])
    info["partial_moments"] = 0
    plain = case.get("plain", True)  # False: the history uses source-node shortcuts (optimize_source_nodes=True)
    sd = make_sd(case["bnet"], case.get("config"))
    out = check_structure(sd, net, plain=plain)
    for k, step in enumerate(case["history"]):
        sd, r = run_step(sd, step)
        if list(sd.stub_ids()):
            info["partial_moments"] += 1
        for f in check_structure(sd, net, plain=plain):
            f["detail"] = f"after step {k} {step}: " + f["detail"]
            out.append(f)
        if out:
            return out, info
    if case["finish"] is None:  # (shape cases only) no final full expansion
        return out, info
    if case.get("config"):
        sd.config["max_motifs_per_node"] = 100_000  # the limit is lifted for the final full expansion
    fin = ["bfs", None, None, None] if case["finish"] == "bfs" else ["dfs", None, None, None]
    sd, r = run_step(sd, fin)
    if r is not True:
        out.append(fail("full_expansion_incomplete", "an unrestricted full expansion completes", observed=r, expected=True))
    out += check_structure(sd, net, plain=plain)
    if not plain:
        if list(sd.stub_ids()):
            out.append(fail("stub_after_full_expansion", "after full expansion every node is expanded", observed=list(sd.stub_ids())))
        return out, info
    fresh = make_sd(case["bnet"])
    fresh.expand_bfs()
    if signature(sd) != signature(fresh):
        out.append(fail("differs_from_fresh_expansion", "continuing with an unrestricted full expansion produces the same diagram as expanding a fresh one",
                        observed=signature(sd), expected=signature(fresh)))
    if not (sd.is_isomorphic(fresh) and fresh.is_isomorphic(sd)):
        out.append(fail("not_isomorphic_to_fresh", "is_isomorphic with a fresh full expansion", observed=False, expected=True))
    if list(sd.stub_ids()):
        out.append(fail("stub_after_full_expansion", "after full expansion every node is expanded", observed=list(sd.stub_ids())))
    return out, info


def check(case):
    return check_with_info(case)[0]


def nontrivial(case, info):
    return info["ref_nodes"] >= 3 and info["partial_moments"] >= 1
