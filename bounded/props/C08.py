"""C08 - attractor candidates cover every attractor under every option and limit setting."""
import random

import families
import oracle
from common import check_cache, fail, make_sd, net_info, run_history, states_json

BOUND = ("one general case in six is repeated with the configuration key debug=True (output swallowed); networks with <= 6 variables (exhaustive 1-variable, sampled 2-variable, seeded random 3-6(7) variables), hand-built networks with <= 10 variables "
         "(incl. 10 source variables with the default configuration, the D1/D2/D8/D11 inputs); every node of the diagram reached by a seeded prefix "
         "(none / root expanded / full bfs / <= 2 random plain calls / block / scc); all 4 combinations of greedy_asp_minification x "
         "simulation_minification; retained_set_optimization_threshold, attractor_candidates_limit in {0,1,2,3,5,default}, minimum_simulation_budget in "
         "{0,1,default}, nfvs_size_threshold in {0,1,default}; plus networks with 2-3 independent negative cycles (all in the NFVS) and memory variables: "
         "retained_set_optimization_threshold in {0,1,2,3} x greedy on/off x simulation on/off (all 16 combinations on the fixed instances, seeded picks on "
         "the generated ones), optionally with attractor_candidates_limit in {1,2,3}, on the fresh root and after a full bfs")
RULE = "non-trivial = some node in the case owns an attractor (inside it, inside none of its successors) and the call did not raise a limit error for it"
CASE_TIMEOUT = 60.0

PREFIXES = [[], [["bfs", None, 0, None]], [["bfs", None, None, None]], [["bfs", None, 1, None]], [["block", True, None, True, False]], [["scc", True]],
            [["min", None, None, False]]]


def config_variants(rng):
    cfg = {}
    if rng.random() < 0.7:
        cfg["retained_set_optimization_threshold"] = rng.choice([0, 0, 1, 2, 3, 5])
    if rng.random() < 0.5:
        cfg["attractor_candidates_limit"] = rng.choice([0, 1, 2, 3, 5, 8])
    if rng.random() < 0.3:
        cfg["minimum_simulation_budget"] = rng.choice([0, 1])
    if rng.random() < 0.3:
        cfg["nfvs_size_threshold"] = rng.choice([0, 1, 3])
    return cfg


def shape_cases(seed, tier):
    """Several independent negative cycles x small thresholds x greedy on/off (the retained-set regeneration loop runs several times)."""
    for k, (name, bnet) in enumerate(families.neg_cycle_nets(seed, tier)):
        rng = random.Random(f"{seed}-{name}-c08-neg")
        if name in families.NEG_CYCLES:
            combos = [(thr, g, sim) for thr in (0, 1, 2, 3) for g in (True, False) for sim in (True, False)]
        else:
            combos = [(rng.choice([0, 1, 2, 3]), g, rng.random() < 0.5) for g in (True, False)]
        for thr, g, sim in combos:
            cfg = {"retained_set_optimization_threshold": thr}
            if name not in families.NEG_CYCLES and rng.random() < 0.25:
                cfg["attractor_candidates_limit"] = rng.choice([1, 2, 3])
            yield {"net": name, "bnet": bnet, "prefix": [] if rng.random() < 0.7 else [["bfs", None, None, None]], "config": cfg, "greedy": g, "sim": sim}


def cases(seed, tier):
    yield from families.interleave((shape_cases(seed, tier), 1), (general_cases(seed, tier), 3))


def general_cases(seed, tier):
    # defect-shaped first
    yield {"net": "D1_sources10", "bnet": families.HAND["D1_sources10"], "prefix": [], "config": {}, "greedy": True, "sim": True}
    for k in (2, 3):
        for thr in (0, 1, 2, 4):
            for greedy in (True, False):
                yield {"net": f"sources{k}", "bnet": families.sources(k), "prefix": [], "config": {"retained_set_optimization_threshold": thr}, "greedy": greedy, "sim": True}
    for name in ("D2", "D4", "D11", "D11_minroot", "D3a"):
        for cfg in ({}, {"retained_set_optimization_threshold": 0}, {"attractor_candidates_limit": 0, "retained_set_optimization_threshold": 0},
                    {"attractor_candidates_limit": 1}, {"attractor_candidates_limit": 1, "retained_set_optimization_threshold": 0}):
            for greedy in (True, False):
                yield {"net": name, "bnet": families.HAND[name], "prefix": [], "config": cfg, "greedy": greedy, "sim": True}
    for name, bnet in families.network_family(seed, tier, hand_max_vars=9):
        names = families.variables(bnet)
        for rnd in range(6 if tier == "quick" else 16):
            rng = random.Random(f"{seed}-{rnd}-{name}-c08")
            if rng.random() < 0.75:
                pre = rng.choice(PREFIXES)
            else:
                pre = families.random_history(rng.randrange(1 << 30), names, rng.randint(1, 2), families.PLAIN_OPS)
            case = {"net": name, "bnet": bnet, "prefix": pre, "config": config_variants(rng) if rnd else {}, "greedy": rng.random() < 0.5, "sim": rng.random() < 0.5}
            yield case
            if rnd == 2:
                yield dict(case, config=dict(case["config"], debug=True))      # the same case with the library's debug output switched on


def check_with_info(case):
    """debug output is part of the configuration (`debug`): with it switched on the results must be the same; the prints are swallowed"""
    if case.get("config", {}).get("debug"):
        import contextlib, io
        with contextlib.redirect_stdout(io.StringIO()):
            return _check_with_info(case)
    return _check_with_info(case)


def _check_with_info(case):
    from common import owned

    net = oracle.Net.from_bnet(case["bnet"])
    info = net_info(net)
    sd = make_sd(case["bnet"], case["config"])
    sd, _ = run_history(sd, case["prefix"])
    out = []
    info["owning_nodes_answered"] = 0
    info["limit_errors"] = 0
    for i in sd.node_ids():
        d = sd.node_data(i)
        before = (d["attractor_candidates"], d["attractor_seeds"], d["attractor_sets"])
        try:
            res = sd.node_attractor_candidates(i, compute=True, greedy_asp_minification=case["greedy"], simulation_minification=case["sim"])
        except RuntimeError:
            info["limit_errors"] += 1
            after = (d["attractor_candidates"], d["attractor_seeds"], d["attractor_sets"])
            if before != after:
                out.append(fail("cache_changed_by_limit_error", "a resource-limit error leaves the node's caches untouched", f"node {i}"))
            continue
        if d["attractor_candidates"] is not None and res != d["attractor_candidates"]:
            out.append(fail("returned_differs_from_cache", "the returned candidates are the cached ones", f"node {i}", observed=states_json(res)))
        if d["attractor_candidates"] is None:
            # seeds returned in place of (cleared) candidates
            if d["attractor_seeds"] is None or res != d["attractor_seeds"]:
                out.append(fail("returned_neither_cache", "candidates or, if absent, seeds are returned", f"node {i}"))
            saved = d["attractor_candidates"]
            d["attractor_candidates"] = res
            out += check_cache(sd, net, i, what=("cand",))
            d["attractor_candidates"] = saved
        else:
            out += check_cache(sd, net, i, what=("cand",))
        if owned(sd, net, i):
            info["owning_nodes_answered"] += 1
    if info["limit_errors"] == 0:
        # the collective accessor: exactly the expanded nodes with a non-empty list, each mapped to the list its node reports
        rep = sd.expanded_attractor_candidates()
        exp = {i: sd.node_attractor_candidates(i) for i in sd.expanded_ids()}
        exp = {i: l for i, l in exp.items() if l}
        if rep != exp:
            out.append(fail("expanded_candidates_differ", "expanded_attractor_candidates() maps every expanded node that has candidates to its complete list",
                            f"keys {sorted(rep)} vs {sorted(exp)}", observed={str(i): states_json(l) for i, l in rep.items()}))
    return out, info


def check(case):
    return check_with_info(case)[0]


def nontrivial(case, info):
    return info.get("owning_nodes_answered", 0) >= 1
