"""C20 - reported diagram metadata is accurate."""
import random
import re

import families
import oracle
from common import check_depths, fail, make_sd, net_info, run_history, run_step, state_or_none
from oracle import is_subspace, skey

BOUND = ("networks with <= 6(7) variables (exhaustive 1-variable, sampled 2-variable, seeded random) and hand-built networks with <= 9 variables incl. multi-path DAGs (D5, multipath, "
         "deep, unions, a 6-variable network with nested shortcut edges and seeded 'latch DAG' networks in which every variable is a set-/reset-latch) under depth-first histories "
         "(expand_dfs with and without limits, dfs below single children in both orders followed by a full expansion, manual depth-first node_successors sequences); depth / ids / len after EVERY call of a seeded history of <= 6 calls (all strategies, limits, skipping); find_node on every node space, on "
         "sub- and super-spaces, on seeded random spaces and on unknown variables; is_subgraph / is_isomorphic between diagrams of the same network under two "
         "histories and of 1-variable-mutated networks (incl. unexpanded roots, D6), against set inclusion of node spaces and edges, is_isomorphic in BOTH directions; the "
         "same-nodes shape: independent bistable modules, nested switches, multi-path and latch-DAG networks (<= 8 variables) with one side only partially expanded (root plus a "
         "subset of the nodes one by one, size- / level-limited bfs and dfs with limits 3..13, minimal-space / target / block expansion, build) against the full diagram or "
         "another partial one, so that the node sets are equal and the edge sets differ; summary() after build() parsed "
         "and compared with the brute-force attractors and their minimal-trap / motif-avoidant classification")
RULE = "non-trivial = the final diagram has >= 4 nodes or the network has >= 2 attractors"
CASE_TIMEOUT = 60.0

OPS = families.PLAIN_OPS + families.SKIP_OPS + ["block", "seeds"]


def shape_cases(seed, tier):
    """Multi-path DAG networks x histories in which a longer path to an already expanded sub-diagram is discovered late."""
    for k, (name, bnet) in enumerate(families.multipath_nets(seed, tier)):
        rng = random.Random(f"{seed}-{name}-c20-dfs")
        hs = families.depth_first_histories(rng)
        for h in (hs if name in families.MULTIPATH else [hs[0], hs[-1], hs[1 + k % (len(hs) - 2)]]):
            yield {"net": name, "bnet": bnet, "other": None, "h1": h, "h2": []}
        # single-node expansions in a seeded ARBITRARY order (neither level-wise nor depth-first): a long path to an already expanded node is found in one step, so its
        # depth grows by two or more at once while its children have other paths of intermediate length
        for _ in range(4 if name in families.MULTIPATH else 1):
            h = [["succ", 0]] + [["succ", rng.randint(0, 14)] for _ in range(rng.randint(5, 16))]
            yield {"net": name, "bnet": bnet, "other": None, "h1": h + [rng.choice([["bfs", None, None, None], ["dfs", None, None, None]])], "h2": [], "summary": False}


SAME_NODES_FIRST = [("two_switches", families.switches(2)), ("shortcut3", families.norm("A, A | C; B, A | B; C, !C"))]  # the instances that revealed the shape


def same_nodes_cases(seed, tier):
    """shape added after the seeded-change review: two diagrams of the SAME network with (often) the same node set and different edge sets - in one of
    them a node is still a stub although all of its children exist already, because they were reached through another parent (diamond-shaped diagrams
    of independent modules, shortcut edges); compared in both directions.  Partial side: root, then a subset of the nodes expanded one by one; size- /
    level-limited searches (a size limit equal to the final size stops when every node exists and some are stubs); minimal-space, target and block
    expansion; build().  Other side: the full diagram, or another partial one."""
    subsets = [[1, 2], [3, 4], [1, 3], [2, 4], [1, 2, 3], [2, 3, 4], [1], [4], [1, 2, 3, 4, 5], [2, 3, 4, 5, 6], [1, 2, 5, 6], [1, 3, 5, 7], [2, 4, 6, 8], [1, 2, 3, 4, 6, 7]]
    full = [["bfs", None, None, None]]

    def partials(rng, names):
        out = [[["succ", 0]] + [["succ", i] for i in s] for s in subsets]
        out += [[["bfs", None, None, k]] for k in range(3, 14)] + [[["dfs", None, None, k]] for k in range(3, 14, 2)]
        out += [[["bfs", None, 1, None]], [["bfs", None, 2, None]], [["min", None, None, False]], [["build"]], [["block", False, None, False, False]],
                [["target", families.random_space(rng, names, 0.3), None]], [["succ", 0], ["dfs", 1, None, None]], [["succ", 0], ["dfs", -1, None, None]],
                [["succ", 0], ["bfs", 2, None, None]], [["succ", 0], ["bfs", 1, None, None], ["bfs", 2, None, None]]]
        return out

    nets = SAME_NODES_FIRST + [("three_switches", families.switches(3))] + list(families.LIMIT_NETS.items()) + list(families.MULTIPATH.items()) + list(families.DEEP.items())
    fixed = len(nets)
    more = [x for pair in zip(families.limit_nets(seed, tier), families.multipath_nets(seed, tier), families.deep_nets(seed, tier)) for x in pair]
    done = set()
    for k, (name, bnet) in enumerate(nets + more):
        names = families.variables(bnet)
        if bnet in done or len(names) > 8:
            continue
        done.add(bnet)
        rng = random.Random(f"{seed}-{name}-c20-same")
        ps = partials(rng, names)
        if k >= fixed:
            ps = rng.sample(ps[: len(subsets)], 3) + rng.sample(ps[len(subsets):], 3)
        for j, h in enumerate(ps):
            other = full if (k < 2 or rng.random() < 0.7) else rng.choice(ps)
            first, second = (h, other) if (j + k) % 2 == 0 else (other, h)
            yield {"net": name, "bnet": bnet, "other": None, "h1": first, "h2": second, "summary": False}


def cases(seed, tier):
    yield from families.interleave((same_nodes_cases(seed, tier), 1), (shape_cases(seed, tier), 1), (general_cases(seed, tier), 4))


def general_cases(seed, tier):
    yield {"net": "D6", "bnet": "A, true", "other": "A, false", "h1": [], "h2": []}
    for name in ("D5", "multipath", "deep", "source_chain", "maa_latch"):  # DAGs with paths of different lengths to one node
        for h in ([["bfs", None, None, None]], [["dfs", None, None, None]], [["block", True, None, True, False]], [["block", False, None, False, False]], [["scc", True]],
                  [["bfs", None, 0, None], ["succ", 2], ["succ", 1], ["bfs", None, None, None]], [["min", None, None, False], ["bfs", None, None, None]]):
            yield {"net": name, "bnet": families.HAND[name], "other": None, "h1": h, "h2": []}
    for name, bnet in families.network_family(seed, tier, hand_max_vars=9):
        names = families.variables(bnet)
        for rnd in range(3 if tier == "quick" else 8):
            rng = random.Random(f"{seed}-{rnd}-{name}-c20")
            h1 = [rng.choice([["scc", True], ["build"], ["block", True, None, True, False]])] if rng.random() < 0.25 else []
            h1 += families.random_history(rng.randrange(1 << 30), names, rng.randint(0, 5), OPS)
            h2 = families.random_history(rng.randrange(1 << 30), names, rng.randint(0, 3), families.PLAIN_OPS)
            other = None
            if rng.random() < 0.5:
                # a network over the same variables with one update function replaced
                rules = families.parse_rules(bnet)
                j = rng.randrange(len(rules))
                rules[j] = (rules[j][0], rng.choice(["true", "false", rules[j][0], "!" + rules[j][0], rules[(j + 1) % len(rules)][0]]))
                other = families.to_bnet(rules)
            yield {"net": name, "bnet": bnet, "other": other, "h1": h1, "h2": h2}


def graph_sets(sd):
    nodes = {skey(sd.node_data(i)["space"]) for i in sd.node_ids()}
    edges = {(skey(sd.node_data(p)["space"]), skey(sd.node_data(c)["space"])) for p, c in sd.dag.edges}
    return nodes, edges


def check_meta(sd, when):
    out = []
    K = sd.dag.number_of_nodes()
    if sorted(sd.dag.nodes) != list(range(K)) or list(sd.node_ids()) != list(range(K)) or len(sd) != K or sd.root() != 0:
        out.append(fail("ids_or_len_wrong", "node ids are contiguous from the root at 0 and len() counts them", when, observed=sorted(sd.dag.nodes), expected=list(range(K))))
    for f in check_depths(sd):
        f["detail"] = f"{when}: " + f["detail"]
        out.append(f)
    return out


def check_find_node(sd, net, rng):
    out = []
    spaces = {skey(sd.node_data(i)["space"]): i for i in sd.node_ids()}
    queries = [dict(k) for k in spaces]
    for k in list(spaces)[:6]:
        sp = dict(k)
        for v in net.names:
            if v in sp:
                q = dict(sp)
                del q[v]
                queries.append(q)
            else:
                queries.append({**sp, v: rng.randint(0, 1)})
    queries += [families.random_space(rng, net.names, 0.5) for _ in range(8)]
    for q in queries:
        exp = spaces.get(skey(q))
        obs = sd.find_node(dict(q))
        if obs != exp:
            out.append(fail("find_node_wrong", "find_node returns the node whose space equals the query exactly (or nothing)", f"query {q}", observed=obs, expected=exp))
    if sd.find_node({"no_such_variable": 1}) is not None:
        out.append(fail("find_node_unknown_variable", "find_node returns nothing for a space over unknown variables", observed=sd.find_node({"no_such_variable": 1})))
    return out


def check_compare(a, b, what):
    out = []
    na, ea = graph_sets(a)
    nb, eb = graph_sets(b)
    exp_ab = na <= nb and ea <= eb
    exp_ba = nb <= na and eb <= ea
    for x, y, exp, tag in ((a, b, exp_ab, "first in second"), (b, a, exp_ba, "second in first")):
        obs = x.is_subgraph(y)
        if obs != exp:
            out.append(fail("is_subgraph_wrong", "is_subgraph decides inclusion of the node and edge sets of two diagrams", f"{what} ({tag})", observed=obs, expected=exp))
    for x, y, tag in ((a, b, "first with second"), (b, a, "second with first")):
        obs = x.is_isomorphic(y)
        if obs != (exp_ab and exp_ba):
            out.append(fail("is_isomorphic_wrong", "is_isomorphic decides equality of the node and edge sets of two diagrams", f"{what} ({tag}); nodes equal: {na == nb}, "
                            f"edges only in the first: {len(ea - eb)}, only in the second: {len(eb - ea)}", observed=obs, expected=exp_ab and exp_ba))
        if x is y:
            break
    return out


def check_summary(bnet, net):
    out = []
    sd = make_sd(bnet)
    sd.build()
    text = sd.summary()
    lines = text.splitlines()
    order = sorted(net.names)
    m = re.match(r"Succession Diagram with (\d+) nodes and depth (\d+)\.", lines[0])
    if not m or int(m.group(1)) != len(sd) or int(m.group(2)) != sd.depth():
        out.append(fail("summary_header_wrong", "the summary reports the number of nodes and the depth", observed=lines[0]))
    if lines[1] != "State order: " + ", ".join(order):
        out.append(fail("summary_state_order", "the summary reports the state order", observed=lines[1]))
    mins = [net.mask(t) for t in net.min_traps()]
    count = {a: 0 for a in net.attractors()}
    label = None
    pattern = None
    for ln in lines[2:]:
        if ln.startswith("minimal trap space ") or ln.startswith("motif avoidance in "):
            label, pattern = ln[:18], ln[19:]
            continue
        if ln.startswith("."):
            bits = ln.lstrip(".")
            st = state_or_none(net, {v: int(c) for v, c in zip(order, bits)}) if len(bits) == len(order) and set(bits) <= {"0", "1"} else None
            a = None if st is None else net.attractor_of(st)
            if a is None:
                out.append(fail("summary_lists_non_attractor", "the summary lists attractors", observed=ln))
                continue
            count[a] += 1
            in_min = any(a & ~mm == 0 for mm in mins)
            want = "minimal trap space" if in_min else "motif avoidance in"
            if label != want:
                out.append(fail("summary_label_wrong", "each attractor is labelled as lying in a minimal trap space or as motif-avoidant according to the node that contains it",
                                f"attractor state {bits} listed under '{label} {pattern}'", observed=label, expected=want))
            if pattern is not None and any(p != "*" and p != c for p, c in zip(pattern, bits)):
                out.append(fail("summary_state_outside_node", "listed attractor states lie in the node they are listed under", observed=ln, expected=pattern))
    for a, c in count.items():
        if c != 1:
            out.append(fail("summary_attractor_count", "after build() the summary lists every attractor exactly once", f"attractor containing {net.state_dict(net.states(a)[0])}",
                            observed=c, expected=1))
    return out


def check_with_info(case):
    net = oracle.Net.from_bnet(case["bnet"])
    info = net_info(net)
    rng = random.Random(case["net"])
    out = []
    a = make_sd(case["bnet"])
    out += check_meta(a, "fresh diagram")
    for k, step in enumerate(case["h1"]):
        a, r = run_step(a, step)
        out += check_meta(a, f"after step {k} {step}")
        if out:
            return out, info
    info["nodes"] = len(a)
    out += check_find_node(a, net, rng)
    b = make_sd(case["bnet"])
    b, _ = run_history(b, case["h2"])
    out += check_meta(b, f"after history {case['h2']}")
    out += check_compare(a, b, f"same network, histories {case['h1']} / {case['h2']}")
    out += check_compare(a, a, "a diagram with itself")
    if case["other"]:
        c = make_sd(case["other"])
        out += check_compare(a, c, f"fresh diagram of the modified network {case['other']!r}")
        out += check_compare(make_sd(case["bnet"]), c, f"two fresh diagrams, other network {case['other']!r}")
        c, _ = run_history(c, case["h2"])
        out += check_compare(a, c, f"modified network {case['other']!r} after {case['h2']}")
    if case.get("summary", True):
        out += check_summary(case["bnet"], net)
    return out, info


def check(case):
    return check_with_info(case)[0]


def nontrivial(case, info):
    return info.get("nodes", 0) >= 4 or info["attractors"] >= 2
