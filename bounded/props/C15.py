"""C15 - early stops and limit errors leave a valid, resumable diagram.

Excluded (DESIGN.md 7/C15): identity of the resulting diagrams for the two greedy strategies (minimal-space,
attractor-seed); for them the repeated run must return True with its postcondition."""
import random

import families
import oracle
from common import (all_seeds, check_cache, check_global_seeds, check_structure, fail, make_sd, motifs, net_info, run_step, states_json)
from oracle import intersect, is_subspace, skey

BOUND = ("networks with <= 6(7) variables (exhaustive 1-variable, sampled 2-variable, seeded random) and hand-built networks with <= 9 variables; (history) seeded "
         "histories of <= 5 calls with size/level/stack limits in 0..8 (incl. size_limit = len(sd) on a fully expanded diagram) under max_motifs_per_node and "
         "attractor_candidates_limit in {0,1,2,3,default}: all structural and cache invariants after every call, return-value contracts of every True/False; "
         "(resume) one strategy interrupted 1-3 times by limits or limit errors, then repeated with relaxed limits and compared with an uninterrupted run "
         "(bfs, dfs, target: identical diagrams; minimal-space, attractor-seed: True + postcondition; attractor query: identical seeds); (fault) the k-th clingo solve() call "
         "(k in 1..12) raises inside a seeded history of <= 3 calls: invariants after the failure, then full expansion compared with a fresh one; (shallower) networks "
         "with diagrams of depth >= 2 (unions of bistable modules, nested switches, latch DAGs): a partial expansion followed by a level-limited bfs (from the root or a "
         "child) whose limit 0..2 is shallower than what is already expanded, as a 'history' case (a True return is held to its contract); (limited) 2-4 independent bistable "
         "modules (+ downstream latch / gated oscillator) and the networks of (shallower): a limited prefix followed by dfs with stack limit 0..4 or attractor-seed expansion with size limit "
         "1..8(12), as 'history' cases; (tight) motif-avoidant networks with <= 8 variables (core / xnor module alone, with an independent module, block-structured and input-conditioned "
         "families): expand_block (source shortcuts on/off, exact on/off) or build() under attractor_candidates_limit in {1,2,3,4,6} x retained_set_optimization_threshold in {0,1,2,(3),1000} "
         "(seeded: further non-default budgets), cached data checked, then an attractor query in every expanded node under the tight limits, cached data checked again, then the limits "
         "are lifted, the call repeated and the seeds of all expanded nodes compared with brute force (every attractor exactly once)")
RULE = "non-trivial = at least one call stopped early (returned False or raised a limit error)"
CASE_TIMEOUT = 60.0

DEFAULTS = {"max_motifs_per_node": 100_000, "attractor_candidates_limit": 100_000, "retained_set_optimization_threshold": 1_000}


def shape_cases(seed, tier):
    fixed = families.shallower_histories()
    for k, (name, bnet) in enumerate(families.deep_nets(seed, tier)):
        names = families.variables(bnet)
        if name in families.DEEP:
            picks = fixed
        else:
            rng = random.Random(f"{seed}-{name}-c15-shallow")
            picks = [fixed[k % len(fixed)], fixed[(k * 7 + 3) % len(fixed)], families.random_shallower_history(rng, names)]
        for pre, final in picks:
            yield {"kind": "history", "net": name, "bnet": bnet, "config": {}, "history": pre + [final]}


def limit_cases(seed, tier):
    """(limited): several independent bistable modules x 'limited prefix, then a stack-limited dfs / a size-limited attractor-seed expansion' as history cases."""
    fixed = families.limited_dfs_histories() + families.limited_aseeds_histories()
    nets = families.interleave(((("limit", n, b) for n, b in families.limit_nets(seed, tier)), 1), ((("deep", n, b) for n, b in families.deep_nets(seed, tier)), 1))
    for k, (src, name, bnet) in enumerate(nets):
        names = families.variables(bnet)
        if src == "limit" and name in families.LIMIT_NETS:
            picks = fixed
        else:
            rng = random.Random(f"{seed}-{name}-c15-limited")
            picks = [fixed[(k * 11 + j * 37) % len(fixed)] for j in range(3)] + [families.random_limited_history(rng, names)]
        for pre, final in picks:
            yield {"kind": "history", "net": name, "bnet": bnet, "config": {}, "history": pre + [final]}


TIGHT_OPS = {"block": ["block", True, None, True, False], "build": ["build"], "block_nosrc": ["block", True, None, False, False], "block_exact": ["block", True, None, True, True]}
TIGHT_NETS = {
    "maa_core": families.MAA_CORE,
    "xnor": families.XNOR2,
    "maa_core+switch": families.HAND["maa_switch"],
    "maa_core+xnor": families.union(families.MAA_CORE, families.XNOR2),
    "xnor+switch": families.union(families.XNOR2, families.switch()),
    "switch_pair": families.norm("P, Q; Q, P; R, S | P; S, R"),  # no motif-avoidant attractor at all
    "maa_latch": families.HAND["maa_latch"],
    "maa_source": families.HAND["maa_source"],
    "maa_gated": families.HAND["maa_gated"],
    "maa_double": families.HAND["maa_double"],
}


def tight_nets(seed, tier):
    """Motif-avoidant networks: the fixed ones above, then the block-structured and input-conditioned families."""
    for k, v in TIGHT_NETS.items():
        yield (k, v)
    yield from families.interleave((families.block_nets(seed, tier), 1), (families.same_motif_cond_nets(seed, tier), 1), (iter(families.maa_nets()), 1))


def tight_cases(seed, tier):
    """(tight): block expansion / build under small attractor_candidates_limit x retained_set_optimization_threshold, then the limits are lifted."""
    seen = set()
    for name, bnet in tight_nets(seed, tier):
        if bnet in seen or len(families.variables(bnet)) > 8:
            continue
        seen.add(bnet)
        if name in TIGHT_NETS:
            grid = [({"attractor_candidates_limit": lim, "retained_set_optimization_threshold": thr}, op) for lim in (1, 2, 3, 4, 6) for thr in (1, 2, 0, 1000) for op in ("block", "build")]
            grid += [({"attractor_candidates_limit": lim, "retained_set_optimization_threshold": thr}, op) for lim in (1, 2, 3) for thr in (1, 1000) for op in ("block_nosrc", "block_exact")]
        else:
            rng = random.Random(f"{seed}-{name}-c15-tight")
            grid = [({"attractor_candidates_limit": lim, "retained_set_optimization_threshold": rng.choice([0, 1, 2, 3, 1000])}, rng.choice(["block", "block", "build", "block_nosrc", "block_exact"]))
                    for lim in (1, 2, rng.choice([3, 4, 6]))]
            cfg = families.config_variant(rng)
            cfg.pop("max_motifs_per_node", None)  # a motif limit truncates the diagram (property C14); here only the attractor-search limits vary
            cfg.setdefault("attractor_candidates_limit", rng.choice([1, 2, 3]))
            grid.append((cfg, rng.choice(["block", "build"])))
        for cfg, op in grid:
            yield {"kind": "tight", "net": name, "bnet": bnet, "config": cfg, "op": op}


def cases(seed, tier):
    yield from families.interleave((shape_cases(seed, tier), 1), (limit_cases(seed, tier), 1), (tight_cases(seed, tier), 1), (general_cases(seed, tier), 6))


def general_cases(seed, tier):
    # D7 shape: size_limit == len(sd) on a fully expanded diagram; D8 shape: limit 0
    for name in ("D4", "doc_abc", "multipath"):
        b = families.HAND[name]
        for op in ("bfs", "dfs", "min", "aseeds", "target"):
            yield {"kind": "full_then_limit", "net": name, "bnet": b, "op": op}
        for lim in (0, 1, 2):
            yield {"kind": "resume", "net": name, "bnet": b, "config": {"max_motifs_per_node": lim}, "op": "bfs", "limits": [None], "target": None}
    for name, bnet in families.network_family(seed, tier, hand_max_vars=9):
        names = families.variables(bnet)
        for rnd in range(4 if tier == "quick" else 10):
            rng = random.Random(f"{seed}-{rnd}-{name}-c15")
            cfg = {}
            if rng.random() < 0.4:
                cfg["max_motifs_per_node"] = rng.choice([0, 1, 2, 3])
            if rng.random() < 0.4:
                cfg["attractor_candidates_limit"] = rng.choice([0, 1, 2, 3])
                cfg["retained_set_optimization_threshold"] = rng.choice([0, 1, 1000])
            if rnd % 2 == 0:
                hist = families.random_history(rng.randrange(1 << 30), names, rng.randint(1, 5), families.PLAIN_OPS + ["seeds", "cands", "sets", "block_plain"])
                yield {"kind": "history", "net": name, "bnet": bnet, "config": cfg, "history": hist}
            else:
                op = rng.choice(["bfs", "dfs", "target", "min", "aseeds", "query"])
                yield {"kind": "resume", "net": name, "bnet": bnet, "config": cfg, "op": op, "limits": [rng.randint(0, 6) for _ in range(rng.randint(1, 3))],
                       "target": families.random_space(rng, names, 0.4) or {names[0]: 1}}
        yield {"kind": "full_then_limit", "net": name, "bnet": bnet, "op": random.Random(f"{seed}-{name}").choice(["bfs", "dfs", "min", "aseeds", "target"])}
        rng = random.Random(f"{seed}-{name}-c15-shallow")
        pre, final = families.random_shallower_history(rng, names)
        yield {"kind": "history", "net": name, "bnet": bnet, "config": {}, "history": pre + [final]}
        rng = random.Random(f"{seed}-{name}-c15-fault")
        for _ in range(2 if tier == "quick" else 5):
            hist = families.random_history(rng.randrange(1 << 30), names, rng.randint(1, 3), families.PLAIN_OPS + ["seeds", "cands", "skip", "skip_remaining", "min_skip"])
            yield {"kind": "fault", "net": name, "bnet": bnet, "history": hist, "fail_at": rng.randint(1, 12), "resume": rng.choice(["bfs", "dfs"])}


def signature(sd):
    nodes = sorted((skey(sd.node_data(i)["space"]), bool(sd.node_data(i)["expanded"])) for i in sd.node_ids())
    edges = sorted((skey(sd.node_data(p)["space"]), skey(sd.node_data(c)["space"]), tuple(sorted(skey(m) for m in motifs(sd, p, c)))) for p, c in sd.dag.edges)
    return nodes, edges


def reachable(sd, start):
    seen, stack = {start}, [start]
    while stack:
        for c in sd.dag.successors(stack.pop()):
            if c not in seen:
                seen.add(c)
                stack.append(c)
    return seen


def true_contract(sd, net, step, start_len):
    """What a True return promises."""
    out = []
    op = step[0]
    if op in ("bfs", "dfs"):
        start = 0 if step[1] is None else int(step[1]) % start_len
        bad = [i for i in reachable(sd, start) if not sd.node_data(i)["expanded"]]
        if bad:
            out.append(fail("true_but_stub_reachable", "an expansion that returns True has really completed its contract (every node reachable from the start node is expanded)",
                            f"{step}", observed=bad))
    elif op == "target":
        target = step[1]
        for i in reachable(sd, 0):
            sp = sd.node_data(i)["space"]
            relevant = intersect(sp, target) is not None and not (is_subspace(sp, target) and sp != target)
            if relevant and not sd.node_data(i)["expanded"]:
                out.append(fail("true_but_target_node_unexpanded", "target-directed expansion that returns True expanded every reachable node that intersects the target without being inside it",
                                f"{step} node {i} {sp}"))
    elif op in ("min", "aseeds"):
        if op == "min" and step[1] is not None and int(step[1]) % start_len != 0:
            return out  # started below the root: only the minimal trap spaces below the start node are promised
        obs = sorted(skey(sd.node_data(i)["space"]) for i in sd.minimal_trap_spaces())
        exp = sorted(skey(t) for t in net.min_traps())
        if obs != exp:
            out.append(fail("true_but_minimal_traps_wrong", "a minimal-space / attractor-seed expansion that returns True found exactly the minimal trap spaces", f"{step}", observed=obs, expected=exp))
    return out


def check_history(case, net, info):
    out = []
    sd = make_sd(case["bnet"], case["config"])
    for k, step in enumerate(case["history"]):
        n0 = len(sd)
        sd, r = run_step(sd, step)
        early = r is False or (isinstance(r, dict) and "raised" in r)
        info["early_stops"] += 1 if early else 0
        fs = check_structure(sd, net, plain=True)
        for i in sd.node_ids():
            fs += check_cache(sd, net, i, prefix="after_stop_")
        if r is True:
            fs += true_contract(sd, net, step, n0)
        if r is False and step[0] in ("bfs", "dfs", "min", "aseeds", "target", "block"):
            size = step[{"bfs": 3, "dfs": 3, "min": 2, "aseeds": 1, "target": 2, "block": 2}[step[0]]]
            other = step[2] if step[0] in ("bfs", "dfs") else None
            if size is not None and other is None and not list(sd.stub_ids()):
                fs.append(fail("false_without_stub", "a size-limited expansion returns False only when unexpanded nodes remain", f"{step}", observed=False, expected=True))
            if size is None and other is None:
                fs.append(fail("false_without_limit", "an expansion without limits completes", f"{step}", observed=False, expected=True))
        for f in fs:
            f["detail"] = f"after step {k} {step} -> {r}: " + f["detail"]
        out += fs
        if out:
            break
    return out


def check_full_then_limit(case, net, info):
    out = []
    sd = make_sd(case["bnet"])
    sd.expand_bfs()
    n = len(sd)
    step = {"bfs": ["bfs", None, None, n], "dfs": ["dfs", None, None, n], "min": ["min", None, n, False], "aseeds": ["aseeds", n], "target": ["target", {net.names[0]: 1}, n]}[case["op"]]
    sd, r = run_step(sd, step)
    info["early_stops"] += 1
    if r is not True:
        out.append(fail("false_without_stub", "a size-limited expansion returns False only when unexpanded nodes remain", f"fully expanded diagram of {n} nodes, {step}", observed=r, expected=True))
    return out


def check_resume(case, net, info):
    out = []
    op = case["op"]
    cfg = case["config"]
    sd = make_sd(case["bnet"], cfg)
    fresh = make_sd(case["bnet"])

    def step_for(lim):
        if op == "bfs":
            return ["bfs", None, None, lim]
        if op == "dfs":
            return ["dfs", None, None, lim]
        if op == "target":
            return ["target", case["target"], lim]
        if op == "min":
            return ["min", None, lim, False]
        if op == "aseeds":
            return ["aseeds", lim]
        return ["seeds", 0, False]

    for lim in case["limits"]:
        sd, r = run_step(sd, step_for(lim))
        if r is False or isinstance(r, dict):
            info["early_stops"] += 1
        fs = check_structure(sd, net, plain=True)
        for i in sd.node_ids():
            fs += check_cache(sd, net, i, prefix="after_stop_")
        for f in fs:
            f["detail"] = f"after {step_for(lim)} -> {r} under {cfg}: " + f["detail"]
        out += fs
    if out:
        return out
    sd.config.update(DEFAULTS)
    sd, r = run_step(sd, step_for(None))
    fresh, rf = run_step(fresh, step_for(None))
    if op == "query":
        # only an interrupted query is "repeated"; one that succeeded under the tight configuration stays cached
        if info["early_stops"] >= 1 and sd.node_data(0)["attractor_seeds"] is not None and r != rf:
            out.append(fail("resumed_query_differs", "repeating the attractor query with relaxed limits produces the same result as a run that was never interrupted", observed=r, expected=rf))
        return out
    if r is not True:
        out.append(fail("resume_incomplete", "the repeated run with relaxed limits completes", f"{step_for(None)}", observed=r, expected=True))
        return out
    if op in ("bfs", "dfs", "target"):
        if signature(sd) != signature(fresh):
            out.append(fail("resumed_diagram_differs", "repeating the expansion with relaxed limits produces the same result as a run that was never interrupted",
                            f"{op} after limits {case['limits']} under {cfg}", observed=signature(sd), expected=signature(fresh)))
    else:
        out += true_contract(sd, net, step_for(None), len(sd))
        if op == "aseeds":
            out += check_global_seeds(sd, net, all_seeds(sd, net), exactly_once=True)
    out += check_structure(sd, net, plain=True)
    return out


def check_tight(case, net, info):
    """Block expansion / build under tight attractor-search limits; then the limits are lifted and everything is compared with brute force."""
    out = []
    cfg = case["config"]
    step = TIGHT_OPS[case["op"]]
    sd = make_sd(case["bnet"], cfg)

    def cached_ok(label):
        fs = check_structure(sd, net, plain=False)
        for i in sd.node_ids():
            fs += check_cache(sd, net, i, prefix="after_stop_")
        for f in fs:
            f["detail"] = f"{label} under {cfg}: " + f["detail"]
        return fs

    sd, r = run_step(sd, step)
    if isinstance(r, dict) or r is False:
        info["early_stops"] += 1
    out += cached_ok(f"after {step} -> {r}")
    if out:
        return out
    # attractor queries under the tight limits (each may raise the limit error); whatever is cached afterwards must be correct
    for i in list(sd.expanded_ids()):
        sd, q = run_step(sd, ["seeds", i, False])
        if isinstance(q, dict):
            info["early_stops"] += 1
    out += cached_ok(f"after {step} -> {r} and an attractor query in every expanded node")
    if out:
        return out
    # lift the limits, repeat
    sd.config.update(default_limits())
    sd, r2 = run_step(sd, step)
    if not (r2 is True or (case["op"] == "build" and r2 is None)):  # build() returns nothing; it completes unless it raises
        out.append(fail("resume_incomplete", "the repeated run with relaxed limits completes", f"{step} after {cfg}", observed=r2, expected=True))
        return out
    triples = all_seeds(sd, net)
    for i in sd.expanded_ids():
        out += check_cache(sd, net, i, what=("seeds",), prefix="after_relax_")
    out += check_global_seeds(sd, net, triples, exactly_once=True, lost_kind="attractor_lost_after_limits", dup_kind="attractor_twice_after_limits")
    for f in out:
        f["detail"] = f"{step} under {cfg} -> {r}, then with default limits -> {r2}: " + f["detail"]
    return out


def default_limits():
    from biobalm import SuccessionDiagram

    d = SuccessionDiagram.default_config()
    return {k: d[k] for k in ("max_motifs_per_node", "attractor_candidates_limit", "retained_set_optimization_threshold", "minimum_simulation_budget", "nfvs_size_threshold") if k in d}


def check_fault(case, net, info):
    """Solver failure (clingo solve raising) at the k-th solver call: the diagram must stay valid and resumable."""
    import biobalm.trappist_core as tc

    out = []
    real = tc.Control
    counter = [0]

    class FaultyControl(real):
        def solve(self, *a, **k):
            counter[0] += 1
            if counter[0] == case["fail_at"]:
                raise RuntimeError("injected solver failure")
            return super().solve(*a, **k)

    sd = make_sd(case["bnet"])
    tc.Control = FaultyControl
    try:
        for k, step in enumerate(case["history"]):
            sd, r = run_step(sd, step)
            injected = isinstance(r, dict) and "injected" in r.get("msg", "")
            if injected:
                info["early_stops"] += 1
            skips = any(sd.node_data(i)["skipped"] for i in sd.node_ids())
            fs = check_structure(sd, net, plain=True)
            for i in sd.node_ids():
                fs += check_cache(sd, net, i, prefix="after_stop_")
            for f in fs:
                f["detail"] = f"after step {k} {step} -> {r} (solver call {case['fail_at']} fails): " + f["detail"]
            out += fs
            if out or injected:
                break
    finally:
        tc.Control = real
    if out:
        return out
    if any(sd.node_data(i)["skipped"] for i in sd.node_ids()):
        return out  # diagrams with skip nodes are not comparable with a plain full expansion
    resume = ["bfs", None, None, None] if case["resume"] == "bfs" else ["dfs", None, None, None]
    sd, r = run_step(sd, resume)
    fresh = make_sd(case["bnet"])
    fresh.expand_bfs()
    if r is not True or signature(sd) != signature(fresh):
        out.append(fail("resumed_diagram_differs", "after a solver failure, repeating the expansion produces the same result as a run that was never interrupted",
                        f"history {case['history']} with solver call {case['fail_at']} failing, then {resume} -> {r}", observed=signature(sd), expected=signature(fresh)))
    return out


def check_with_info(case):
    net = oracle.Net.from_bnet(case["bnet"])
    info = net_info(net)
    info["early_stops"] = 0
    fn = {"history": check_history, "resume": check_resume, "full_then_limit": check_full_then_limit, "fault": check_fault, "tight": check_tight}[case["kind"]]
    return fn(case, net, info), info


def check(case):
    return check_with_info(case)[0]


def nontrivial(case, info):
    return info.get("early_stops", 0) >= 1
