"""C06 - every intervention reported successful really forces the network into the target."""
import random

import control_ref as cr
import families
import oracle
from common import fail, make_sd, net_info, run_history
from oracle import intersect, is_subspace

BOUND = ("networks with <= 6 variables (exhaustive 1-variable, sampled 2-variable, seeded random 3-6(7) variables) and hand-built networks with <= 7 "
         "variables; targets: minimal trap spaces, minimal trap spaces with variables dropped (not trap spaces), nodes of the full diagram, seeded "
         "random subspaces; both strategies, max_drivers_per_succession_node in {None,0,1,2}, seeded forbidden sets, skip_feedforward_successions "
         "on/off; on a fresh diagram or after a seeded history of <= 3 calls (plain limited expansion, block/scc shortcuts, skipping); every reported "
         "override is simulated in the explicitly overridden network from every state of the previous trap space; plus multi-path networks "
         "(latch DAGs with <= 7 variables) after depth-first histories, where a node gets a parent created later; coupled bistable pairs "
         "(the same stable motif early in one succession and late in another); networks of depth >= 3 that are already partly expanded "
         "(limited searches, single expansions, an earlier control query for a coarser target) when the query arrives")
RULE = "non-trivial = at least one successful intervention with at least one step was returned"
CASE_TIMEOUT = 60.0

PRE_OPS = families.PLAIN_OPS + ["min_skip", "skip", "skip_remaining", "seeds"]


def _multipath_cases(seed, tier):
    """shape added after the seeded-change review: diagrams in which a node is reached again from a node created LATER (multi-path nets,
    depth-first histories), so that anything computed by a sweep over node ids in creation order is wrong; targets low in the diagram"""
    for name, bnet in families.multipath_nets(seed, tier):
        names = families.variables(bnet)
        if len(names) > 7:
            continue
        rng = random.Random(f"{seed}-{name}-c06mp")
        hists = families.depth_first_histories(rng)
        for rnd in range(3):
            target = rng.choice([["mintrap", rng.randrange(8)], ["node", rng.randrange(16)], ["mintrap_drop", rng.randrange(8), 2]])
            yield {"net": "multipath:" + name, "bnet": bnet, "target": target, "strategy": rng.choice(["internal", "internal", "all"]),
                   "max_drivers": rng.choice([1, 2]), "forbidden": [], "skip_ff": False, "history": rng.choice(hists)}


def _coupled_switch_cases(seed, tier):
    """shape added after the seeded-change review: two or three bistable pairs whose self-sustaining condition depends on a literal of another
    pair, so that the SAME stable motif occurs early in one succession and late in another (what has to be fixed to force it differs with what
    the earlier steps fixed); targets: every minimal trap space; both strategies"""
    import itertools
    nets = [("coupled_demo", "A, B\nB, A | (B & !C)\nC, D\nD, C & (D | !A)")]
    lits = ["{x}", "!{x}"]
    for la, lb, shape in itertools.product(lits, lits, range(3)):
        a, b = la.format(x="C"), lb.format(x="A")
        if shape == 0:
            txt = f"A, B\nB, A | (B & {a})\nC, D\nD, C & (D | {b})"
        elif shape == 1:
            txt = f"A, B & (A | {a})\nB, A\nC, D | (C & {b})\nD, C"
        else:
            txt = f"A, B\nB, A | (B & {a})\nC, D\nD, C & (D | {b})\nE, F\nF, E | (F & {la.format(x='D')})"
        nets.append((f"coupled_{shape}_{len(nets)}", txt))
    for name, bnet in nets:
        names = families.variables(bnet)
        for k in range(8):
            for strat in ("internal", "all"):
                yield {"net": "coupled:" + name, "bnet": families.norm(bnet) if hasattr(families, "norm") else bnet, "target": ["mintrap", k], "strategy": strat,
                       "max_drivers": None if strat == "internal" else 2, "forbidden": [], "skip_ff": False, "history": []}


def _partially_expanded_cases(seed, tier):
    """shape added after the seeded-change review: the diagram is already partly expanded (a level-limited search, single node expansions, an
    earlier control query for a COARSER target) when the control query for a fine target arrives; expand_to_target then has to descend below
    nodes that are already expanded; networks of depth >= 3; targets: every minimal trap space"""
    i = 0
    for name, bnet in families.deep_nets(seed, tier):
        names = families.variables(bnet)
        if len(names) > 7:
            continue
        i += 1
        rng = random.Random(f"{seed}-{name}-c06pe")
        coarse = {names[0]: rng.choice([0, 1]), names[1 % len(names)]: rng.choice([0, 1])}
        coarse1 = {names[0]: 0}
        hists = [[["bfs", None, 0, None]], [["bfs", None, 1, None]], [["succ", 0], ["succ", 1]], [["succ", 0], ["succ", -1]],
                 [["target", coarse, None]], [["target", coarse1, None]],
                 [["control", coarse, "internal", None, [], True, False]], [["control", coarse1, "all", 1, [], False, False]],
                 [["dfs", None, 1, None]]]
        for k in range(4):
            yield {"net": "partial:" + name, "bnet": bnet, "target": ["mintrap", rng.randrange(8)], "strategy": rng.choice(["internal", "internal", "all"]),
                   "max_drivers": rng.choice([None, 1, 2]), "forbidden": [], "skip_ff": False, "history": hists[(i + k * 3) % len(hists)]}


def cases(seed, tier):
    yield from families.interleave((_coupled_switch_cases(seed, tier), 1), (_multipath_cases(seed, tier), 1), (_partially_expanded_cases(seed, tier), 2),
                                   (_general_cases(seed, tier), 12))


def _general_cases(seed, tier):
    for name, bnet in families.network_family(seed, tier, hand_max_vars=7):
        names = families.variables(bnet)
        for rnd in range(4 if tier == "quick" else 10):
            rng = random.Random(f"{seed}-{rnd}-{name}-c06")
            t = rng.random()
            if t < 0.35:
                target = ["mintrap", rng.randrange(8)]
            elif t < 0.55:
                target = ["mintrap_drop", rng.randrange(8), rng.randint(2, 3)]
            elif t < 0.7:
                target = ["node", rng.randrange(12)]
            else:
                target = ["space", families.random_space(rng, names, 0.4) or {names[0]: 1}]
            h = rng.random()
            if h < 0.4:
                hist = []
            elif h < 0.55:
                hist = [rng.choice([["block", True, None, True, False], ["scc", True], ["scc", False], ["block", False, None, True, False]])]
            else:
                hist = families.random_history(rng.randrange(1 << 30), names, rng.randint(1, 3), PRE_OPS)
            yield {"net": name, "bnet": bnet, "target": target, "strategy": rng.choice(["internal", "all"]),
                   "max_drivers": rng.choice([None, None, 0, 1, 2]), "forbidden": sorted(rng.sample(names, rng.choice([0, 0, 1, 2]) % (len(names) + 1))),
                   "skip_ff": rng.random() < 0.3, "history": hist}


def check_with_info(case):
    from biobalm.control import succession_control

    net = oracle.Net.from_bnet(case["bnet"])
    info = net_info(net)
    target = cr.resolve_target(net, case["target"])
    info["target"] = target
    sd = make_sd(case["bnet"])
    sd, _ = run_history(sd, case["history"])
    ivs = succession_control(sd, target, strategy=case["strategy"], max_drivers_per_succession_node=case["max_drivers"],
                             forbidden_drivers=set(case["forbidden"]), successful_only=True, skip_feedforward_successions=case["skip_ff"])
    info["interventions"] = len(ivs)
    info["steps"] = sum(len(i.succession) for i in ivs)
    out = []
    mins = net.min_traps()
    for iv in ivs:
        if not iv.successful:
            out.append(fail("unsuccessful_returned", "successful_only=True returns only successful interventions", observed=repr(iv)))
            continue
        succ = [dict(m) for m in iv.succession]
        prev = cr.chain(net, succ)
        if len(iv.control) != len(succ):
            out.append(fail("control_length", "one list of overrides per step", observed=len(iv.control), expected=len(succ)))
            continue
        bad_chain = False
        for k in range(1, len(prev)):
            t = net.percolate(prev[k])
            if not net.is_trap(t):
                out.append(fail("succession_not_trap", "the succession is a chain of nested trap spaces", f"step {k}", observed=prev[k]))
                bad_chain = True
            if not is_subspace(prev[k], prev[k - 1]) or intersect(succ[k - 1], prev[k - 1]) is None:
                out.append(fail("succession_not_nested", "the succession is a chain of nested trap spaces starting from the whole state space", f"step {k}",
                                observed=prev[k], expected=prev[k - 1]))
                bad_chain = True
        if bad_chain:
            continue
        for k, (m, overrides) in enumerate(zip(succ, iv.control)):
            if not overrides:
                out.append(fail("successful_without_override", "a successful intervention has an override for every step", f"step {k}"))
            for d in overrides:
                if not cr.ldoi_contains(net, d, prev[k], m):
                    out.append(fail("ldoi_misses_motif", "the override's logical domain of influence contains the step's stable motif",
                                    f"step {k} override {d} previous {prev[k]}", observed=net.percolate({**d, **prev[k]}), expected=m))
                ok, wit = cr.override_forces(net, d, prev[k], m)
                if not ok:
                    out.append(fail("override_does_not_force_motif", "every attractor of the overridden network reachable from the previous trap space has the motif's values",
                                    f"step {k} override {d} previous {prev[k]} motif {m}", observed=wit, expected=m))
        final = net.percolate(prev[-1])
        if intersect(final, target) is None:
            out.append(fail("final_inconsistent_with_target", "the final trap space is consistent with the target", observed=final, expected=target))
        for t in mins:
            if is_subspace(t, final) and not is_subspace(t, target):
                out.append(fail("minimal_trap_outside_target", "every minimal trap space inside the final trap space lies inside the target",
                                f"final {final}", observed=t, expected=target))
    return out, info


def check(case):
    return check_with_info(case)[0]


def nontrivial(case, info):
    return info.get("steps", 0) >= 1
