"""C10 - Petri-net encoding and network reduction preserve the asynchronous dynamics."""
import random

import families
import oracle
from common import fail, import_biobalm, make_sd, net_info, run_history
from oracle import pn_moves, pn_variables, pn_well_formed

BOUND = ("all 1-variable networks, all 256 (thorough) / sampled (quick) 2-variable networks, seeded random networks with 3-6(7) variables, hand-built networks "
         "with <= 9 variables (explicit states only; the 'any size / symbolic' part of the quantifier is NOT covered here); network_to_petrinet on "
         "every state; restrict_petrinet_to_subspace for seeded subspaces (all subspaces when n <= 3) on every state of the subspace, also applied "
         "twice; percolate_network for every trap space (<= 40 seeded ones) with and without remove_constants; node_percolated_network / "
         "node_percolated_petri_net of every node after a seeded expansion history, for nodes with several predecessors also derived from the cached net of each "
         "predecessor (parent_id) after reclaim_node_data; the hand-built part includes unions of 2-3 independent bistable modules (diamond-shaped diagrams); "
         "networks with identity inputs are percolated a second time with those inputs written as free inputs (no update function); network_to_petrinet is "
         "repeated with the module's DEBUG switch on")
RULE = "non-trivial = the network has >= 2 variables and at least one enabled transition in some state"
CASE_TIMEOUT = 60.0


def all_nets(seed, tier):
    # diamond-shaped diagrams (a node with two predecessors fixing different variables) first
    deep = families.deep_nets(seed, tier)
    yield from families.interleave((deep, 1), (families.network_family(seed, tier, hand_max_vars=9, include_2var=64 if tier == "quick" else 256), 4))


def cases(seed, tier):
    for name, bnet in all_nets(seed, tier):
        names = families.variables(bnet)
        rng = random.Random(f"{seed}-{name}-c10")
        hist = families.random_history(rng.randrange(1 << 30), names, rng.randint(1, 3), families.PLAIN_OPS + ["block", "min_skip", "reclaim"])
        if name in families.DEEP:
            yield {"net": name, "bnet": bnet, "space_seed": rng.randrange(1 << 30), "history": [["bfs", None, None, None]]}
        yield {"net": name, "bnet": bnet, "space_seed": rng.randrange(1 << 30), "history": hist}


def compare_moves(out, kind, clause, what, net, sub_moves, space, free):
    """For every state of `space`, transitions of the free variables in the original network vs sub_moves(state over free vars)."""
    for s in net.states(net.mask(space)):
        d = net.state_dict(s)
        exp = {(net.names[i], dr) for i, dr in net.moves(s) if net.names[i] in free}
        obs = sub_moves({v: d[v] for v in free})
        if obs != exp:
            out.append(fail(kind, clause, f"{what}; state {d}", observed=sorted(obs), expected=sorted(exp)))
            return False
    return True


def restricted_net_problems(r, sp, free, what="restricted net", prefix="restricted_net"):
    """Structural failures of a net that should encode exactly the variables `free` (those not fixed by `sp`): a
    transition whose `change` variable is fixed (it would move a variable that is no longer there), a transition
    touching a place of a fixed variable, and any other violation of the encoding's shape.  Never raises."""
    out = []
    freeset = set(free)
    for t, data in r.nodes(data=True):
        if data.get("kind") != "transition":
            continue
        ch = data.get("change")
        touched = {str(p)[3:] for p in list(r.predecessors(t)) + list(r.successors(t))}
        if ch is not None and ch not in freeset:
            out.append(fail(f"{prefix}_has_transition_of_fixed_variable", f"the {what} is over exactly the variables left free: no transition changes a fixed variable",
                            f"space {sp}: transition {t} changes {ch} (reads {sorted(touched)})", observed=str(t), expected=f"no transition with change={ch}"))
        elif touched - freeset:
            out.append(fail(f"{prefix}_transition_touches_fixed_variable", f"the {what} is over exactly the variables left free", f"space {sp}: transition {t}",
                            observed=sorted(touched - freeset)))
    if not out:
        for p in pn_well_formed(r):
            out.append(fail(f"{prefix}_malformed", f"the {what} is a well-formed encoding", f"space {sp}: {p}"))
    return out[:3]


def net_moves_fn(sub):
    def fn(d):
        s = sub.state_of(d)
        return {(sub.names[i], dr) for i, dr in sub.moves(s)}
    return fn


def check_with_info(case):
    import_biobalm()
    from biodivine_aeon import AsynchronousGraph, BooleanNetwork
    from biobalm.petri_net_translation import network_to_petrinet, restrict_petrinet_to_subspace
    from biobalm.space_utils import percolate_network

    net = oracle.Net.from_bnet(case["bnet"])
    info = net_info(net)
    info["transitions"] = sum(len(net.succ(s)) for s in range(net.N))
    bn = BooleanNetwork.from_bnet(case["bnet"]).infer_valid_graph()
    out = []
    pn = network_to_petrinet(bn)
    for p in pn_well_formed(pn):
        out.append(fail("petri_net_malformed", "every transition moves one variable between its two places and only reads the rest", p))
    if pn_variables(pn) != sorted(net.names):
        out.append(fail("petri_net_places", "the net has the two places of every variable", observed=pn_variables(pn), expected=sorted(net.names)))
    if out:
        return out, info
    compare_moves(out, "petri_net_transition_mismatch", "a transition changing a variable up/down is enabled exactly when the update function disagrees with the current value in that direction",
                  "network_to_petrinet", net, lambda d: pn_moves(pn, d), {}, net.names)
    rng = random.Random(case["space_seed"])
    spaces = list(net.all_spaces()) if net.n <= 3 else [families.random_space(rng, net.names, rng.choice([0.2, 0.4, 0.6])) for _ in range(12)]
    for sp in spaces:
        r = restrict_petrinet_to_subspace(pn, sp)
        free = [v for v in net.names if v not in sp]
        bad = restricted_net_problems(r, sp, free)
        if bad:
            # a net that is not an encoding over the free variables has no transition semantics to compare: report, do not interpret
            out += bad
            break
        if pn_variables(r) != sorted(free):
            out.append(fail("restricted_net_places", "the restricted net is over exactly the variables left free", f"space {sp}", observed=pn_variables(r), expected=sorted(free)))
            continue
        if not compare_moves(out, "restricted_net_transition_mismatch", "the restricted net's transitions coincide with the original dynamics of the free variables on every state of the subspace",
                             f"restrict_petrinet_to_subspace to {sp}", net, lambda d, r=r: pn_moves(r, d), sp, free):
            break
        # restricting in two stages gives the same graph
        keys = sorted(sp)
        a = {k: sp[k] for k in keys[: len(keys) // 2]}
        b = {k: sp[k] for k in keys[len(keys) // 2:]}
        r2 = restrict_petrinet_to_subspace(restrict_petrinet_to_subspace(pn, a), b)
        if sorted(r2.nodes) != sorted(r.nodes) or sorted(r2.edges) != sorted(r.edges):
            out.append(fail("restriction_not_compositional", "restricting in two steps equals restricting to the union", f"{a} then {b}"))
    traps = net.trap_spaces()
    if len(traps) > 40:
        traps = rng.sample(traps, 40)

    def percolation_block(bn_used, tag):
        graph_used = AsynchronousGraph(bn_used)
        for t in traps:
            pt = net.percolate(t)
            for rc in (True, False):
                pbn = percolate_network(bn_used, dict(t), graph_used if rng.random() < 0.5 else None, remove_constants=rc)
                sub = oracle.Net.from_bn(pbn)
                free = [v for v in net.names if v not in pt]
                want_names = free if rc else net.names
                if sorted(sub.names) != sorted(want_names):
                    out.append(fail("percolated_network_variables", "the percolated network is over exactly the variables left free (constants removed) / all variables (kept)",
                                    f"{tag}trap space {t} remove_constants={rc}", observed=sub.names, expected=sorted(want_names)))
                    continue
                if rc:
                    ok = compare_moves(out, "percolated_network_dynamics", "the percolated network's transitions coincide with the original dynamics of the free variables on every state of the trap space",
                                       f"{tag}percolate_network({t}, remove_constants=True)", net, net_moves_fn(sub), pt, free)
                else:
                    ok = True
                    for s in net.states(net.mask(pt)):
                        for i, v in enumerate(net.names):
                            if sub.f(sub.idx[v], sub.state_of(net.state_dict(s))) != net.f(i, s):
                                out.append(fail("percolated_network_dynamics", "the percolated network agrees with the original update functions on every state of the trap space",
                                                f"{tag}percolate_network({t}, remove_constants=False) variable {v} state {net.state_dict(s)}"))
                                ok = False
                                break
                        if not ok:
                            break
                    for v in pt:
                        if v not in sub.constant_vars() or sub.constant_vars()[v] != pt[v]:
                            out.append(fail("percolated_network_constant", "fixed variables become constants with their fixed value", f"{tag}{t} variable {v}"))
                if not ok:
                    break

    percolation_block(bn, "")
    # the same network with its identity inputs (x, x) written as FREE inputs (no update function): same dynamics, but percolate_network
    # takes its other branch (inputs fixed by the space become constants) - for every value the space gives them
    ident = [v for i, v in enumerate(net.names) if all(net.f(i, s) == ((s >> i) & 1) for s in range(net.N))]
    if ident and not out:
        keep = []
        for ln in bn.to_aeon().splitlines():
            w = ln.split()
            if any(ln.startswith(f"${v}:") for v in ident) or (len(w) == 3 and w[0] == w[2] and w[0] in ident):
                continue          # the input's own rule and its self-regulation: a free input has neither
            keep.append(ln)
        bn_free = BooleanNetwork.from_aeon("\n".join(keep))
        if sorted(bn_free.variable_names()) != sorted(net.names):
            bn_free = None        # an input nobody reads is not declared by the remaining lines
        if bn_free is not None:
            info["free_input_variants"] = len(ident)
            percolation_block(bn_free, "free inputs " + ",".join(ident) + ": ")
    # module-level debug switch: the translation must not depend on it
    if not out:
        import contextlib, io
        import biobalm.petri_net_translation as pnt
        old_dbg = pnt.DEBUG
        try:
            pnt.DEBUG = True
            with contextlib.redirect_stdout(io.StringIO()):
                pn_dbg = network_to_petrinet(bn)
        finally:
            pnt.DEBUG = old_dbg
        if sorted(map(str, pn_dbg.nodes)) != sorted(map(str, pn.nodes)) or sorted(map(str, pn_dbg.edges)) != sorted(map(str, pn.edges)):
            compare_moves(out, "petri_net_transition_mismatch", "a transition changing a variable up/down is enabled exactly when the update function disagrees with the "
                          "current value in that direction (also with the module's DEBUG output switched on)", "network_to_petrinet with petri_net_translation.DEBUG = True",
                          net, lambda d: pn_moves(pn_dbg, d), {}, net.names)
            if not out:
                out.append(fail("petri_net_depends_on_debug_switch", "the translation does not depend on the DEBUG output switch",
                                f"{len(pn_dbg.nodes)} nodes / {len(pn_dbg.edges)} edges with DEBUG vs {len(pn.nodes)} / {len(pn.edges)} without"))
    # the per-node accessors of a diagram, with whatever caches the history left behind
    sd = make_sd(case["bnet"])
    sd, _ = run_history(sd, case["history"])
    for i in sd.node_ids():
        sp = sd.node_data(i)["space"]
        free = [v for v in net.names if v not in sp]
        if not net.is_trap(sp):
            continue
        npn = sd.node_percolated_petri_net(i, compute=True)
        bad = restricted_net_problems(npn, sp, free, what="node's Petri net", prefix="node_petri_net")
        if bad:
            out += bad
        elif pn_variables(npn) != sorted(free):
            out.append(fail("node_petri_net_places", "node_percolated_petri_net is over exactly the free variables", f"node {i} {sp}", observed=pn_variables(npn), expected=sorted(free)))
        else:
            compare_moves(out, "node_petri_net_transition_mismatch", "the node's Petri net coincides with the original dynamics on the node's space", f"node {i} {sp}", net,
                          lambda d, npn=npn: pn_moves(npn, d), sp, free)
        # the same accessor started from the cached net of EVERY predecessor (parent_id), after the caches were dropped with reclaim_node_data
        preds = sorted(sd.dag.predecessors(i))
        if len(preds) >= 2 and len(sp) < net.n and info.setdefault("parent_paths", 0) < 12:
            for p_id in preds:
                info["parent_paths"] += 1
                sd.reclaim_node_data()
                sd.node_percolated_petri_net(p_id, compute=True)
                npn2 = sd.node_percolated_petri_net(i, compute=True, parent_id=p_id)
                bad = restricted_net_problems(npn2, sp, free, what="node's Petri net", prefix="node_petri_net")
                if bad:
                    out += bad
                elif pn_variables(npn2) != sorted(free):
                    out.append(fail("node_petri_net_places", "node_percolated_petri_net(parent_id=p) is over exactly the free variables", f"node {i} {sp} from parent {p_id}",
                                    observed=pn_variables(npn2), expected=sorted(free)))
                else:
                    compare_moves(out, "node_petri_net_transition_mismatch", "the node's Petri net coincides with the original dynamics on the node's space whichever cached parent "
                                  "net it is derived from", f"node {i} {sp} derived from the cached net of parent {p_id} {sd.node_data(p_id)['space']}", net,
                                  lambda d, npn2=npn2: pn_moves(npn2, d), sp, free)
        nbn = sd.node_percolated_network(i, compute=True)
        sub = oracle.Net.from_bn(nbn)
        if sorted(sub.names) != sorted(free):
            out.append(fail("node_network_variables", "node_percolated_network is over exactly the free variables", f"node {i} {sp}", observed=sub.names, expected=sorted(free)))
        else:
            compare_moves(out, "node_network_dynamics", "the node's percolated network coincides with the original dynamics on the node's space", f"node {i} {sp}", net,
                          net_moves_fn(sub), sp, free)
    return out, info


def check(case):
    return check_with_info(case)[0]


def nontrivial(case, info):
    return info["vars"] >= 2 and info["transitions"] >= 1
