"""C19 - results are reproducible (same process, other processes, any PYTHONHASHSEED, any preceding unrelated calls).

check(case) runs a batch of (network, history) items in 8 (12 for the tie-shaped batches) fresh interpreter
processes with different PYTHONHASHSEED values; one of them runs every item twice in a row, one runs unrelated
library calls (another network: build, control, queries) before every item.  All full dumps must be identical."""
import json
import os
import random
import subprocess
import sys

HERE = os.path.dirname(os.path.abspath(__file__))
if os.path.dirname(HERE) not in sys.path:
    sys.path.insert(0, os.path.dirname(HERE))

import families  # noqa: E402
from common import REPO, dump, fail, make_sd, run_history  # noqa: E402

BOUND = ("networks with <= 6(7) variables (exhaustive 1-variable, sampled 2-variable, seeded random) and hand-built networks with <= 9 variables; per item one seeded history of "
         "1-5 calls (every expansion strategy with default or random limits, attractor queries, skipping, succession_control with both strategies); 8 interpreter "
         "processes with PYTHONHASHSEED in {0, 1, 2, 3, 5, 7, 4242, seeded random}; tie-shaped networks (two or three minimal source blocks with the same number of stable "
         "motifs whose variable names interleave alphabetically, e.g. A<->D, B<->C, E=A&B; switch / toggle / asymmetric modules; seeded name permutations) under build, "
         "block expansion with and without the motif-avoidance check, scc expansion and succession_control, in 12 processes (hash seeds 0..3, 5, 7..11, 4242, seeded); full dump (ids, spaces, flags, edges, motif lists in order, depths, candidates, seeds, sets, "
         "key index) plus every call's return value (incl. interventions in order) compared for equality; one process repeats each item, one interleaves unrelated calls, "
         "one first builds an unrelated network with the same variable names and wiring; input-plus-chain networks whose restriction removes most of the Petri net, "
         "under skipping histories")
RULE = "one evaluation = one batch of 12 (network, history) items run in 8 or 12 processes; non-trivial = the batch contains an item whose final diagram has >= 3 nodes"
CASE_TIMEOUT = 120.0
BATCH = 12

OPS = families.PLAIN_OPS + families.QUERY_OPS + families.SKIP_OPS + ["block", "control", "control"]
NOISE = {"bnet": families.HAND["doc_control"], "history": [["build"], ["control", {"A": 0, "B": 0}, "all", None, [], True, False], ["seeds", 1, False]]}


HASHSEEDS = [(0, "plain"), (1, "twice"), (4242, "noise"), (None, "plain"), (2, "plain"), (3, "plain"), (5, "plain"), (7, "similar")]
MORE_HASHSEEDS = [(8, "plain"), (9, "plain"), (10, "plain"), (11, "plain")]


def tie_batches(seed, tier):
    batch = []
    for k, (name, bnet) in enumerate(families.tie_nets(seed, tier)):
        names = families.variables(bnet)
        target = {v: 1 for v in names}
        hists = [[["build"]], [["block", False, None, True, False]], [["block", True, None, True, False], ["control", target, "internal", None, [], True, False]],
                 [["scc", True], ["control", target, "all", 2, [], False, False]]]
        for h in (hists[:3] if k < 9 else [hists[k % 4]]):
            batch.append({"net": name, "bnet": bnet, "history": h})
            if len(batch) == BATCH:
                yield {"items": batch, "hashseed": random.Random(f"{seed}-{name}-tie").randrange(1, 2 ** 32 - 1), "more_seeds": True}
                batch = []
    if batch:
        yield {"items": batch, "hashseed": random.Random(f"{seed}-tie-last").randrange(1, 2 ** 32 - 1), "more_seeds": True}


def chain_batches(seed, tier):
    """shape added after the seeded-change review: an input S, a chain of copies of S and a few independent bistable pairs - fixing S removes
    more than half of the Petri net; node ids are then assigned in the order in which clingo enumerates minimal trap spaces of the restricted
    net (skip_to_minimal / skip_remaining / expand_minimal_spaces with skipping), which must not depend on the hash seed"""
    rng = random.Random(f"{seed}-c19chain")
    batch = []
    for n_chain, n_pairs in [(10, 3), (8, 2), (6, 3), (12, 2), (9, 3), (7, 2)] + [(rng.randint(5, 12), rng.randint(2, 3)) for _ in range(6 if tier == "quick" else 40)]:
        rules = ["S, S", "C0, S"] + [f"C{i}, C{i - 1}" for i in range(1, n_chain)]
        for i in range(n_pairs):
            rules += [f"P{i}, Q{i}", f"Q{i}, P{i}"]
        bnet = families.norm("\n".join(rules))
        for h in ([["succ", 0], ["skip", 1]], [["succ", 0], ["skip", 2], ["skip", 1]], [["bfs", None, 0, None], ["skip_remaining"]],
                  [["succ", 0], ["min", 1, None, True]]):
            batch.append({"net": f"chain{n_chain}_{n_pairs}", "bnet": bnet, "history": h})
            if len(batch) == 6:
                yield {"items": batch, "hashseed": rng.randrange(1, 2 ** 32 - 1), "more_seeds": True}
                batch = []
    if batch:
        yield {"items": batch, "hashseed": rng.randrange(1, 2 ** 32 - 1), "more_seeds": True}


def cases(seed, tier):
    yield from families.interleave((chain_batches(seed, tier), 1), (tie_batches(seed, tier), 1), (general_batches(seed, tier), 3))


def general_batches(seed, tier):
    batch = []
    for name, bnet in families.network_family(seed, tier, hand_max_vars=9):
        names = families.variables(bnet)
        rng = random.Random(f"{seed}-{name}-c19")
        hist = []
        if rng.random() < 0.35:
            hist.append(rng.choice([["build"], ["scc", True], ["block", True, None, True, False], ["bfs", None, None, None], ["aseeds", None], ["min", None, None, True]]))
        for _ in range(rng.randint(1, 4)):
            op = rng.choice(OPS)
            if op == "control":
                hist.append(["control", families.random_space(rng, names, 0.4) or {names[0]: 1}, rng.choice(["internal", "all"]), rng.choice([None, 1, 2]),
                             sorted(rng.sample(names, rng.choice([0, 0, 1]))), rng.random() < 0.5, rng.random() < 0.3])
            else:
                hist.append(families.random_step(rng, names, [op]))
        batch.append({"net": name, "bnet": bnet, "history": hist})
        if len(batch) == BATCH:
            yield {"items": batch, "hashseed": random.Random(f"{seed}-{name}").randrange(1, 2 ** 32 - 1)}
            batch = []


def run_item(item):
    """one history on a fresh diagram; an exception raised by biobalm is an observable result of the run (recorded, compared across runs and
    reported), not a failure of the harness"""
    try:
        sd = make_sd(item["bnet"])
        sd, log = run_history(sd, item["history"])
        return {"log": log, "dump": dump(sd)}
    except Exception as e:  # noqa: BLE001
        import traceback
        from common import is_biobalm_file
        tb = traceback.extract_tb(e.__traceback__)
        lib = [f"{os.path.basename(fr.filename)}:{fr.lineno}" for fr in tb if is_biobalm_file(fr.filename)]
        if not lib:
            raise
        return {"log": [f"EXCEPTION {type(e).__name__} at {lib[-1]}: {e}"[:300]], "dump": {"len": 0, "exception": type(e).__name__}}


def similar_network(bnet: str) -> str:
    """the same variables and the same regulators, every literal positive: an UNRELATED network that looks the same to anything keyed by names / wiring"""
    return bnet.replace("!", "")


def child_main():
    req = json.load(sys.stdin)
    out = []
    for item in req["items"]:
        if req["mode"] == "noise":
            run_item(NOISE)
        if req["mode"] == "similar":
            run_item({"bnet": similar_network(item["bnet"]), "history": [["build"]]})      # its own outcome (even an exception) is irrelevant here
        r = run_item(item)
        if req["mode"] == "twice":
            r2 = run_item(item)
            r["same_process_equal"] = (json.dumps(r2, sort_keys=True, default=repr) == json.dumps({"log": r["log"], "dump": r["dump"]}, sort_keys=True, default=repr))
        out.append(r)
    json.dump(out, sys.stdout, sort_keys=True, default=repr)


def spawn(items, hashseed, mode):
    env = dict(os.environ)
    env["PYTHONHASHSEED"] = str(hashseed)
    env["PYVC_REPO"] = REPO
    env.pop("PYTHONPATH", None)
    p = subprocess.run([sys.executable, os.path.abspath(__file__), "--child"], input=json.dumps({"items": items, "mode": mode}), capture_output=True, text=True, env=env,
                       timeout=CASE_TIMEOUT)
    if p.returncode != 0:
        raise RuntimeError(f"C19 child failed (hash seed {hashseed}, mode {mode}): {p.stdout[-2000:]}")
    return json.loads(p.stdout)


def check_with_info(case):
    items = case["items"]
    runs = [(case["hashseed"] if h is None else h, m) for h, m in HASHSEEDS + (MORE_HASHSEEDS if case.get("more_seeds") else [])]
    results = [spawn(items, h, m) for h, m in runs]
    out = []
    info = {"items": len(items), "max_nodes": 0}
    base = results[0]
    for k, item in enumerate(items):
        for (h, m), res in zip(runs, results):
            if res[k]["dump"].get("exception"):
                out.append(fail("biobalm_exception", "the history completes (no undocumented exception) in every process", f"item {k} ({item['net']}), PYTHONHASHSEED {h} ({m}): "
                                f"{res[k]['log'][-1]}; history {item['history']}"))
                break
        info["max_nodes"] = max(info["max_nodes"], base[k]["dump"]["len"])
        ref = json.dumps({"log": base[k]["log"], "dump": base[k]["dump"]}, sort_keys=True)
        for (h, m), res in zip(runs[1:], results[1:]):
            got = json.dumps({"log": res[k]["log"], "dump": res[k]["dump"]}, sort_keys=True)
            if got != ref:
                which = "return values" if res[k]["log"] != base[k]["log"] else "diagram dump"
                kind = "differs_after_unrelated_calls" if m in ("noise", "similar") else "differs_across_processes"
                out.append(fail(kind, "building the same network with the same configuration gives identical ids, spaces, edges, motifs, depths, seeds and interventions in another "
                                "process, independently of the hash seed and of earlier unrelated calls", f"item {k} ({item['net']}), PYTHONHASHSEED 0 vs {h} ({m}): {which} differ; "
                                f"history {item['history']}", observed=res[k]["log"], expected=base[k]["log"]))
        if results[1][k].get("same_process_equal") is False:
            out.append(fail("differs_in_same_process", "building the same network twice in the same process gives identical results", f"item {k} ({item['net']}) history {item['history']}"))
    return out, info


def check(case):
    return check_with_info(case)[0]


def nontrivial(case, info):
    return info.get("max_nodes", 0) >= 3


if __name__ == "__main__" and "--child" in sys.argv:
    try:
        os.dup2(os.open(os.devnull, os.O_WRONLY), 2)
    except OSError:
        pass
    try:
        child_main()
    except BaseException:  # noqa: BLE001
        import traceback

        sys.stdout.write("\nCHILD-ERROR\n" + traceback.format_exc())
        sys.exit(2)
