"""C17 - results do not depend on how the network is written down.

Excluded (DESIGN.md 7/C17): isomorphism of PARTIALLY expanded greedy diagrams.  Equality of the three
parsers is outside biobalm; it is exercised here anyway through from_rules(format=...)."""
import random

import families
import oracle
from common import fail, import_biobalm, net_info, vertex_set_bits
from oracle import skey

BOUND = ("networks with <= 6(7) variables (exhaustive 1-variable, sampled 2-variable, seeded random) and hand-built networks with <= 9 variables; transformations: seeded "
         "renaming (permutation of the names / order-reversing prefixes / case change), reordering of declarations, 5 kinds of logically equivalent "
         "re-writings, negation encoding of 1-2 variables, bnet -> aeon -> sbml text round trips, renaming to names that need sanitising incl. names that "
         "collide after sanitising; fully expanded (bfs) diagrams compared node by node and edge by edge under the transformation, minimal trap spaces and "
         "attractor sets (build()) compared state by state; (declaration order) the same network (2-8 variables) built programmatically as a BooleanNetwork whose variables are "
         "DECLARED in another order (reversed / rotated / seeded shuffle), optionally with equivalent formulas or with one update function changed; both diagrams fully expanded, or one / both "
         "only partially (level-limited bfs, size-limited dfs, minimal-space expansion, root only): is_subgraph and is_isomorphic in both directions compared with the explicit "
         "comparison of node spaces and edges; (declaration order, attractors) motif-avoidant, multi-attractor and oscillator x marker networks with 2-7 variables declared in "
         "reversed / rotated / shuffled order (and renamed to names that sort differently after sanitising): attractor sets of both presentations compared state by state with "
         "each other and with the brute-force attractors; (free inputs) networks with identity inputs are additionally presented as .aeon text in which those inputs have no "
         "update function; (sanitising) the bad names include the four non-ASCII characters that case-fold to ASCII letters")
RULE = "non-trivial = the full diagram has at least 3 nodes or the network has a non-fixed-point attractor"
CASE_TIMEOUT = 60.0

KINDS = ["rename", "reorder", "equivalent", "negate", "format_aeon", "format_sbml", "sanitize", "format_aeon_free_inputs"]
# the last four contain the only non-ASCII characters that case-fold to ASCII letters (Kelvin sign, long s, dotless i, dotted capital I)
BAD_NAMES = ["a-b", "a_b", "a.b", "a b", "x{1}", "x_1_", "_x_1_", "é", "g+", "g-", "\u212a_ch", "Ca\u017f", "x\u0131", "\u0130z"]


ORDER_FIRST = families.norm("a, b; b, a; c, d | a; d, c; e, !e & c")  # the instance that revealed the shape
PARTIALS = [None, ["bfs", None, 0, None], ["bfs", None, 1, None], ["dfs", None, None, 3], ["min", None, None, False], ["succ", 0]]


def order_cases(seed, tier):
    """(declaration order): the same network built programmatically with the variables DECLARED in another order (reversed / rotated / seeded shuffle), optionally
    with logically equivalent formulas, or with one update function changed (a different network over the same names); both fully expanded, or one of them only partially."""
    def one(name, bnet, order, equivalent, partial_a, partial_b, edit, tseed):
        return {"net": name, "bnet": bnet, "kind": "declaration_order", "order": order, "equivalent": equivalent, "partial_a": partial_a, "partial_b": partial_b, "edit": edit, "tseed": tseed}

    for order in ("reverse", "rotate", "shuffle"):
        for equivalent in (False, True):
            yield one("order_first", ORDER_FIRST, order, equivalent, None, None, False, seed)
    for pb in PARTIALS[1:]:
        yield one("order_first", ORDER_FIRST, "reverse", False, None, pb, False, seed)
        yield one("order_first", ORDER_FIRST, "shuffle", True, pb, None, False, seed)
    yield one("order_first", ORDER_FIRST, "reverse", False, None, None, True, seed)
    for name, bnet in families.network_family(seed, tier, hand_max_vars=8):
        if len(families.variables(bnet)) < 2:
            continue
        rng = random.Random(f"{seed}-{name}-order")
        for k in range(3 if name in families.HAND else 2):
            order = ["reverse", "shuffle", "rotate"][k] if k < 3 else "shuffle"
            pa, pb = (None, None) if k == 0 else rng.choice([(None, rng.choice(PARTIALS[1:])), (rng.choice(PARTIALS[1:]), None), (rng.choice(PARTIALS), rng.choice(PARTIALS))])
            yield one(name, bnet, order, rng.random() < 0.4, pa, pb, k == 1 and rng.random() < 0.5, rng.randrange(1 << 30))


ORDER_ATTRACTORS_FIRST = families.norm("m, (m & !p) | (!m & p); t, (t & !p) | (!t & p); p, (t & p) | (!t & !p); a, a")  # the instance that revealed the shape


def order_attractor_cases(seed, tier):
    """shape added after the seeded-change review: networks in which the candidate search has real work to do - a non-minimal node with a motif-avoidant
    attractor, a minimal / unexpanded node with several complex attractors (families maa_nets, block_nets, neg_cycle_nets, maa_overlap_nets, cond nets) -
    presented with a declaration order that differs from the name order (programmatic BooleanNetwork: reversed / rotated / seeded shuffles; names that
    sort differently after sanitising): the ATTRACTORS (sets of build()) must be the same as for the text presentation and as the brute-force ones."""
    def one(name, bnet, order, tseed, equivalent=False):
        return {"net": name, "bnet": bnet, "kind": "declaration_order", "order": order, "equivalent": equivalent, "partial_a": None, "partial_b": None, "edit": False, "tseed": tseed,
                "attractors": True}

    nets = [("order_attractors_first", ORDER_ATTRACTORS_FIRST), ("maa_core", families.MAA_CORE), ("xnor2_src", families.union(families.XNOR2, families.sources(1)))]
    nets += families.maa_nets() + [(f"cond{k}", families.cond_net(k)) for k in range(8)]
    more = [x for four in zip(families.block_nets(seed, tier), families.neg_cycle_nets(seed, tier), families.maa_overlap_nets(seed, tier), families.marker_nets(seed, tier)) for x in four]
    done = set()
    for k, (name, bnet) in enumerate(nets + more):
        n = len(families.variables(bnet))
        if bnet in done or n > 7 or n < 2:
            continue
        done.add(bnet)
        rng = random.Random(f"{seed}-{name}-order-att")
        orders = ["reverse", "rotate", "shuffle", "shuffle"] if k < len(nets) else [rng.choice(["reverse", "rotate", "shuffle", "shuffle"])]
        for order in orders:
            yield one(name, bnet, order, rng.randrange(1 << 30), equivalent=rng.random() < 0.2)
        if k < len(nets) or rng.random() < 0.5:
            yield {"net": name, "bnet": bnet, "kind": "sanitize", "tseed": rng.randrange(1 << 30)}


def cases(seed, tier):
    yield from families.interleave((order_attractor_cases(seed, tier), 1), (order_cases(seed, tier), 6), (transform_cases(seed, tier), 18))


def transform_cases(seed, tier):
    for name, bnet in families.WEIRD_NAMES.items():
        for kind in KINDS:
            yield {"net": name, "bnet": bnet, "kind": kind, "tseed": seed}
    for name in ("D4", "doc_abc", "source_and"):  # names that collide after sanitising, several seeds
        for t in range(6):
            yield {"net": name, "bnet": families.HAND[name], "kind": "sanitize", "tseed": seed * 100 + t}
    for name, bnet in families.network_family(seed, tier, hand_max_vars=9):
        for k, kind in enumerate(KINDS):
            yield {"net": name, "bnet": bnet, "kind": kind, "tseed": random.Random(f"{seed}-{name}-{kind}").randrange(1 << 30)}


def observe(sd, net_for_sets=None):
    """Fully expand and collect spaces, edges, minimal trap spaces, attractor sets (as frozensets of state dict items)."""
    ok = sd.expand_bfs()
    spaces = {i: dict(sd.node_data(i)["space"]) for i in sd.node_ids()}
    edges = [(p, c) for p, c in sd.dag.edges]
    mins = [spaces[i] for i in sd.minimal_trap_spaces()]
    atts = []
    names = list(sd.network.variable_names())
    for i, sets in sd.expanded_attractor_sets().items():
        for vs in sets:
            atts.append(frozenset(tuple(sorted((v, int(m.to_named_dict()[v])) for v in names)) for m in vs.items()))
    return ok, spaces, edges, mins, atts


def programmatic_network(bnet: str, order: list):
    """biodivine_aeon.BooleanNetwork with the variables declared in `order` (bnet text would always be sorted alphabetically by the parser)."""
    import re

    from biodivine_aeon import BooleanNetwork

    rules = dict(families.parse_rules(bnet))
    bn = BooleanNetwork(list(order))
    for target in order:
        for r in sorted(set(re.findall(r"[A-Za-z_][A-Za-z0-9_]*", rules[target])) - {"true", "false"}):
            bn.add_regulation({"source": r, "target": target, "essential": False, "sign": None})
    for target in order:
        bn.set_update_function(target, rules[target])
    return bn


def check_declaration_order(case):
    """is_subgraph / is_isomorphic between diagrams of networks over the same names declared in different orders must agree with the explicit comparison of
    node spaces and edges (X is a subgraph of Y iff every node space of X is a node space of Y and every edge of X is an edge of Y)."""
    import_biobalm()
    from biobalm import SuccessionDiagram
    from common import run_step

    net = oracle.Net.from_bnet(case["bnet"])
    info = net_info(net)
    info["ref_nodes"] = len(net.full_sd()[1])
    out = []
    rng = random.Random(case["tseed"])
    names = sorted(net.names)
    if case["order"] == "reverse":
        order = list(reversed(names))
    elif case["order"] == "rotate":
        k = 1 + rng.randrange(max(1, len(names) - 1))
        order = names[k:] + names[:k]
    else:
        order = names[:]
        while order == names and len(names) > 1:
            rng.shuffle(order)
    text_b = case["bnet"]
    if case["edit"]:
        v, e = families.random_edit(rng, text_b)
        text_b = families.replace_rule(text_b, v, e)
    if case["equivalent"]:
        text_b = families.t_equivalent(text_b, rng.randrange(1 << 30))[0]
    A = SuccessionDiagram.from_rules(case["bnet"])
    bn_b = programmatic_network(text_b, order)
    # harness self-check: the programmatic network has the intended dynamics and declaration order
    live, ref_b = oracle.Net.from_bn(bn_b), oracle.Net.from_bnet(text_b)
    assert [bn_b.get_variable_name(v) for v in bn_b.variables()] == order, "harness: declaration order"
    for st in range(ref_b.N):
        d = ref_b.state_dict(st)
        assert all(ref_b.f(ref_b.idx[v], st) == live.f(live.idx[v], live.state_of(d)) for v in names), "harness: programmatic network has other dynamics"
    B = SuccessionDiagram(bn_b)
    for sd_name, partial in (("A", case["partial_a"]), ("B", case["partial_b"])):
        sd = A if sd_name == "A" else B
        _, r = run_step(sd, partial if partial is not None else ["bfs", None, None, None])
        if isinstance(r, dict):
            return out, info

    def sets(sd):
        key = {i: skey(sd.node_data(i)["space"]) for i in sd.node_ids()}
        return set(key.values()), {(key[p], key[c]) for p, c in sd.dag.edges}

    (na, ea), (nb, eb) = sets(A), sets(B)
    what = (f"A = from_rules(text), B = BooleanNetwork declared in the order {order}" + (", equivalent formulas" if case["equivalent"] else "") + (", one update function changed" if case["edit"] else "")
            + f"; A expanded by {case['partial_a'] or 'full bfs'} ({len(na)} nodes, {len(ea)} edges), B by {case['partial_b'] or 'full bfs'} ({len(nb)} nodes, {len(eb)} edges)")
    if not case["edit"] and case["partial_a"] is None and case["partial_b"] is None and (na, ea) != (nb, eb):
        out.append(fail("diagram_nodes_differ" if na != nb else "diagram_edges_differ", "reordering the declarations (and equivalent formulas) yields an isomorphic succession diagram", what,
                        observed=sorted(nb), expected=sorted(na)))
    for label, x, y, ref in (("A.is_subgraph(B)", A, B, na <= nb and ea <= eb), ("B.is_subgraph(A)", B, A, nb <= na and eb <= ea)):
        got = x.is_subgraph(y)
        if got != ref:
            out.append(fail("is_subgraph_differs_from_node_edge_sets", "is_subgraph holds exactly if every node space and every edge of the one diagram is in the other, however the variables are declared",
                            f"{label}: {what}", observed=got, expected=ref))
    if case.get("attractors") and not case["edit"] and case["partial_a"] is None and case["partial_b"] is None:
        # the attractors (complete sets) reported for the two presentations: equal to each other and to the brute-force ones
        attA, attB = observe(A)[4], observe(B)[4]
        ref_att = sorted(sorted(tuple(sorted(net.state_dict(st).items())) for st in net.states(a)) for a in net.attractors())
        if sorted(map(sorted, attA)) != sorted(map(sorted, attB)):
            out.append(fail("attractors_differ", "the same attractors however the variables are declared", what, observed=len(attB), expected=len(attA)))
        for label, att in (("text presentation", attA), (f"declaration order {order}", attB)):
            if sorted(map(sorted, att)) != ref_att:
                out.append(fail("attractors_differ_from_reference", "the attractors are the network's attractors", f"{label}: {what}", observed=len(att), expected=len(ref_att)))
    iso_ref = (na, ea) == (nb, eb)
    for label, x, y in (("A.is_isomorphic(B)", A, B), ("B.is_isomorphic(A)", B, A)):
        got = x.is_isomorphic(y)
        if got != iso_ref:
            out.append(fail("is_isomorphic_differs_from_node_edge_sets", "is_isomorphic holds exactly if the two diagrams have the same node spaces and edges, however the variables are declared",
                            f"{label}: {what}", observed=got, expected=iso_ref))
    return out, info


def check_with_info(case):
    if case["kind"] == "declaration_order":
        return check_declaration_order(case)
    import_biobalm()
    from biodivine_aeon import BooleanNetwork
    from biobalm import SuccessionDiagram
    from biobalm.petri_net_translation import sanitize_network_names

    net = oracle.Net.from_bnet(case["bnet"])
    info = net_info(net)
    info["ref_nodes"] = len(net.full_sd()[1])
    out = []
    kind = case["kind"]
    flips = []
    A = SuccessionDiagram.from_rules(case["bnet"])
    if kind in families.TRANSFORMS:
        text, mapping, flips = families.TRANSFORMS[kind](case["bnet"], case["tseed"])
        B = SuccessionDiagram.from_rules(text)
    elif kind == "format_aeon":
        bn = BooleanNetwork.from_bnet(case["bnet"])
        B = SuccessionDiagram.from_rules(bn.to_aeon(), format="aeon")
        mapping = {v: v for v in net.names}
    elif kind == "format_sbml":
        bn = BooleanNetwork.from_bnet(case["bnet"])
        B = SuccessionDiagram.from_rules(bn.to_sbml(), format="sbml")
        mapping = {v: v for v in net.names}
    elif kind == "format_aeon_free_inputs":
        # identity inputs (x, x) written the way .aeon / .sbml files usually write inputs: a variable WITHOUT an update function
        bn = BooleanNetwork.from_bnet(case["bnet"]).infer_valid_graph()
        ident = [v for i, v in enumerate(net.names) if all(net.f(i, s) == ((s >> i) & 1) for s in range(net.N))]
        keep = []
        for ln in bn.to_aeon().splitlines():
            w = ln.split()
            if any(ln.startswith(f"${v}:") for v in ident) or (len(w) == 3 and w[0] == w[2] and w[0] in ident):
                continue
            keep.append(ln)
        text = "\n".join(keep)
        try:
            declared = sorted(BooleanNetwork.from_aeon(text).variable_names()) if ident else None
        except Exception:
            declared = None
        if declared != sorted(net.names):
            text = bn.to_aeon()       # no identity input (or one nobody reads): the plain format case
        else:
            info["free_inputs"] = len(ident)
        B = SuccessionDiagram.from_rules(text, format="aeon")
        mapping = {v: v for v in net.names}
    else:  # sanitize
        bn = BooleanNetwork.from_bnet(case["bnet"])
        rng = random.Random(case["tseed"])
        bad = BAD_NAMES[:]
        rng.shuffle(bad)
        ids = list(bn.variables())
        old = [bn.get_variable_name(v) for v in ids]
        chosen = {}
        for j, v in enumerate(ids):
            if j < len(bad) and rng.random() < 0.8:
                try:
                    bn.set_variable_name(v, bad[j])
                    chosen[old[j]] = bad[j]
                except Exception:  # the name already exists
                    pass
        san = sanitize_network_names(bn)
        new = [san.get_variable_name(v) for v in ids]
        import re
        if len(set(new)) != len(new):
            out.append(fail("sanitized_names_collide", "name sanitization produces distinct names", observed=new))
        if any(not re.match("^[a-zA-Z0-9_]+$", x) for x in new):
            out.append(fail("sanitized_name_unsafe", "name sanitization produces solver-safe names", observed=new))
        mapping = dict(zip(old, new))
        # dynamics unchanged: same truth tables under the renaming (variable order may change)
        sn = oracle.Net.from_bn(san)
        for s in range(net.N):
            d = net.state_dict(s)
            t = sn.state_of({mapping[k]: v for k, v in d.items()})
            for i, v in enumerate(net.names):
                if net.f(i, s) != sn.f(sn.idx[mapping[v]], t):
                    out.append(fail("sanitization_changed_dynamics", "name sanitization leaves the dynamics unchanged", f"variable {v} state {d}"))
                    return out, info
        if out:
            return out, info
        B = SuccessionDiagram(san)
    inv = {v: k for k, v in mapping.items()}

    def back_space(sp):
        return {inv[k]: (1 - v if inv[k] in flips else v) for k, v in sp.items()}

    okA, spA, edA, minA, attA = observe(A)
    okB, spB, edB, minB, attB = observe(B)
    spB = {i: back_space(s) for i, s in spB.items()}
    minB = [back_space(s) for s in minB]
    attB = [frozenset(tuple(sorted(back_space(dict(st)).items())) for st in a) for a in attB]
    what = f"{kind} mapping {mapping} flipped {flips}"
    if sorted(map(skey, spA.values())) != sorted(map(skey, spB.values())):
        out.append(fail("diagram_nodes_differ", "the transformed network yields an isomorphic succession diagram (under the corresponding renaming/flipping of values)", what,
                        observed=sorted(map(skey, spB.values())), expected=sorted(map(skey, spA.values()))))
    eA = sorted((skey(spA[p]), skey(spA[c])) for p, c in edA)
    eB = sorted((skey(spB[p]), skey(spB[c])) for p, c in edB)
    if eA != eB:
        out.append(fail("diagram_edges_differ", "the transformed network yields an isomorphic succession diagram", what, observed=eB, expected=eA))
    if sorted(map(skey, minA)) != sorted(map(skey, minB)):
        out.append(fail("minimal_traps_differ", "the same minimal trap spaces", what, observed=sorted(map(skey, minB)), expected=sorted(map(skey, minA))))
    if sorted(map(sorted, attA)) != sorted(map(sorted, attB)):
        out.append(fail("attractors_differ", "the same attractors", what, observed=len(attB), expected=len(attA)))
    # and both agree with the reference
    ref_att = sorted(sorted(tuple(sorted(net.state_dict(s).items())) for s in net.states(a)) for a in net.attractors())
    if sorted(map(sorted, attA)) != ref_att:
        out.append(fail("attractors_differ_from_reference", "the attractors are the network's attractors", "original presentation", observed=len(attA), expected=len(ref_att)))
    if kind in ("rename", "reorder", "equivalent", "format_aeon", "format_sbml", "format_aeon_free_inputs") and not flips:
        # is_isomorphic works across networks over the same variable names
        if kind != "rename" and not (A.is_isomorphic(B) and B.is_isomorphic(A)):
            out.append(fail("is_isomorphic_false", "is_isomorphic holds between the two presentations", what))
    return out, info


def check(case):
    return check_with_info(case)[0]


def nontrivial(case, info):
    return info.get("ref_nodes", 0) >= 3 or info["complex"] >= 1
