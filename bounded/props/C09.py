"""C09 - the trap-space solver returns exactly the requested trap spaces."""
import random

import families
import oracle
from common import fail, import_biobalm, net_info, state_or_none
from oracle import maximal, minimal, skey

BOUND = ("all 1-variable and all 256 2-variable networks (thorough) / a seeded sample (quick), seeded random networks with 3-6(7) variables, hand-built "
         "networks with <= 7 variables; trappist on the BooleanNetwork, on its Petri net and on the Petri net restricted to a seeded subspace; problems "
         "min/max/fix x reverse_time x seeded ensure_subspace x 0-2 seeded avoid_subspaces (incl. the empty space) x optimize_source_variables "
         "(default / [] / true sources / seeded variable list) x solution_limit (None,0,1,2,3); compute_fixed_point_reduced_STG with seeded retained "
         "sets, ensure/avoid subspaces and limits; compared with brute-force enumeration of all 3^n subspaces")
RULE = "non-trivial = the reference answer of the trappist call or of the reduced-STG call is non-empty and the network has >= 2 variables"
CASE_TIMEOUT = 60.0


def cases(seed, tier):
    for name, bnet in families.network_family(seed, tier, hand_max_vars=7, include_2var=64 if tier == "quick" else 256):
        names = families.variables(bnet)
        for rnd in range(6 if tier == "quick" else 14):
            rng = random.Random(f"{seed}-{rnd}-{name}-c09")
            problem = rng.choice(["min", "max", "max", "fix"])
            ensure = families.random_space(rng, names, rng.choice([0, 0, 0.2, 0.4]))
            if problem == "max" and len(ensure) == len(names):
                ensure.pop(sorted(ensure)[0])
            avoid = [families.random_space(rng, names, rng.choice([0.3, 0.5, 0.0 if rnd == 5 else 0.3])) for _ in range(rng.choice([0, 0, 1, 2]))]
            via = rng.choice(["bn", "pn", "pn", "restricted"])
            restrict = families.random_space(rng, names, 0.3) if via == "restricted" else {}
            if via == "restricted":
                ensure = {k: v for k, v in ensure.items() if k not in restrict}
                avoid = [{k: v for k, v in a.items() if k not in restrict} for a in avoid]
            src = rng.choice(["default", "default", "none", "true", "list"])
            free = [v for v in names if v not in restrict]
            retained = families.random_space(rng, free, 0.5)
            yield {"net": name, "bnet": bnet, "problem": problem, "reverse": rng.random() < 0.35, "ensure": ensure, "avoid": avoid, "via": via,
                   "restrict": restrict, "sources": src, "source_list": sorted(rng.sample(free, rng.randint(0, min(2, len(free))))) if src == "list" else None,
                   "limit": rng.choice([None, None, None, 0, 1, 2, 3]), "retained": retained, "rlimit": rng.choice([None, None, 0, 1, 2])}


def check_with_info(case):
    import_biobalm()
    from biodivine_aeon import BooleanNetwork
    from biobalm.petri_net_translation import network_to_petrinet, restrict_petrinet_to_subspace
    from biobalm.trappist_core import compute_fixed_point_reduced_STG, trappist

    full = oracle.Net.from_bnet(case["bnet"])
    info = net_info(full)
    bn = BooleanNetwork.from_bnet(case["bnet"])
    pn = network_to_petrinet(bn)
    net = full
    if case["via"] == "bn":
        arg = bn
    elif case["via"] == "pn":
        arg = pn
    else:
        arg = pn = restrict_petrinet_to_subspace(pn, case["restrict"])
        net = full.restrict(case["restrict"])
    out = []
    n = net.n
    problem, rev, ensure, avoid = case["problem"], case["reverse"], case["ensure"], case["avoid"]
    true_sources = net.source_vars()
    if case["sources"] == "default":
        src_arg, must = None, true_sources
    elif case["sources"] == "none":
        src_arg, must = [], []
    elif case["sources"] == "true":
        src_arg, must = list(true_sources), true_sources
    else:
        src_arg = [v for v in case["source_list"] if v in net.names]
        must = src_arg
    info["ref_trappist"] = info["ref_deadlocks"] = 0
    if n > 0 and not (problem == "max" and len(ensure) >= n):
        fam = net.trap_family(reverse=rev, ensure=ensure, avoid=avoid, must_fix=must if problem == "max" else (), nontrivial=(problem == "max"))
        if problem == "min":
            ref = minimal(fam)
        elif problem == "max":
            ref = maximal(fam)
        else:
            ref = [t for t in fam if len(t) == n]
        info["ref_trappist"] = len(ref)
        res = trappist(arg, problem=problem, reverse_time=rev, solution_limit=case["limit"], ensure_subspace=dict(ensure), avoid_subspaces=[dict(a) for a in avoid],
                       optimize_source_variables=src_arg)
        o, e = [skey(t) for t in res], sorted(skey(t) for t in ref)
        what = f"trappist({case['via']}, problem={problem}, reverse_time={rev}, ensure={ensure}, avoid={avoid}, sources={src_arg}, limit={case['limit']})"
        if len(set(o)) != len(o):
            out.append(fail("trappist_duplicate", "without duplicates", what, observed=o))
        if case["limit"] is None:
            if sorted(o) != e:
                miss = [t for t in e if t not in o]
                kind = "trappist_omission" if miss else "trappist_wrong_space"
                out.append(fail(kind, f"exactly the requested ({problem}) trap spaces, without omissions", what, observed=sorted(o), expected=e))
        else:
            if any(t not in e for t in o):
                out.append(fail("trappist_wrong_space", "a solution limit only truncates the list", what, observed=sorted(o), expected=e))
            if len(o) != min(max(case["limit"], 0), len(e)):
                out.append(fail("trappist_limit_count", "a solution limit only truncates the list (min(limit, total) solutions)", what, observed=len(o),
                                expected=min(max(case["limit"], 0), len(e))))
    # reduced STG
    retained = {k: v for k, v in case["retained"].items() if k in net.names}
    ens = {k: v for k, v in ensure.items()}
    ref_states = net.reduced_stg_deadlocks(retained, ens, avoid)
    info["ref_deadlocks"] = len(ref_states)
    res = compute_fixed_point_reduced_STG(pn, dict(retained), ensure_subspace=dict(ens), avoid_subspaces=[dict(a) for a in avoid], solution_limit=case["rlimit"])
    what = f"compute_fixed_point_reduced_STG(retained={retained}, ensure={ens}, avoid={avoid}, limit={case['rlimit']})"
    if n > 0:
        obs = [state_or_none(net, s) for s in res]
        if any(s is None for s in obs):
            out.append(fail("reduced_stg_not_state", "the reduced-STG solver returns full states", what, observed=res))
        else:
            if len(set(obs)) != len(obs):
                out.append(fail("reduced_stg_duplicate", "without duplicates", what, observed=sorted(obs)))
            if case["rlimit"] is None:
                if sorted(obs) != sorted(ref_states):
                    kind = "reduced_stg_omission" if any(s not in obs for s in ref_states) else "reduced_stg_wrong_state"
                    out.append(fail(kind, "exactly the states in which no transition is enabled once every transition moving a retained variable away from its retained value has been removed",
                                    what, observed=sorted(obs), expected=sorted(ref_states)))
            else:
                if any(s not in ref_states for s in obs):
                    out.append(fail("reduced_stg_wrong_state", "a solution limit only truncates the list", what, observed=sorted(obs), expected=sorted(ref_states)))
                if len(obs) != min(max(case["rlimit"], 0), len(ref_states)):
                    out.append(fail("reduced_stg_limit_count", "a solution limit only truncates the list", what, observed=len(obs),
                                    expected=min(max(case["rlimit"], 0), len(ref_states))))
    return out, info


def check(case):
    return check_with_info(case)[0]


def nontrivial(case, info):
    return info["vars"] >= 2 and (info.get("ref_trappist", 0) + info.get("ref_deadlocks", 0)) >= 1
