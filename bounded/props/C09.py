"""C09 - the trap-space solver returns exactly the requested trap spaces."""
import random
import re

import families
import oracle
from common import fail, import_biobalm, net_info, state_or_none
from oracle import maximal, minimal, skey

BOUND = ("all 1-variable and all 256 2-variable networks (thorough) / a seeded sample (quick), seeded random networks with 3-6(7) variables, hand-built "
         "networks with <= 7 variables; trappist on the BooleanNetwork, on its Petri net and on the Petri net restricted to a seeded subspace; problems "
         "min/max/fix x reverse_time x seeded ensure_subspace x 0-2 seeded avoid_subspaces (incl. the empty space) x optimize_source_variables "
         "(default / [] / true sources / seeded variable list) x solution_limit (None,0,1,2,3); compute_fixed_point_reduced_STG with seeded retained "
         "sets, ensure/avoid subspaces and limits; compared with brute-force enumeration of all 3^n subspaces; (sequence) call sequences of <= 14 steps on ONE BooleanNetwork "
         "object (networks with 2-7 variables) in which 1-4 update functions are replaced in place (set_update_function, new inputs declared with ensure_regulation: other truth table over the "
         "same inputs, negation, an input dropped, other inputs, constant, identity) between trappist calls of all three problem kinds (systematic: min/max/fix before and after one, two, three "
         "edits, reversed time, an edit that is taken back, an edit before the first call; seeded: random parameters) - every answer compared with brute force on the network as it is at "
         "the time of the call, and, after the whole sequence, with the answers for freshly parsed copies")
RULE = "non-trivial = the reference answer of the trappist call or of the reduced-STG call is non-empty and the network has >= 2 variables"
CASE_TIMEOUT = 60.0


def sequence_cases(seed, tier):
    """Call sequences on ONE BooleanNetwork object with in-place edits of an update function between the calls."""
    first, edits = families.EDIT_FIRST
    allq = [["query", {"problem": p, "reverse": False, "ensure": {}, "avoid": [], "sources": "default", "source_list": None, "limit": None}] for p in ("min", "max", "fix")]
    yield {"kind": "sequence", "net": "edit_first", "bnet": first, "steps": allq + [["edit", v, e] for v, e in edits] + allq}
    for name, bnet in families.network_family(seed, tier, hand_max_vars=7, include_2var=16 if tier == "quick" else 64):
        if len(families.variables(bnet)) < 2:
            continue
        k = 8 if name in families.HAND else (3 if tier == "quick" else 6)
        for steps in families.edit_sequences(seed, name, bnet, k):
            yield {"kind": "sequence", "net": name, "bnet": bnet, "steps": steps}


def cases(seed, tier):
    yield from families.interleave((sequence_cases(seed, tier), 1), (single_cases(seed, tier), 8))


def single_cases(seed, tier):
    for name, bnet in families.network_family(seed, tier, hand_max_vars=7, include_2var=64 if tier == "quick" else 256):
        names = families.variables(bnet)
        for rnd in range(6 if tier == "quick" else 14):
            rng = random.Random(f"{seed}-{rnd}-{name}-c09")
            problem = rng.choice(["min", "max", "max", "fix"])
            ensure = families.random_space(rng, names, rng.choice([0, 0, 0.2, 0.4]))
            if problem == "max" and len(ensure) == len(names):
                ensure.pop(sorted(ensure)[0])
            avoid = [families.random_space(rng, names, rng.choice([0.3, 0.5, 0.0 if rnd == 5 else 0.3])) for _ in range(rng.choice([0, 0, 1, 2]))]
            via = rng.choice(["bn", "pn", "pn", "restricted"])
            restrict = families.random_space(rng, names, 0.3) if via == "restricted" else {}
            if via == "restricted":
                ensure = {k: v for k, v in ensure.items() if k not in restrict}
                avoid = [{k: v for k, v in a.items() if k not in restrict} for a in avoid]
            src = rng.choice(["default", "default", "none", "true", "list"])
            free = [v for v in names if v not in restrict]
            retained = families.random_space(rng, free, 0.5)
            yield {"net": name, "bnet": bnet, "problem": problem, "reverse": rng.random() < 0.35, "ensure": ensure, "avoid": avoid, "via": via,
                   "restrict": restrict, "sources": src, "source_list": sorted(rng.sample(free, rng.randint(0, min(2, len(free))))) if src == "list" else None,
                   "limit": rng.choice([None, None, None, 0, 1, 2, 3]), "retained": retained, "rlimit": rng.choice([None, None, 0, 1, 2])}


def trappist_reference(net, q):
    """(reference answer as a list of spaces or None if the call is outside the contract, optimize_source_variables argument)."""
    problem, rev, ensure, avoid = q["problem"], q["reverse"], q["ensure"], q["avoid"]
    true_sources = net.source_vars()
    if q["sources"] == "default":
        src_arg, must = None, true_sources
    elif q["sources"] == "none":
        src_arg, must = [], []
    elif q["sources"] == "true":
        src_arg, must = list(true_sources), true_sources
    else:
        src_arg = [v for v in q["source_list"] if v in net.names]
        must = src_arg
    n = net.n
    if n == 0 or (problem == "max" and len(ensure) >= n):
        return None, src_arg
    fam = net.trap_family(reverse=rev, ensure=ensure, avoid=avoid, must_fix=must if problem == "max" else (), nontrivial=(problem == "max"))
    if problem == "min":
        ref = minimal(fam)
    elif problem == "max":
        ref = maximal(fam)
    else:
        ref = [t for t in fam if len(t) == n]
    return ref, src_arg


def trappist_call(arg, q, src_arg):
    from biobalm.trappist_core import trappist

    return trappist(arg, problem=q["problem"], reverse_time=q["reverse"], solution_limit=q["limit"], ensure_subspace=dict(q["ensure"]),
                    avoid_subspaces=[dict(a) for a in q["avoid"]], optimize_source_variables=src_arg)


def answer_failures(res, ref, q, what):
    out = []
    problem = q["problem"]
    o, e = [skey(t) for t in res], sorted(skey(t) for t in ref)
    if len(set(o)) != len(o):
        out.append(fail("trappist_duplicate", "without duplicates", what, observed=o))
    if q["limit"] is None:
        if sorted(o) != e:
            miss = [t for t in e if t not in o]
            kind = "trappist_omission" if miss else "trappist_wrong_space"
            out.append(fail(kind, f"exactly the requested ({problem}) trap spaces, without omissions", what, observed=sorted(o), expected=e))
    else:
        if any(t not in e for t in o):
            out.append(fail("trappist_wrong_space", "a solution limit only truncates the list", what, observed=sorted(o), expected=e))
        if len(o) != min(max(q["limit"], 0), len(e)):
            out.append(fail("trappist_limit_count", "a solution limit only truncates the list (min(limit, total) solutions)", what, observed=len(o),
                            expected=min(max(q["limit"], 0), len(e))))
    return out


def trappist_compare(arg, net, q, via):
    """Run one trappist call on `arg` and compare with the brute-force answer for `net`: (failures, result, reference)."""
    ref, src_arg = trappist_reference(net, q)
    if ref is None:
        return [], [], []
    res = trappist_call(arg, q, src_arg)
    what = f"trappist({via}, problem={q['problem']}, reverse_time={q['reverse']}, ensure={q['ensure']}, avoid={q['avoid']}, sources={src_arg}, limit={q['limit']})"
    return answer_failures(res, ref, q, what), res, ref


def check_sequence(case):
    """One BooleanNetwork object, queried and edited in place (set_update_function; regulations are declared first where the new function has
    new inputs).  Every answer is compared with brute force on the CURRENT network and with the answer for a freshly parsed copy of it."""
    import_biobalm()
    from biodivine_aeon import BooleanNetwork

    text = case["bnet"]
    bn = BooleanNetwork.from_bnet(text)
    net = oracle.Net.from_bnet(text)
    info = net_info(net)
    info["ref_trappist"] = info["ref_deadlocks"] = 0
    edits = []
    answers = []  # (step index, edits so far, query, network text, reference network, failures, result) in call order
    # first the whole sequence on the one object (no other solver call in between: a call on another object could refresh hidden state)
    for k, step in enumerate(case["steps"]):
        if step[0] == "edit":
            _, v, e = step
            text = families.replace_rule(text, v, e)
            have = {bn.get_variable_name(x) for x in bn.predecessors(v)}
            for w in sorted(set(re.findall(r"[A-Za-z_][A-Za-z0-9_]*", e)) - {"true", "false"} - have):
                bn.ensure_regulation({"source": w, "target": v, "essential": False, "sign": None})
            bn.set_update_function(v, e)
            net = oracle.Net.from_bnet(text)
            # harness self-check: the edited object and the edited text are the same network
            live = oracle.Net.from_bn(bn)
            assert live.names == net.names and live.on == net.on, "harness: in-place edit and text edit disagree"
            edits.append([v, e])
            continue
        fs, res, ref = trappist_compare(bn, net, step[1], "same object")
        info["ref_trappist"] += len(ref)
        answers.append((k, list(edits), step[1], text, net, fs, res))
    # then the same queries, each on a freshly parsed copy of the network as it was at that point of the sequence
    out = []
    for k, eds, q, txt, ref_net, fs, res in answers:
        fresh_fs, fresh_res, _ = trappist_compare(BooleanNetwork.from_bnet(txt), ref_net, q, "fresh copy")
        where = f"step {k} after in-place edits {eds}: "
        if fs and not fresh_fs and eds:
            # the answer is wrong for the object that was edited in place and right for an equal, freshly parsed network
            f = fs[0]
            out.append(fail("trappist_stale_after_inplace_edit", "the answer describes the network as it is when the call is made (exactly the requested trap spaces of the given network)",
                            where + f["detail"] + f"; a freshly parsed copy of the same network gives {sorted(skey(t) for t in fresh_res)}", observed=f["observed"], expected=f["expected"]))
        else:
            for f in fs + fresh_fs:
                f["detail"] = where + f["detail"]
            out += fs + fresh_fs
        if out:
            break
    return out, info


def check_with_info(case):
    if case.get("kind") == "sequence":
        return check_sequence(case)
    import_biobalm()
    from biodivine_aeon import BooleanNetwork
    from biobalm.petri_net_translation import network_to_petrinet, restrict_petrinet_to_subspace
    from biobalm.trappist_core import compute_fixed_point_reduced_STG

    full = oracle.Net.from_bnet(case["bnet"])
    info = net_info(full)
    bn = BooleanNetwork.from_bnet(case["bnet"])
    pn = network_to_petrinet(bn)
    net = full
    if case["via"] == "bn":
        arg = bn
    elif case["via"] == "pn":
        arg = pn
    else:
        arg = pn = restrict_petrinet_to_subspace(pn, case["restrict"])
        net = full.restrict(case["restrict"])
    out = []
    n = net.n
    ensure, avoid = case["ensure"], case["avoid"]
    info["ref_trappist"] = info["ref_deadlocks"] = 0
    fs, res, ref = trappist_compare(arg, net, case, case["via"])
    out += fs
    info["ref_trappist"] = len(ref)
    # reduced STG
    retained = {k: v for k, v in case["retained"].items() if k in net.names}
    ens = {k: v for k, v in ensure.items()}
    ref_states = net.reduced_stg_deadlocks(retained, ens, avoid)
    info["ref_deadlocks"] = len(ref_states)
    res = compute_fixed_point_reduced_STG(pn, dict(retained), ensure_subspace=dict(ens), avoid_subspaces=[dict(a) for a in avoid], solution_limit=case["rlimit"])
    what = f"compute_fixed_point_reduced_STG(retained={retained}, ensure={ens}, avoid={avoid}, limit={case['rlimit']})"
    if n > 0:
        obs = [state_or_none(net, s) for s in res]
        if any(s is None for s in obs):
            out.append(fail("reduced_stg_not_state", "the reduced-STG solver returns full states", what, observed=res))
        else:
            if len(set(obs)) != len(obs):
                out.append(fail("reduced_stg_duplicate", "without duplicates", what, observed=sorted(obs)))
            if case["rlimit"] is None:
                if sorted(obs) != sorted(ref_states):
                    kind = "reduced_stg_omission" if any(s not in obs for s in ref_states) else "reduced_stg_wrong_state"
                    out.append(fail(kind, "exactly the states in which no transition is enabled once every transition moving a retained variable away from its retained value has been removed",
                                    what, observed=sorted(obs), expected=sorted(ref_states)))
            else:
                if any(s not in ref_states for s in obs):
                    out.append(fail("reduced_stg_wrong_state", "a solution limit only truncates the list", what, observed=sorted(obs), expected=sorted(ref_states)))
                if len(obs) != min(max(case["rlimit"], 0), len(ref_states)):
                    out.append(fail("reduced_stg_limit_count", "a solution limit only truncates the list", what, observed=len(obs),
                                    expected=min(max(case["rlimit"], 0), len(ref_states))))
    return out, info


def check(case):
    return check_with_info(case)[0]


def nontrivial(case, info):
    return info["vars"] >= 2 and (info.get("ref_trappist", 0) + info.get("ref_deadlocks", 0)) >= 1
