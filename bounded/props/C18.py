"""C18 - results compose across independent and input-conditioned sub-networks.

The third clause (agreement with an independent symbolic computation on published models) is an empirical
comparison (DESIGN.md 7/C18); here: the models of /repo/models/bbm-bnet-inputs-true with <= 12 variables
(<= 16 in the thorough tier) against biodivine_aeon.Attractors.attractors."""
import glob
import itertools
import os
import random

import families
import oracle
from common import REPO, STRATEGIES, fail, import_biobalm, make_sd, motifs, net_info, run_step, state_or_none, vertex_set_bits
from oracle import skey

BOUND = ("(union) disjoint unions of two networks with <= 4 variables each (hand-built parts: MAA core, latch, switch, toggle, sources, oscillator, D-inputs; seeded "
         "random parts), strategies build/bfs/dfs/block/scc/aseeds/min on the union, compared with the products of the brute-force minimal trap spaces and attractors "
         "of the parts; (inputs) networks with 1-3 source variables and <= 7 variables in total, every valuation: diagram of the network with the sources "
         "replaced by constants vs the part of the free-input bfs diagram below the node of that valuation (nodes, edges, motifs, attractor sets); "
         "(models) the published models with <= 12 (quick) / <= 16 (thorough) variables vs Attractors.attractors")
RULE = "non-trivial = union: both parts have >= 2 variables; inputs: the sub-diagram below the valuation has >= 2 nodes; models: always"
CASE_TIMEOUT = 120.0

PARTS = ["maa_core", "latch", "switch", "toggle", "sources2", "neg_cycle3", "xor", "doc_abc", "and3", "D4", "D2", "D3a", "D11", "D11_minroot", "source_and", "source_osc",
         "const_chain", "two_motifs_one_child", "multipath", "D5", "D9"]
WITH_SOURCES = ["source_and", "source_chain", "source_osc", "maa_source", "maa_gated", "doc_control", "D3a", "deep", "sources2", "sources3", "maa_2latch_source"]
UNION_STRATS = ["build", "bfs", "dfs", "block", "scc", "aseeds", "min"]


def models(max_vars):
    out = []
    for f in sorted(glob.glob(os.path.join(REPO, "models", "bbm-bnet-inputs-true", "*.bnet"))):
        with open(f) as fh:
            n = sum(1 for line in fh if line.strip() and not line.startswith("#") and not line.lower().startswith("targets"))
        if n <= max_vars:
            out.append((n, f))
    return [f for _, f in sorted(out)]


def cases(seed, tier):
    ms = models(12 if tier == "quick" else 16)
    rng = random.Random(f"{seed}-c18")
    pairs = [(a, b) for a in PARTS for b in PARTS if len(families.variables(families.HAND[a])) + len(families.variables(families.HAND[b])) <= 8]
    rng.shuffle(pairs)
    pairs = [("maa_core", "latch"), ("maa_core", "switch"), ("maa_core", "maa_core"), ("D4", "sources2")] + pairs
    k = 0
    rnd_i = 0
    while True:
        progressed = False
        if k < len(pairs):
            a, b = pairs[k]
            yield {"kind": "union", "a": families.HAND[a], "b": families.HAND[b], "names": [a, b], "strategy": UNION_STRATS[k % len(UNION_STRATS)]}
            progressed = True
        if k < len(WITH_SOURCES):
            yield {"kind": "inputs", "net": WITH_SOURCES[k], "bnet": families.HAND[WITH_SOURCES[k]]}
            progressed = True
        if k < len(ms):
            yield {"kind": "model", "path": os.path.relpath(ms[k], REPO)}
            progressed = True
        for _ in range(3):
            s = seed * 1_000_003 + rnd_i
            rnd_i += 1
            r = random.Random(s)
            na, nb = r.choice([2, 3, 3, 4]), r.choice([2, 3, 3, 4])
            yield {"kind": "union", "a": families.random_net(s, na), "b": families.random_net(s + 500_000, nb), "names": [f"rnd{s}", f"rnd{s + 500_000}"],
                   "strategy": r.choice(UNION_STRATS)}
            # random network with forced source variables
            nsrc = r.choice([1, 1, 2, 3])
            body = families.random_net(s + 7, r.choice([3, 4]), p_src=0.0)
            vs = families.variables(body)
            rules = families.parse_rules(body)
            srcs = [f"s{i}" for i in range(nsrc)]
            rules = [(v, f"({e}) {r.choice(['&', '|'])} {r.choice(['', '!'])}{r.choice(srcs)}" if r.random() < 0.6 else e) for v, e in rules]
            yield {"kind": "inputs", "net": f"rndsrc{s}", "bnet": families.to_bnet([(x, x) for x in srcs] + rules)}
        k += 1
        if rnd_i > (30_000 if tier == "quick" else 300_000):
            return


def attractor_sets(sd, net, ids=None):
    out = []
    for i in (sd.expanded_ids() if ids is None else ids):
        if not sd.node_data(i)["expanded"]:
            continue
        for vs in sd.node_attractor_sets(i, compute=True):
            out.append(vertex_set_bits(sd, net, vs))
    return out


def check_union(case, info):
    out = []
    A, B = oracle.Net.from_bnet(case["a"]), oracle.Net.from_bnet(case["b"])
    text = families.union(case["a"], case["b"])
    # variable names of the parts inside the union
    va, vb = families.variables(case["a"]), families.variables(case["b"])
    clash = set(va) & set(vb)
    mb = {v: (f"{v}_1" if clash else v) for v in vb}
    info.update({"vars": A.n + B.n, "vars_a": A.n, "vars_b": B.n, "attractors": len(A.attractors()) * len(B.attractors())})
    sd = make_sd(text)
    names = list(sd.network.variable_names())
    if sorted(names) != sorted(va + [mb[v] for v in vb]):
        raise AssertionError("harness: union naming")
    sd, r = run_step(sd, STRATEGIES[case["strategy"]])
    if isinstance(r, dict) or r is False:
        return out
    exp_min = sorted(skey({**ta, **{mb[k]: v for k, v in tb.items()}}) for ta in A.min_traps() for tb in B.min_traps())
    obs_min = sorted(skey(sd.node_data(i)["space"]) for i in sd.minimal_trap_spaces())
    if obs_min != exp_min:
        out.append(fail("union_minimal_traps", "for the disjoint union the minimal trap spaces are exactly the pairwise products of those of the parts", case["strategy"],
                        observed=obs_min, expected=exp_min))
    if case["strategy"] == "min":
        return out  # minimal-space expansion is not complete for motif-avoidant attractors

    def prod(a, b):
        return frozenset(tuple(sorted({**A.state_dict(x), **{mb[k]: v for k, v in B.state_dict(y).items()}}.items())) for x in A.states(a) for y in B.states(b))

    exp_att = sorted(sorted(prod(a, b)) for a in A.attractors() for b in B.attractors())
    obs_att = []
    for i in sd.expanded_ids():
        for vs in sd.node_attractor_sets(i, compute=True):
            obs_att.append(sorted(tuple(sorted((v, int(m.to_named_dict()[v])) for v in names)) for m in vs.items()))
    if sorted(obs_att) != exp_att:
        out.append(fail("union_attractors", "for the disjoint union the attractors are exactly the pairwise products of those of the parts", case["strategy"],
                        observed=len(obs_att), expected=len(exp_att)))
    return out


def check_inputs(case, info):
    out = []
    net = oracle.Net.from_bnet(case["bnet"])
    info.update(net_info(net))
    srcs = net.source_vars()
    info["sources"] = len(srcs)
    info["sub_nodes"] = 0
    if not srcs or len(srcs) > 4:
        return out
    free = make_sd(case["bnet"])
    free.expand_bfs()
    rules = families.parse_rules(case["bnet"])
    for vals in itertools.product((0, 1), repeat=len(srcs)):
        val = dict(zip(srcs, vals))
        fixed_text = families.to_bnet([(v, ("true" if val[v] else "false") if v in val else e) for v, e in rules])
        fx = make_sd(fixed_text)
        fx.expand_bfs()
        top = free.find_node(net.percolate(val))
        if top is None:
            out.append(fail("valuation_node_missing", "the free-input diagram has a node for every input valuation", f"{val}", expected=net.percolate(val)))
            continue
        below = {top}
        stack = [top]
        while stack:
            for c in free.dag.successors(stack.pop()):
                if c not in below:
                    below.add(c)
                    stack.append(c)
        info["sub_nodes"] = max(info["sub_nodes"], len(below))
        nodes_a = sorted(skey(free.node_data(i)["space"]) for i in below)
        nodes_b = sorted(skey(fx.node_data(i)["space"]) for i in fx.node_ids())
        if nodes_a != nodes_b:
            out.append(fail("input_subdiagram_nodes", "the diagram with the sources fixed is isomorphic to the part of the free-input diagram below the node for that valuation",
                            f"valuation {val}", observed=nodes_b, expected=nodes_a))
            continue
        ea = sorted((skey(free.node_data(p)["space"]), skey(free.node_data(c)["space"]), tuple(sorted(skey(m) for m in motifs(free, p, c)))) for p, c in free.dag.edges if p in below)
        eb = sorted((skey(fx.node_data(p)["space"]), skey(fx.node_data(c)["space"]), tuple(sorted(skey(m) for m in motifs(fx, p, c)))) for p, c in fx.dag.edges)
        if ea != eb:
            out.append(fail("input_subdiagram_edges", "the diagram with the sources fixed is isomorphic to the part of the free-input diagram below the node for that valuation",
                            f"valuation {val}", observed=eb, expected=ea))
        fnet = oracle.Net.from_bnet(fixed_text)
        sa = sorted(attractor_sets(free, net, sorted(below)))
        sb = sorted(attractor_sets(fx, fnet))
        if sa != sb:
            out.append(fail("input_subdiagram_attractors", "... with the same attractors", f"valuation {val}", observed=len(sb), expected=len(sa)))
        ref = sorted(a for a in net.attractors() if a & ~net.mask(val) == 0)
        if sa != ref:
            out.append(fail("input_attractors_reference", "the attractors below the valuation node are the attractors of the network with that input valuation", f"valuation {val}",
                            observed=len(sa), expected=len(ref)))
    return out


def check_model(case, info):
    import_biobalm()
    from biodivine_aeon import AsynchronousGraph, Attractors, BooleanNetwork
    from biobalm import SuccessionDiagram

    out = []
    path = os.path.join(REPO, case["path"])
    bn = BooleanNetwork.from_file(path)
    sd = SuccessionDiagram(bn)
    sd.build()
    names = list(sd.network.variable_names())
    info["vars"] = len(names)
    mine = []
    for i, sets in sd.expanded_attractor_sets().items():
        for vs in sets:
            mine.append(frozenset("".join(str(int(m.to_named_dict()[v])) for v in names) for m in vs.items()))
    g = AsynchronousGraph(bn.infer_valid_graph())
    theirs = []
    for a in Attractors.attractors(g):
        theirs.append(frozenset("".join(str(int(m.to_named_dict()[v])) for v in names) for m in a.vertices().items()))
    info["attractors"] = len(theirs)
    if sorted(map(sorted, mine)) != sorted(map(sorted, theirs)):
        out.append(fail("model_attractors_differ", "on published models the attractors found agree with an independent symbolic attractor computation", case["path"],
                        observed=len(mine), expected=len(theirs)))
    return out


def check_with_info(case):
    info = {"kind": case["kind"]}
    fn = {"union": check_union, "inputs": check_inputs, "model": check_model}[case["kind"]]
    return fn(case, info), info


def check(case):
    return check_with_info(case)[0]


def nontrivial(case, info):
    if info["kind"] == "union":
        return info.get("vars_a", 0) >= 2 and info.get("vars_b", 0) >= 2
    if info["kind"] == "inputs":
        return info.get("sub_nodes", 0) >= 2
    return True
