"""C18 - results compose across independent and input-conditioned sub-networks.

The third clause (agreement with an independent symbolic computation on published models) is an empirical
comparison (DESIGN.md 7/C18); here: the models of /repo/models/bbm-bnet-inputs-true with <= 12 variables
(<= 16 in the thorough tier) against biodivine_aeon.Attractors.attractors."""
import glob
import itertools
import os
import random

import families
import oracle
from common import REPO, STRATEGIES, fail, import_biobalm, make_sd, motifs, net_info, run_step, same_motifs_one_maa, state_or_none, vertex_set_bits
from oracle import skey

BOUND = ("(union) disjoint unions of two networks with <= 4 variables each (hand-built parts: MAA core, latch, switch, toggle, sources, oscillator, D-inputs; seeded "
         "random parts), strategies build/bfs/dfs/block/scc/aseeds/min on the union, compared with the products of the brute-force minimal trap spaces and attractors "
         "of the parts; (inputs) networks with 1-3 source variables and <= 7 variables in total, every valuation: diagram of the network with the sources "
         "replaced by constants vs the part of the free-input bfs diagram below the node of that valuation (nodes, edges, motifs, attractor sets); "
         "under the other complete strategies (build, block, scc, attractor-seed, dfs) the attractors reported inside every input valuation are compared with the "
         "brute-force attractors of that valuation and with the diagram of the network with the sources fixed, built by the same strategy; under build, block and dfs also "
         "node spaces, expansion flags and edges (with motifs) of the fixed-input diagram vs the part of the free-input diagram reachable from the valuation node (not under scc and "
         "attractor-seed expansion; not when constant propagation at the root creates further inputs, which block expansion fixes jointly with the declared ones - see "
         "findings/candidate_scc_emergent_inputs.py and findings/candidate_block_root_inputs_after_constants.py); "
         "(conditioned) input-conditioned modules with IDENTICAL stable motifs (clean under one input value, motif-avoidant under the other; escape-term and multiplexed variants, "
         "1-2 sources, with downstream / independent extra modules, seeded perturbations confirmed by brute force) and networks with <= 8 variables in which 1-3 further variables become "
         "inputs once an input is fixed (6 forms x 7 accompanying modules, seeded mixes) - as (inputs) cases under build and block first, then the other strategies; "
         "(blocks) block-structured networks with <= 8 variables - a motif-avoidant module (MAA core / 2-variable XNOR module) regulating a downstream bistable "
         "module (8 module shapes x 2 polarities), the same module under different input valuations (motif-avoidant for one value of a source, clean for the other; "
         "1-2 sources), optionally with an independent extra module, plus seeded compositions - as (inputs) cases under every strategy and as (union) cases "
         "with a small independent partner under every strategy; "
         "(models) the published models with <= 12 (quick) / <= 16 (thorough) variables vs Attractors.attractors")
BOUND += ("; (upstream) 7 hand-built networks in which the stable motifs of a block fix only latch variables while the negative feedback behind a motif-avoidant "
          "attractor lies upstream in the same block - as (union) cases with a small partner under every strategy and, with a source, as (inputs) cases")
RULE = "non-trivial = union: both parts have >= 2 variables; inputs: the sub-diagram below the valuation has >= 2 nodes; models: always"
CASE_TIMEOUT = 120.0

PARTS = ["maa_core", "latch", "switch", "toggle", "sources2", "neg_cycle3", "xor", "doc_abc", "and3", "D4", "D2", "D3a", "D11", "D11_minroot", "source_and", "source_osc",
         "const_chain", "two_motifs_one_child", "multipath", "D5", "D9"]
WITH_SOURCES = ["source_and", "source_chain", "source_osc", "maa_source", "maa_gated", "doc_control", "D3a", "deep", "sources2", "sources3", "maa_2latch_source"]
UNION_STRATS = ["build", "bfs", "dfs", "block", "scc", "aseeds", "min"]


def models(max_vars):
    out = []
    for f in sorted(glob.glob(os.path.join(REPO, "models", "bbm-bnet-inputs-true", "*.bnet"))):
        with open(f) as fh:
            n = sum(1 for line in fh if line.strip() and not line.startswith("#") and not line.lower().startswith("targets"))
        if n <= max_vars:
            out.append((n, f))
    return [f for _, f in sorted(out)]


INPUT_STRATS = ["build", "block", "scc", "aseeds", "dfs", "bfs"]
PARTNERS = ["switch", "sources1", "toggle", "latch", "osc", "maa_core"]


def shape_cases(seed, tier):
    """(blocks): block-structured networks under build / expand_block / expand_scc / attractor-seed expansion."""
    partners = {"switch": families.norm("M1, M2; M2, M1"), "sources1": families.norm("i0, i0"), "toggle": families.norm("T1, !T2; T2, !T1"),
                "latch": families.norm("L1, L1 | L2; L2, !L2 & !L1"), "osc": families.norm("O, !O"), "maa_core": families.rename(families.MAA_CORE, {"A": "E", "B": "F", "C": "G"})}
    for k, (name, bnet) in enumerate(families.block_nets(seed, tier)):
        n = len(families.variables(bnet))
        has_src = any(v == e for v, e in families.parse_rules(bnet))
        first = name in families.BLOCKS or name.startswith("cond")
        if has_src:
            for strat in (INPUT_STRATS if first else [INPUT_STRATS[k % 4], INPUT_STRATS[(k + 1) % 4]]):
                yield {"kind": "inputs", "net": name, "bnet": bnet, "strategy": strat}
        for j, strat in enumerate(["build", "block", "scc", "aseeds", "bfs", "dfs"] if first else [["build", "block", "scc", "aseeds"][k % 4]]):
            pn = PARTNERS[(k + j) % len(PARTNERS)]
            if n + len(families.variables(partners[pn])) <= 8:
                yield {"kind": "union", "a": bnet, "b": partners[pn], "names": [name, pn], "strategy": strat}
            elif n <= 7:
                yield {"kind": "union", "a": bnet, "b": partners["osc"], "names": [name, "osc"], "strategy": strat}


# strategies (besides bfs) under which the SHAPE of the fixed-input diagram is compared with the part below the valuation node.  expand_scc is not among them:
# it fixes input combinations jointly only at the root, so variables that become inputs below a valuation node are expanded one by one there but jointly in the
# fixed-input network (candidate finding /verif/findings/candidate_scc_emergent_inputs.py); attractor-seed expansion is greedy (no shape claim).
# Under build / block the comparison is skipped when the valuation node does not exist because constant propagation at the root created further inputs, which block
# expansion fixes jointly with the declared ones (observation /verif/findings/candidate_block_root_inputs_after_constants.py).
SHAPE_STRATS = ["build", "block", "dfs"]


def cond_cases(seed, tier):
    """(conditioned): input-conditioned modules with identical stable motifs (clean under one input value, motif-avoidant under the other) and networks in
    which further variables become inputs once an input is fixed - as (inputs) cases under build / expand_block first, then the other strategies."""
    def has_src(b):
        return any(v == e for v, e in families.parse_rules(b))

    smc = ((n, b) for n, b in families.same_motif_cond_nets(seed, tier, accept=same_motifs_one_maa) if has_src(b))
    for k, (name, bnet) in enumerate(families.interleave((smc, 1), (families.emergent_source_nets(seed, tier), 1))):
        first = name in ("smc_first", "emergent_first")
        for strat in (INPUT_STRATS if first else ["build", "block", ["scc", "aseeds", "dfs", "bfs"][k % 4]]):
            yield {"kind": "inputs", "net": name, "bnet": bnet, "strategy": strat}


UPSTREAM = {
    # a block whose stable motifs fix only latch variables (no negative cycle among them) while the negative feedback that drives a motif-avoidant attractor
    # lies upstream of them in the same block (added after the round-5 seeded-change review: C18-m7)
    "up_set": "A, !A & !B; B, !A & !B; C, C | (A & B)",
    "up_set2": "A, !A & !B; B, !A & !B; C, C | (A & B); D, D | (A & B)",
    "up_reset": "A, !A & !B; B, !A & !B; C, C & !(A & B)",
    "up_pair": "A, !A & !B; B, !A & !B; C, D | (A & B); D, C",
    "up_core": "A, (!A & !B) | C; B, (!A & !B) | C; C, A & B; D, D | (A & !B & !C & D)",
    "up_gated": "A, !A & !B; B, !A & !B; C, C | (A & B & s); s, s",
    "up_gated_neg": "A, !A & !B; B, !A & !B; C, C | (A & B) | !s; s, s",
}


def upstream_cases(seed, tier):
    partners = {"switch": families.norm("M1, M2; M2, M1"), "sources1": families.norm("i0, i0"), "toggle": families.norm("T1, !T2; T2, !T1"), "osc": families.norm("O, !O")}
    for k, (name, rules) in enumerate(UPSTREAM.items()):
        bnet = families.norm(rules)
        if "s, s" in rules:
            for strat in INPUT_STRATS:
                yield {"kind": "inputs", "net": name, "bnet": bnet, "strategy": strat}
        for j, strat in enumerate(["build", "block", "scc", "aseeds", "bfs", "dfs"]):
            pn = list(partners)[(k + j) % len(partners)]
            yield {"kind": "union", "a": bnet, "b": partners[pn], "names": [name, pn], "strategy": strat}


def cases(seed, tier):
    yield from families.interleave((upstream_cases(seed, tier), 1), (cond_cases(seed, tier), 2), (shape_cases(seed, tier), 2), (general_cases(seed, tier), 4))


def general_cases(seed, tier):
    ms = models(12 if tier == "quick" else 16)
    rng = random.Random(f"{seed}-c18")
    pairs = [(a, b) for a in PARTS for b in PARTS if len(families.variables(families.HAND[a])) + len(families.variables(families.HAND[b])) <= 8]
    rng.shuffle(pairs)
    pairs = [("maa_core", "latch"), ("maa_core", "switch"), ("maa_core", "maa_core"), ("D4", "sources2")] + pairs
    k = 0
    rnd_i = 0
    while True:
        progressed = False
        if k < len(pairs):
            a, b = pairs[k]
            yield {"kind": "union", "a": families.HAND[a], "b": families.HAND[b], "names": [a, b], "strategy": UNION_STRATS[k % len(UNION_STRATS)]}
            progressed = True
        if k < len(WITH_SOURCES):
            yield {"kind": "inputs", "net": WITH_SOURCES[k], "bnet": families.HAND[WITH_SOURCES[k]]}
            progressed = True
        if k < len(ms):
            yield {"kind": "model", "path": os.path.relpath(ms[k], REPO)}
            progressed = True
        for _ in range(3):
            s = seed * 1_000_003 + rnd_i
            rnd_i += 1
            r = random.Random(s)
            na, nb = r.choice([2, 3, 3, 4]), r.choice([2, 3, 3, 4])
            yield {"kind": "union", "a": families.random_net(s, na), "b": families.random_net(s + 500_000, nb), "names": [f"rnd{s}", f"rnd{s + 500_000}"],
                   "strategy": r.choice(UNION_STRATS)}
            # random network with forced source variables
            nsrc = r.choice([1, 1, 2, 3])
            body = families.random_net(s + 7, r.choice([3, 4]), p_src=0.0)
            vs = families.variables(body)
            rules = families.parse_rules(body)
            srcs = [f"s{i}" for i in range(nsrc)]
            rules = [(v, f"({e}) {r.choice(['&', '|'])} {r.choice(['', '!'])}{r.choice(srcs)}" if r.random() < 0.6 else e) for v, e in rules]
            yield {"kind": "inputs", "net": f"rndsrc{s}", "bnet": families.to_bnet([(x, x) for x in srcs] + rules)}
        k += 1
        if rnd_i > (30_000 if tier == "quick" else 300_000):
            return


def attractor_sets(sd, net, ids=None):
    out = []
    for i in (sd.expanded_ids() if ids is None else ids):
        if not sd.node_data(i)["expanded"]:
            continue
        for vs in sd.node_attractor_sets(i, compute=True):
            out.append(vertex_set_bits(sd, net, vs))
    return out


def check_union(case, info):
    out = []
    A, B = oracle.Net.from_bnet(case["a"]), oracle.Net.from_bnet(case["b"])
    text = families.union(case["a"], case["b"])
    # variable names of the parts inside the union
    va, vb = families.variables(case["a"]), families.variables(case["b"])
    clash = set(va) & set(vb)
    mb = {v: (f"{v}_1" if clash else v) for v in vb}
    info.update({"vars": A.n + B.n, "vars_a": A.n, "vars_b": B.n, "attractors": len(A.attractors()) * len(B.attractors())})
    sd = make_sd(text)
    names = list(sd.network.variable_names())
    if sorted(names) != sorted(va + [mb[v] for v in vb]):
        raise AssertionError("harness: union naming")
    sd, r = run_step(sd, STRATEGIES[case["strategy"]])
    if isinstance(r, dict) or r is False:
        return out
    exp_min = sorted(skey({**ta, **{mb[k]: v for k, v in tb.items()}}) for ta in A.min_traps() for tb in B.min_traps())
    obs_min = sorted(skey(sd.node_data(i)["space"]) for i in sd.minimal_trap_spaces())
    if obs_min != exp_min:
        out.append(fail("union_minimal_traps", "for the disjoint union the minimal trap spaces are exactly the pairwise products of those of the parts", case["strategy"],
                        observed=obs_min, expected=exp_min))
    if case["strategy"] == "min":
        return out  # minimal-space expansion is not complete for motif-avoidant attractors

    def prod(a, b):
        return frozenset(tuple(sorted({**A.state_dict(x), **{mb[k]: v for k, v in B.state_dict(y).items()}}.items())) for x in A.states(a) for y in B.states(b))

    exp_att = sorted(sorted(prod(a, b)) for a in A.attractors() for b in B.attractors())
    obs_att, where = [], []
    for i in sd.expanded_ids():
        for vs in sd.node_attractor_sets(i, compute=True):
            obs_att.append(sorted(tuple(sorted((v, int(m.to_named_dict()[v])) for v in names)) for m in vs.items()))
            where.append(i)
    if sorted(obs_att) != exp_att:
        uniq = sorted({tuple(x) for x in obs_att})
        if [list(x) for x in uniq] == exp_att and case["strategy"] == "scc":
            # the SET of attractors is right, some are reported more than once.  Exactly-once reporting is C01's clause; its finding D14 (source-SCC expansion:
            # a motif-avoidant attractor reported by two nodes that are not ancestor-related, every node correct for its own successors) is not repeated here.
            unet = oracle.Net.from_bnet(text)
            reports = [(i, unet.bits([unet.state_of(dict(st)) for st in att])) for i, att in zip(where, obs_att)]
            if not unexplained_scc_duplicates(sd, unet, reports):
                return out
        out.append(fail("union_attractors", "for the disjoint union the attractors are exactly the pairwise products of those of the parts", case["strategy"],
                        observed=len(obs_att), expected=len(exp_att)))
    return out


def unexplained_scc_duplicates(sd, net, reports):
    """Attractors reported more than once that are NOT an instance of finding D14 (see C01.classify_scc_duplicate)."""
    import networkx as nx

    from common import check_cache

    bad = []
    per_node_ok = not any(check_cache(sd, net, i, what=("seeds",)) for i in sd.expanded_ids())
    maas = set(net.motif_avoidant())
    for a in {a for _, a in reports}:
        nodes = [i for i, b in reports if b == a]
        if len(nodes) < 2:
            continue
        unrelated = all(y not in nx.descendants(sd.dag, x) and x not in nx.descendants(sd.dag, y) for k, x in enumerate(nodes) for y in nodes[k + 1:])
        if not (per_node_ok and a in maas and len(set(nodes)) == len(nodes) and unrelated):
            bad.append(a)
    return bad


def check_inputs(case, info):
    out = []
    net = oracle.Net.from_bnet(case["bnet"])
    info.update(net_info(net))
    srcs = net.source_vars()
    info["sources"] = len(srcs)
    info["sub_nodes"] = 0
    if not srcs or len(srcs) > 4:
        return out
    strat = case.get("strategy", "bfs")
    if strat != "bfs":
        return check_inputs_strategy(case, info, net, srcs, strat)
    free = make_sd(case["bnet"])
    free.expand_bfs()
    rules = families.parse_rules(case["bnet"])
    for vals in itertools.product((0, 1), repeat=len(srcs)):
        val = dict(zip(srcs, vals))
        fixed_text = families.to_bnet([(v, ("true" if val[v] else "false") if v in val else e) for v, e in rules])
        fx = make_sd(fixed_text)
        fx.expand_bfs()
        top = free.find_node(net.percolate(val))
        if top is None:
            out.append(fail("valuation_node_missing", "the free-input diagram has a node for every input valuation", f"{val}", expected=net.percolate(val)))
            continue
        below = {top}
        stack = [top]
        while stack:
            for c in free.dag.successors(stack.pop()):
                if c not in below:
                    below.add(c)
                    stack.append(c)
        info["sub_nodes"] = max(info["sub_nodes"], len(below))
        nodes_a = sorted(skey(free.node_data(i)["space"]) for i in below)
        nodes_b = sorted(skey(fx.node_data(i)["space"]) for i in fx.node_ids())
        if nodes_a != nodes_b:
            out.append(fail("input_subdiagram_nodes", "the diagram with the sources fixed is isomorphic to the part of the free-input diagram below the node for that valuation",
                            f"valuation {val}", observed=nodes_b, expected=nodes_a))
            continue
        ea = sorted((skey(free.node_data(p)["space"]), skey(free.node_data(c)["space"]), tuple(sorted(skey(m) for m in motifs(free, p, c)))) for p, c in free.dag.edges if p in below)
        eb = sorted((skey(fx.node_data(p)["space"]), skey(fx.node_data(c)["space"]), tuple(sorted(skey(m) for m in motifs(fx, p, c)))) for p, c in fx.dag.edges)
        if ea != eb:
            out.append(fail("input_subdiagram_edges", "the diagram with the sources fixed is isomorphic to the part of the free-input diagram below the node for that valuation",
                            f"valuation {val}", observed=eb, expected=ea))
        fnet = oracle.Net.from_bnet(fixed_text)
        sa = sorted(attractor_sets(free, net, sorted(below)))
        sb = sorted(attractor_sets(fx, fnet))
        if sa != sb:
            out.append(fail("input_subdiagram_attractors", "... with the same attractors", f"valuation {val}", observed=len(sb), expected=len(sa)))
        ref = sorted(a for a in net.attractors() if a & ~net.mask(val) == 0)
        if sa != ref:
            out.append(fail("input_attractors_reference", "the attractors below the valuation node are the attractors of the network with that input valuation", f"valuation {val}",
                            observed=len(sa), expected=len(ref)))
    return out


def check_inputs_strategy(case, info, net, srcs, strat):
    """Input conditioning under a strategy whose diagram need not contain the valuation nodes' full sub-diagrams (source shortcuts, block / SCC
    attachment): the ATTRACTORS reported inside every input valuation are those of the network with the inputs fixed to it (brute force), each
    exactly once, and the diagram of the fixed network built by the same strategy reports the same ones."""
    out = []
    free = make_sd(case["bnet"])
    free, r = run_step(free, STRATEGIES[strat])
    if isinstance(r, dict) or r is False:
        return out
    reports = []
    for i in free.expanded_ids():
        for vs in free.node_attractor_sets(i, compute=True):
            reports.append((i, vertex_set_bits(free, net, vs)))
    found = [a for _, a in reports]
    known_dup = set()
    if strat == "scc" and len(found) != len(set(found)):
        known_dup = {a for a in found if found.count(a) > 1} - set(unexplained_scc_duplicates(free, net, reports))  # D14, owned by C01
    rules = families.parse_rules(case["bnet"])
    for vals in itertools.product((0, 1), repeat=len(srcs)):
        val = dict(zip(srcs, vals))
        m = net.mask(val)
        ref = sorted(a for a in net.attractors() if a & ~m == 0)
        obs = sorted(a for a in found if a & ~m == 0)
        if known_dup:
            obs = sorted(set(a for a in obs if a in known_dup)) + [a for a in obs if a not in known_dup]
            obs.sort()
        info["sub_nodes"] = max(info["sub_nodes"], sum(1 for i in free.node_ids() if oracle.is_subspace(free.node_data(i)["space"], val)))
        if obs != ref:
            out.append(fail("input_attractors_reference", "the attractors reported inside an input valuation are the attractors of the network with that input valuation",
                            f"strategy {strat}, valuation {val}: {len([a for a in ref if a not in obs])} missing, {len(obs) - len(set(obs))} duplicated, "
                            f"{len([a for a in set(obs) if a not in ref])} spurious", observed=len(obs), expected=len(ref)))
        fixed_text = families.to_bnet([(v, ("true" if val[v] else "false") if v in val else e) for v, e in rules])
        fx = make_sd(fixed_text)
        fx, rf = run_step(fx, STRATEGIES[strat])
        if isinstance(rf, dict) or rf is False:
            continue
        if strat in SHAPE_STRATS:
            out += compare_shapes(free, fx, net, val, f"strategy {strat}, valuation {val}")
        fnet = oracle.Net.from_bnet(fixed_text)
        sb = sorted(attractor_sets(fx, fnet))
        if strat == "scc" and sb != obs and sorted(set(sb)) == sorted(set(obs)) == ref:
            continue  # same set, duplicates only (the fixed network's scc diagram can show D14 as well): exactly-once reporting is C01's clause
        if sb != obs:
            out.append(fail("input_subdiagram_attractors", "the diagram with the sources fixed has the same attractors as the free-input diagram inside that valuation",
                            f"strategy {strat}, valuation {val}", observed=len(sb), expected=len(obs)))
    return out


def sub_diagram(sd, top):
    below, stack = {top}, [top]
    while stack:
        for c in sd.dag.successors(stack.pop()):
            if c not in below:
                below.add(c)
                stack.append(c)
    return below


def compare_shapes(free, fx, net, val, where):
    """Node spaces, expansion flags and edges (with their stable motifs) of the fixed-input diagram vs the part of the free-input diagram reachable from the valuation node."""
    clause = "the diagram with the sources fixed is isomorphic to the part of the free-input diagram below the node for that valuation"
    top = free.find_node(net.percolate(val))
    if top is None:
        root_inputs = net.restrict(net.percolate({})).source_vars()
        if set(root_inputs) - set(val):
            # constant propagation at the root created further inputs: block expansion fixes them jointly with the declared inputs, so the node of a valuation of the
            # declared inputs alone need not exist (observation /verif/findings/candidate_block_root_inputs_after_constants.py); the shape clause is not applied here
            return []
        return [fail("valuation_node_missing", "the free-input diagram has a node for every input valuation", where, expected=net.percolate(val))]
    below = sub_diagram(free, top)
    nodes_a = sorted(skey(free.node_data(i)["space"]) for i in below)
    nodes_b = sorted(skey(fx.node_data(i)["space"]) for i in fx.node_ids())
    if nodes_a != nodes_b:
        return [fail("input_subdiagram_nodes", clause, where + f": {len(nodes_b)} nodes in the fixed-input diagram, {len(nodes_a)} below the valuation node", observed=nodes_b, expected=nodes_a)]
    out = []
    flags_a = sorted((skey(free.node_data(i)["space"]), bool(free.node_data(i)["expanded"])) for i in below)
    flags_b = sorted((skey(fx.node_data(i)["space"]), bool(fx.node_data(i)["expanded"])) for i in fx.node_ids())
    if flags_a != flags_b:
        out.append(fail("input_subdiagram_expanded", clause + " (same nodes expanded)", where, observed=flags_b, expected=flags_a))
    ea = sorted((skey(free.node_data(p)["space"]), skey(free.node_data(c)["space"]), tuple(sorted(skey(m) for m in motifs(free, p, c)))) for p, c in free.dag.edges if p in below)
    eb = sorted((skey(fx.node_data(p)["space"]), skey(fx.node_data(c)["space"]), tuple(sorted(skey(m) for m in motifs(fx, p, c)))) for p, c in fx.dag.edges)
    if ea != eb:
        out.append(fail("input_subdiagram_edges", clause, where, observed=eb, expected=ea))
    return out


def check_model(case, info):
    import_biobalm()
    from biodivine_aeon import AsynchronousGraph, Attractors, BooleanNetwork
    from biobalm import SuccessionDiagram

    out = []
    path = os.path.join(REPO, case["path"])
    bn = BooleanNetwork.from_file(path)
    sd = SuccessionDiagram(bn)
    sd.build()
    names = list(sd.network.variable_names())
    info["vars"] = len(names)
    mine = []
    for i, sets in sd.expanded_attractor_sets().items():
        for vs in sets:
            mine.append(frozenset("".join(str(int(m.to_named_dict()[v])) for v in names) for m in vs.items()))
    g = AsynchronousGraph(bn.infer_valid_graph())
    theirs = []
    for a in Attractors.attractors(g):
        theirs.append(frozenset("".join(str(int(m.to_named_dict()[v])) for v in names) for m in a.vertices().items()))
    info["attractors"] = len(theirs)
    if sorted(map(sorted, mine)) != sorted(map(sorted, theirs)):
        out.append(fail("model_attractors_differ", "on published models the attractors found agree with an independent symbolic attractor computation", case["path"],
                        observed=len(mine), expected=len(theirs)))
    return out


def check_with_info(case):
    info = {"kind": case["kind"]}
    fn = {"union": check_union, "inputs": check_inputs, "model": check_model}[case["kind"]]
    return fn(case, info), info


def check(case):
    return check_with_info(case)[0]


def nontrivial(case, info):
    if info["kind"] == "union":
        return info.get("vars_a", 0) >= 2 and info.get("vars_b", 0) >= 2
    if info["kind"] == "inputs":
        return info.get("sub_nodes", 0) >= 2
    return True
