"""C01 - reported attractor seeds correspond one-to-one to the network's attractors."""
import families
import oracle
from common import STRATEGIES, all_seeds, check_cache, check_global_seeds, fail, make_sd, net_info, run_step, same_motifs_one_maa

BOUND = ("networks with <= 6 variables (all 1-variable, a seeded sample of the 256 2-variable networks, seeded random 3-6 variable networks) plus "
         "hand-built networks with <= 10 variables (motif-avoidant core alone and composed with latches/switches/sources, the inputs of findings "
         "D1-D12) and block-structured networks with <= 8 variables (a motif-avoidant module regulating a downstream bistable module; the same module under "
         "different input valuations; with an independent extra module; seeded compositions) and input-conditioned modules with IDENTICAL stable motifs (the same module, same variables, same motifs, "
         "clean under one value of a source / bistable controller and motif-avoidant under the other: module x escape term x condition polarity x controller kind x controller names, with a downstream / "
         "independent extra module, under two sources, and seeded perturbations kept only if brute force confirms the shape); strategies build, block, bfs, dfs, scc, attractor-seed expansion with default configuration on a fresh diagram; seeds requested for every expanded node, optionally after requesting the candidates with the reduction options switched off")
RULE = "non-trivial = the network has at least two attractors or a non-fixed-point attractor"
CASE_TIMEOUT = 60.0
COMPLETE = ["build", "block", "bfs", "dfs", "scc", "aseeds"]
PRE = [[False, False], [True, False], [False, True]]  # (greedy_asp_minification, simulation_minification)


def cases(seed, tier):
    yield from families.interleave((net_cases(families.same_motif_cond_nets(seed, tier, accept=same_motifs_one_maa)), 2),
                                   (net_cases(families.block_nets(seed, tier)), 2), (net_cases(families.network_family(seed, tier, hand_max_vars=10)), 6))


def net_cases(nets):
    k = 0
    for name, bnet in nets:
        for strat in COMPLETE:
            yield {"net": name, "bnet": bnet, "strategy": strat, "pre": None}
            # same, but the candidates of every expanded node are requested first with non-default reduction options
            k += 1
            for pre in (PRE if name.startswith("tc_") else [PRE[k % len(PRE)]]):
                yield {"net": name, "bnet": bnet, "strategy": strat, "pre": pre}


def check_with_info(case):
    net = oracle.Net.from_bnet(case["bnet"])
    info = net_info(net)
    sd = make_sd(case["bnet"])
    sd, r = run_step(sd, STRATEGIES[case["strategy"]])
    info["nodes"] = len(sd)
    if isinstance(r, dict) and "raised" in r:
        return [], info  # a resource-limit error: the strategy did not report completion
    if r is False:
        return [fail("complete_strategy_returned_false", "a complete strategy with default settings reports completion", case["strategy"])], info
    out = []
    if case.get("pre"):
        for i in sd.expanded_ids():
            sd.node_attractor_candidates(i, compute=True, greedy_asp_minification=case["pre"][0], simulation_minification=case["pre"][1])
    triples = all_seeds(sd, net)
    for i in sd.expanded_ids():
        out += check_cache(sd, net, i, what=("seeds",))
    per_node_ok = not out
    glob = check_global_seeds(sd, net, triples, exactly_once=True)
    if case["strategy"] == "scc" and per_node_ok:
        glob = [classify_scc_duplicate(sd, net, triples, f) for f in glob]
    out += glob
    return out, info


def classify_scc_duplicate(sd, net, triples, f):
    """Finding D13 (unchanged tree, source-SCC expansion only): expand_scc expands a node along ONE of several independent source SCCs; a motif-avoidant
    attractor that the node then owns (correctly, relative to its own successors) also lies in - and is reported by - a node that is spatially inside it
    but was reached through another parent, i.e. is not its descendant.  Exactly that situation gets its own kind; any other duplicate keeps the general one."""
    import networkx as nx

    if f["kind"] != "attractor_reported_twice":
        return f
    maas = set(net.motif_avoidant())
    for a in net.attractors():
        nodes = [i for i, s, _ in triples if s is not None and net.attractor_of(s) == a]
        if len(nodes) < 2 or f["detail"] != f"attractor containing {net.state_dict(net.states(a)[0])}":
            continue
        unrelated = all(y not in nx.descendants(sd.dag, x) and x not in nx.descendants(sd.dag, y) for k, x in enumerate(nodes) for y in nodes[k + 1:])
        if a in maas and len(set(nodes)) == len(nodes) and unrelated:
            g = dict(f)
            g["kind"] = "maa_reported_twice_by_unrelated_scc_nodes"
            g["detail"] += f"; reported by nodes {nodes} (none a descendant of another; every node's seeds are correct for its own successors)"
            return g
    return f


def check(case):
    return check_with_info(case)[0]


def nontrivial(case, info):
    return info["attractors"] >= 2 or info["complex"] >= 1
