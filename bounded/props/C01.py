"""C01 - reported attractor seeds correspond one-to-one to the network's attractors."""
import families
import oracle
from common import STRATEGIES, all_seeds, check_cache, check_global_seeds, fail, make_sd, net_info, run_step

BOUND = ("networks with <= 6 variables (all 1-variable, a seeded sample of the 256 2-variable networks, seeded random 3-6 variable networks) plus "
         "hand-built networks with <= 10 variables (motif-avoidant core alone and composed with latches/switches/sources, the inputs of findings "
         "D1-D12); strategies build, block, bfs, dfs, scc, attractor-seed expansion with default configuration on a fresh diagram; seeds requested for every expanded node, optionally after requesting the candidates with the reduction options switched off")
RULE = "non-trivial = the network has at least two attractors or a non-fixed-point attractor"
CASE_TIMEOUT = 60.0
COMPLETE = ["build", "block", "bfs", "dfs", "scc", "aseeds"]
PRE = [[False, False], [True, False], [False, True]]  # (greedy_asp_minification, simulation_minification)


def cases(seed, tier):
    nets = families.network_family(seed, tier, hand_max_vars=10)
    k = 0
    for name, bnet in nets:
        for strat in COMPLETE:
            yield {"net": name, "bnet": bnet, "strategy": strat, "pre": None}
            # same, but the candidates of every expanded node are requested first with non-default reduction options
            k += 1
            for pre in (PRE if name.startswith("tc_") else [PRE[k % len(PRE)]]):
                yield {"net": name, "bnet": bnet, "strategy": strat, "pre": pre}


def check_with_info(case):
    net = oracle.Net.from_bnet(case["bnet"])
    info = net_info(net)
    sd = make_sd(case["bnet"])
    sd, r = run_step(sd, STRATEGIES[case["strategy"]])
    info["nodes"] = len(sd)
    if isinstance(r, dict) and "raised" in r:
        return [], info  # a resource-limit error: the strategy did not report completion
    if r is False:
        return [fail("complete_strategy_returned_false", "a complete strategy with default settings reports completion", case["strategy"])], info
    out = []
    if case.get("pre"):
        for i in sd.expanded_ids():
            sd.node_attractor_candidates(i, compute=True, greedy_asp_minification=case["pre"][0], simulation_minification=case["pre"][1])
    triples = all_seeds(sd, net)
    for i in sd.expanded_ids():
        out += check_cache(sd, net, i, what=("seeds",))
    out += check_global_seeds(sd, net, triples, exactly_once=True)
    return out, info


def check(case):
    return check_with_info(case)[0]


def nontrivial(case, info):
    return info["attractors"] >= 2 or info["complex"] >= 1
