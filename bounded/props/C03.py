"""C03 - every complete expansion strategy finds exactly the minimal trap spaces."""
import random

import families
import oracle
from common import check_structure, fail, make_sd, net_info, run_history, run_step
from oracle import skey

BOUND = ("networks with <= 6 variables (1-variable exhaustive, sampled 2-variable, seeded random 3-6 variables) and hand-built networks with <= 9 "
         "variables; (a) fresh diagram x {bfs, dfs, minimal-space, attractor-seed, block with source shortcuts on/off x MAA check on/off/exact, "
         "scc with MAA check on/off}; (b) a seeded plain-expansion prefix of <= 3 limited calls followed by unrestricted bfs/dfs/minimal-space/"
         "attractor-seed expansion; (c) a limited prefix followed by skip_remaining / skip_to_minimal on every stub / minimal-space expansion with "
         "skip_ignored; (d) networks whose diagram has depth >= 2 (unions of 2-3 bistable modules, nested switches, latch DAGs): an earlier partial expansion "
         "(level-limited bfs, stack-limited dfs, manual single-node expansions, minimal-space / attractor-seed expansion) followed by a bfs from the root whose level "
         "limit (0..2) is SHALLOWER than what is already expanded - whatever it returns, True claims completion; (e) 2-4 independent bistable modules (switch, toggle, "
         "set/reset pair) with an optional downstream latch / gated oscillator, and the networks of (d): a limited prefix (bfs with level limit 0..3, dfs with stack limit 0..4, "
         "size-limited bfs / minimal-space / attractor-seed expansion, manual single-node expansions) followed by dfs with stack limit 0..4 or by attractor-seed expansion "
         "with size limit 1..8 (seeded: 1..12) - True claims completion")
BOUND += ("; (f) block expansion with size limit 1..14 (source shortcuts on; MAA check on/off) on 10 hand-built networks with source variables at the root or "
          "appearing below a stable motif - True claims completion")
RULE = "non-trivial = the network has at least two minimal trap spaces or the full reference diagram has at least 3 nodes"
CASE_TIMEOUT = 60.0

FRESH = [["bfs", None, None, None], ["dfs", None, None, None], ["min", None, None, False], ["min", None, None, True], ["aseeds", None],
         ["block", True, None, True, False], ["block", False, None, True, False], ["block", True, None, False, False],
         ["block", False, None, False, False], ["block", True, None, True, True], ["scc", True], ["scc", False], ["build"]]
RESUME = [["bfs", None, None, None], ["dfs", None, None, None], ["min", None, None, False], ["aseeds", None]]
SKIPS = [["skip_remaining"], ["skip_all"], ["min", None, None, True]]


def shape_cases(seed, tier):
    """(d): deep diagrams x 'partial expansion, then a shallower level-limited bfs from the root'."""
    fixed = [(p, f) for p, f in families.shallower_histories() if f[1] is None]
    for k, (name, bnet) in enumerate(families.deep_nets(seed, tier)):
        names = families.variables(bnet)
        if name in families.DEEP:
            for pre, final in fixed:
                yield {"net": name, "bnet": bnet, "prefix": pre, "final": final}
        else:
            rng = random.Random(f"{seed}-{name}-c03-shallow")
            for pre, final in [fixed[k % len(fixed)], fixed[(k * 7 + 3) % len(fixed)]]:
                yield {"net": name, "bnet": bnet, "prefix": pre, "final": final}
            pre, final = families.random_shallower_history(rng, names)
            yield {"net": name, "bnet": bnet, "prefix": pre, "final": ["bfs", None, final[2], None]}


def limit_cases(seed, tier):
    """(e): several independent bistable modules x 'limited prefix, then a stack-limited dfs / a size-limited attractor-seed expansion'."""
    fixed = families.limited_dfs_histories() + families.limited_aseeds_histories()
    nets = families.interleave(((("limit", n, b) for n, b in families.limit_nets(seed, tier)), 1), ((("deep", n, b) for n, b in families.deep_nets(seed, tier)), 1))
    for k, (src, name, bnet) in enumerate(nets):
        names = families.variables(bnet)
        if src == "limit" and name in families.LIMIT_NETS:
            picks = fixed
        else:
            rng = random.Random(f"{seed}-{name}-c03-limited")
            picks = [fixed[(k * 11 + j * 37) % len(fixed)] for j in range(4)] + [families.random_limited_history(rng, names)]
        for pre, final in picks:
            yield {"net": name, "bnet": bnet, "prefix": pre, "final": final}


def block_limit_nets():
    """networks with source variables at the root, or variables that become sources only once a stable motif is fixed (w' = w & x below x=1)"""
    late = lambda k: "; ".join([f"w{i}, w{i} & x" for i in range(k)] + [f"v{i}, v{i} | !y" for i in range(k // 2)])
    out = [(f"switch_sources{k}", families.union(families.switch(), families.sources(k))) for k in (1, 2, 3)]
    out += [(f"switch_late{k}", families.norm("x, y; y, x; " + late(k))) for k in (1, 2, 3)]
    out += [("latch_sources2", families.union(families.latch(1), families.sources(2))),
            ("toggle_late", families.norm("x, !y; y, !x; w, w & x; v, v | y")),
            ("switch_late_src", families.norm("x, y; y, x; w, w & x; s, s")),
            ("two_switch_late", families.norm("x, y; y, x; a, b; b, a; w, w & x & a"))]
    return out


def block_limit_cases(seed, tier):
    """(f), added after the round-5 seeded-change review (C03-m7): block expansion with a size limit on networks where a node has k >= 1 source variables,
    so that the 2^k source combinations cross the limit at that node while every other node still fits - True claims completion. Fresh diagrams only:
    the property claims block expansion from the root of a fresh diagram (after a plain prefix it skips the expanded root and reports True: not claimed)."""
    for name, bnet in block_limit_nets():
        for lim in range(1, 15):
            for maa in (True, False):
                yield {"net": name, "bnet": bnet, "prefix": [], "final": ["block", maa, lim, True, False]}
            if lim % 3 == 0:
                yield {"net": name, "bnet": bnet, "prefix": [], "final": ["block", True, lim, False, False]}


def cases(seed, tier):
    yield from families.interleave((block_limit_cases(seed, tier), 1), (all_other_cases(seed, tier), 6))


def all_other_cases(seed, tier):
    # shape families interleaved 1:1:4 with the general family (the fixed cases of (d) are all handed out within the first ~1000 cases, those of (e) within ~4000)
    yield from families.interleave((shape_cases(seed, tier), 1), (limit_cases(seed, tier), 1), (general_cases(seed, tier), 4))


def general_cases(seed, tier):
    for name, bnet in families.network_family(seed, tier, hand_max_vars=9):
        names = families.variables(bnet)
        for f in FRESH:
            yield {"net": name, "bnet": bnet, "prefix": [], "final": f}
        for rnd in range(2 if tier == "quick" else 4):
            rng = random.Random(f"{seed}-{rnd}-{name}")
            pre = families.random_history(rng.randrange(1 << 30), names, rng.randint(1, 3), families.PLAIN_OPS)
            yield {"net": name, "bnet": bnet, "prefix": pre, "final": rng.choice(RESUME)}
            pre = families.random_history(rng.randrange(1 << 30), names, rng.randint(1, 2), families.PLAIN_OPS)
            yield {"net": name, "bnet": bnet, "prefix": pre, "final": rng.choice(SKIPS)}
        # (d) on the general family: a seeded partial expansion, then a level-limited bfs from the root
        rng = random.Random(f"{seed}-{name}-c03-shallow")
        pre, final = families.random_shallower_history(rng, names)
        yield {"net": name, "bnet": bnet, "prefix": pre, "final": ["bfs", None, final[2], None]}


def check_with_info(case):
    net = oracle.Net.from_bnet(case["bnet"])
    info = net_info(net)
    info["ref_nodes"] = len(net.full_sd()[1])
    sd = make_sd(case["bnet"])
    sd, _ = run_history(sd, case["prefix"])
    sd, r = run_step(sd, case["final"])
    info["result"] = r
    final = case["final"][0]
    completes = final in ("skip_remaining", "skip_all", "build") or r is True
    if isinstance(r, dict) or not completes:
        info["completed"] = False
        return [], info  # no completion reported: nothing is claimed
    info["completed"] = True
    out = []
    if final in ("skip_remaining", "skip_all") and list(sd.stub_ids()):
        out.append(fail("stub_after_skipping", "skipping the remaining nodes leaves no unexpanded node", observed=list(sd.stub_ids())))
    obs = sorted(skey(sd.node_data(i)["space"]) for i in sd.minimal_trap_spaces())
    exp = sorted(skey(t) for t in net.min_traps())
    missing = [t for t in exp if t not in obs]
    spurious = [t for t in obs if t not in exp]
    if missing:
        out.append(fail("minimal_trap_missing", "none missing", case["final"], observed=obs, expected=exp))
    if spurious:
        out.append(fail("minimal_trap_spurious", "none spurious", case["final"], observed=obs, expected=exp))
    if len(set(obs)) != len(obs):
        out.append(fail("minimal_trap_duplicated", "none duplicated", case["final"], observed=obs))
    # the structural invariants that make the answer meaningful (loose mode: shortcuts / attached nodes allowed)
    out += check_structure(sd, net, plain=False)
    return out, info


def check(case):
    return check_with_info(case)[0]


def nontrivial(case, info):
    return info.get("completed") and (info["min_traps"] >= 2 or info["ref_nodes"] >= 3)
