"""C13 - every operation terminates within bounded work.

A case that does not finish within CASE_TIMEOUT seconds of wall-clock time is reported by run.py as a
failure of kind "timeout" (this property only).  The generous limit stands in for the work bound: the
networks have <= 6(7) variables (<= 128 states, <= 2187 subspaces), for which every operation of
the current tree takes well below a second.

In addition the work of the one loop whose length is controlled by a configuration value - the simulation rounds of
compute_attractor_candidates - is COUNTED (instrumentation of run_simulation_minification, nothing is changed): the
round length is meant to double from 2**10 and the loop must stop once a round removes nothing and
round_length * #candidates exceeds B = minimum_simulation_budget * #variables of the percolated network, hence one candidate
computation may run at most  max(1, floor(log2 B) - 8) + #initial candidates  rounds.  A computation that starts one round
more is aborted and reported as `simulation_rounds_exceed_bound` (so a stalled loop is reported after seconds, not after the
wall limit).  The few cases with a large budget (several 100000) carry their own wall limit (`wall_limit`)."""
import math
import random

import families
from common import fail, import_biobalm, make_sd, run_history

BOUND = ("networks with <= 6(7) variables (exhaustive 1-variable, sampled 2-variable, seeded random) and hand-built networks with <= 9 variables incl. the two D3 "
         "inputs; seeded histories of <= 6 (quick) / <= 10 (thorough) arbitrary public calls (all expansion strategies with random limits and options, "
         "candidates/seeds/sets on expanded, unexpanded and skipped nodes with all option combinations incl. symbolic_fallback, skipping, reclaim, pickle, "
         "succession_control) under seeded configurations (thresholds/limits/budgets in {0,1,2,5,default}); wall-clock limit 20 s per case; plus 6 (quick) / 9 (thorough) "
         "cases with minimum_simulation_budget in 250000..700000 on nodes with a motif-avoidant attractor (own wall limit 120 s; they come first) and a family with budget * "
         "variables in 2**14..2**17 on motif-avoidant / multi-attractor nodes under every way of asking for candidates; in every case the simulation rounds of "
         "each candidate computation are counted against max(1, floor(log2(budget * variables)) - 8) + initial candidates")
RULE = "non-trivial = the history contains at least one attractor query or control call and at least one expansion or skipping call"
CASE_TIMEOUT = 20.0
TIMEOUT_IS_FAILURE = True

ALL_OPS = families.PLAIN_OPS + families.QUERY_OPS + families.QUERY_OPS + families.SKIP_OPS + families.HOUSE_OPS + families.SHORTCUT_OPS + ["control"]


LARGE_BUDGET_WALL = 120.0
# (network, prefix, budget, query): nodes with a motif-avoidant attractor and ONE surviving candidate, budget * variables >= 2**20
# budget * variables in [2**20, 2**21): the unchanged tree runs 12 rounds (2**10 .. 2**21 steps, about 7 s); nothing cheaper can tell whether rounds beyond
# 2**20 steps still make progress, so these cases come first (the smallest networks before the others) and are few
LARGE_BUDGET = [
    ("xnor2", [["succ", 0]], 600_000, ["seeds", 0, False]),
    ("maa_core", [["succ", 0]], 400_000, ["cands", 0, True, True]),
    ("maa_latch", [["bfs", None, None, None]], 360_000, ["build"]),
    ("xnor2", [["bfs", None, None, None]], 524_300, ["cands", 0, False, True]),
    ("maa_core", [["succ", 0]], 349_526, ["seeds", 0, False]),
    ("xnor2", [["succ", 0], ["pickle"]], 700_000, ["sets", 0]),
    ("core__switch_or", [["bfs", None, None, None]], 250_000, ["seeds", 0, False]),
    ("maa_gated", [["block", True, None, True, False]], 400_000, ["build"]),
    ("maa_source", [["scc", True]], 400_000, ["cands", 1, False, True]),
]
LARGE_QUICK = 6


def large_budget_nets():
    return dict(families.HAND, xnor2=families.XNOR2, **families.BLOCKS)


def budget_cases(seed, tier):
    """shape added after the seeded-change review: a RAISED minimum_simulation_budget (budget * variables between 2**14 and 2**17, mostly at the lower
    end: 0.1 - 0.5 s per case) on nodes whose candidates cannot be eliminated by simulation - an expanded node with a motif-avoidant attractor and, less
    often (slower), an unexpanded node with two or more complex attractors - under every way of asking for candidates (candidates / seeds / sets of
    every node in some order, build, attractor-seed expansion, block / scc expansion with the motif-avoidance check); whatever the budget, the counted
    rounds must stay within the bound."""
    maa = [("xnor2", families.XNOR2), ("maa_core", families.MAA_CORE)] + families.maa_nets() + list(families.BLOCKS.items()) + [(f"cond{k}", families.cond_net(k)) for k in range(8)]
    maa += [x for pair in zip(families.block_nets(seed, tier), families.maa_overlap_nets(seed, tier)) for x in pair]
    stubs = [(k, families.norm(v)) for k, v in {"switch_osc": "x, y; y, x; a, !a", "src_osc": "s, s; a, !a", "toggle_osc": "u, !w; w, !u; a, !a", "src_neg2": "s, s; a, !b; b, a",
                                               "switch_gated_osc": "x, y; y, x; a, !a | x"}.items()]
    # (cost) the queried nodes are expanded: an unexpanded node of these networks has many attractors, i.e. many candidates that survive every round
    prefixes = [[["succ", 0]], [["bfs", None, None, None]], [["dfs", None, None, None]], [["bfs", None, None, None], ["pickle"]], [["bfs", None, None, None], ["reclaim"]]]
    done = set()
    k = 0
    for name, bnet in maa:
        n = len(families.variables(bnet))
        if bnet in done or n > 5:  # (cost: one candidate computation that can tell a stalled loop from a finishing one runs >= 2**16 simulation steps, about 0.2 s)
            continue
        done.add(bnet)
        rng = random.Random(f"{seed}-{name}-c13-budget")
        for rnd in range(3 if k < 14 else 1):
            first = k < 2 and rnd == 0
            e = 15 if first else rng.choice([14, 14, 14, 14, 15, 15, 16])
            budget = int((2 ** e) * rng.uniform(1.05, 1.9) / (n if first else rng.choice([n, n, max(2, n - 2), 3]))) + 1
            ids = list(range(6))
            rng.shuffle(ids)
            op = rng.choice([["cands", True, True], ["seeds", False], ["sets"], ["cands", False, True]])
            every = [[op[0], i] + op[1:] for i in (range(6) if first else ids)]
            fin = every if first else rng.choice([every] * 5 + [[["build"]]] * 2 + [[["block", True, None, True, False]], [["scc", True]], [["block", True, None, True, True]]])
            pre = prefixes[0] if first else ([] if fin[0][0] in ("block", "scc") else rng.choice(prefixes[1:]))
            yield {"net": name, "bnet": bnet, "config": {"minimum_simulation_budget": budget}, "history": pre + fin, "wall_limit": 60.0}
        if k % 8 == 5:
            name, bnet = stubs[(k // 8) % len(stubs)]
            budget = int((2 ** 14) * 2 * rng.uniform(1.05, 1.5) / len(families.variables(bnet))) + 1
            yield {"net": name, "bnet": bnet, "config": {"minimum_simulation_budget": budget}, "history": [rng.choice([["cands", 0, True, True], ["seeds", 0, False], ["sets", 0]])],
                   "wall_limit": 60.0}
        k += 1


def cases(seed, tier):
    nets = large_budget_nets()
    for name, pre, budget, query in (LARGE_BUDGET[:LARGE_QUICK] if tier == "quick" else LARGE_BUDGET):
        yield {"net": name, "bnet": nets[name], "config": {"minimum_simulation_budget": budget}, "history": pre + [query], "wall_limit": LARGE_BUDGET_WALL}
    yield from families.interleave((budget_cases(seed, tier), 1), (general_cases(seed, tier), 80))


def general_cases(seed, tier):
    yield {"net": "D3a", "bnet": families.HAND["D3a"], "config": {}, "history": [["seeds", 0, False]]}
    yield {"net": "D3b", "bnet": families.HAND["D3b"], "config": {}, "history": [["scc", True], ["seeds", 0, False]]}
    yield {"net": "D3b", "bnet": families.HAND["D3b"], "config": {}, "history": [["seeds", 0, False], ["sets", 0]]}
    maxlen = 6 if tier == "quick" else 10
    for name, bnet in families.network_family(seed, tier, hand_max_vars=9):
        names = families.variables(bnet)
        for rnd in range(4 if tier == "quick" else 10):
            rng = random.Random(f"{seed}-{rnd}-{name}-c13")
            hist = []
            for _ in range(rng.randint(1, maxlen)):
                op = rng.choice(ALL_OPS)
                if op == "control":
                    hist.append(["control", families.random_space(rng, names, 0.4) or {names[0]: 1}, rng.choice(["internal", "all"]), rng.choice([None, 0, 1, 2]), [],
                                 rng.random() < 0.5, rng.random() < 0.3])
                else:
                    hist.append(families.random_step(rng, names, [op]))
            cfg = {}
            if rng.random() < 0.5:
                for key in ("retained_set_optimization_threshold", "attractor_candidates_limit", "minimum_simulation_budget", "nfvs_size_threshold", "max_motifs_per_node"):
                    if rng.random() < 0.35:
                        cfg[key] = rng.choice([0, 1, 2, 5])
            yield {"net": name, "bnet": bnet, "config": cfg, "history": hist}


class WorkBoundExceeded(BaseException):
    """Raised by the instrumentation to abort a candidate computation that starts more simulation rounds than the bound allows."""


STACK = []  # one frame per running compute_attractor_candidates call (they nest: block expansion queries sub-diagrams)
STATS = {"max_rounds": 0, "computations": 0, "rounds": 0}


def rounds_bound(budget: int, variables: int, candidates: int) -> int:
    """Round j runs 2**(9+j) steps, so from round T = max(1, floor(log2 B) - 8) on (B = budget * variables) a round that removes no candidate is the
    last one; at most `candidates` rounds remove something: no computation starts more than T + candidates rounds."""
    b = max(1, int(budget) * int(variables))
    return max(1, int(math.floor(math.log2(b))) - 8) + int(candidates)


def install_counters():
    """Wrap (never replace the logic of) the candidate computation and its simulation round so that rounds per computation are counted."""
    import_biobalm()
    import biobalm._sd_attractors.attractor_candidates as ac
    import biobalm.succession_diagram as sdm

    if getattr(ac, "_pyvc_c13_counters", False):
        return
    real_compute, real_round = sdm.compute_attractor_candidates, ac.run_simulation_minification

    def compute(*a, **k):
        frame = {"rounds": 0, "bound": None}
        STACK.append(frame)
        STATS["computations"] += 1
        try:
            return real_compute(*a, **k)
        finally:
            STACK.pop()
            STATS["max_rounds"] = max(STATS["max_rounds"], frame["rounds"])

    def one_round(*a, **k):
        if STACK:
            frame = STACK[-1]
            sd, node_id, graph, cands = a[0], a[1], a[2], a[3]
            if frame["bound"] is None:
                frame["args"] = (sd.config["minimum_simulation_budget"], len(graph.network_variables()), len(cands))
                frame["bound"] = rounds_bound(*frame["args"])
            frame["rounds"] += 1
            STATS["rounds"] += 1
            if frame["rounds"] > frame["bound"]:
                raise WorkBoundExceeded(f"node {node_id}: simulation round {frame['rounds']} started (round length {k.get('max_iterations')}, {len(cands)} candidates); "
                                        f"bound {frame['bound']} for (budget, variables, initial candidates) = {frame['args']}")
        return real_round(*a, **k)

    sdm.compute_attractor_candidates = compute
    ac.run_simulation_minification = one_round
    ac._pyvc_c13_counters = True


def check_with_info(case):
    install_counters()
    del STACK[:]
    STATS.update(max_rounds=0, computations=0, rounds=0)
    ops = [s[0] for s in case["history"]]
    sd = make_sd(case["bnet"], case["config"])
    try:
        sd, log = run_history(sd, case["history"])
    except WorkBoundExceeded as e:
        del STACK[:]
        return [fail("simulation_rounds_exceed_bound", "every operation finishes within bounded work: no loop runs without making progress (simulation rounds per candidate "
                     "computation are bounded by the configured budget)", str(e), observed=STATS["rounds"])], {"ops": ops, "limit_errors": 0, "max_rounds": STATS["max_rounds"]}
    return [], {"ops": ops, "limit_errors": sum(1 for r in log if isinstance(r, dict) and "raised" in r), "max_rounds": STATS["max_rounds"],
                "candidate_computations": STATS["computations"]}


def check(case):
    return check_with_info(case)[0]


def nontrivial(case, info):
    ops = set(info["ops"])
    return bool(ops & {"cands", "seeds", "sets", "control", "build"}) and bool(ops - {"cands", "seeds", "sets", "control", "reclaim", "pickle"})
