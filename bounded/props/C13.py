"""C13 - every operation terminates within bounded work.

A case that does not finish within CASE_TIMEOUT seconds of wall-clock time is reported by run.py as a
failure of kind "timeout" (this property only).  The generous limit stands in for the work bound: the
networks have <= 6(7) variables (<= 128 states, <= 2187 subspaces), for which every operation of
the current tree takes well below a second."""
import random

import families
from common import make_sd, run_history

BOUND = ("networks with <= 6(7) variables (exhaustive 1-variable, sampled 2-variable, seeded random) and hand-built networks with <= 9 variables incl. the two D3 "
         "inputs; seeded histories of <= 6 (quick) / <= 10 (thorough) arbitrary public calls (all expansion strategies with random limits and options, "
         "candidates/seeds/sets on expanded, unexpanded and skipped nodes with all option combinations incl. symbolic_fallback, skipping, reclaim, pickle, "
         "succession_control) under seeded configurations (thresholds/limits/budgets in {0,1,2,5,default}); wall-clock limit 20 s per case")
RULE = "non-trivial = the history contains at least one attractor query or control call and at least one expansion or skipping call"
CASE_TIMEOUT = 20.0
TIMEOUT_IS_FAILURE = True

ALL_OPS = families.PLAIN_OPS + families.QUERY_OPS + families.QUERY_OPS + families.SKIP_OPS + families.HOUSE_OPS + families.SHORTCUT_OPS + ["control"]


def cases(seed, tier):
    yield {"net": "D3a", "bnet": families.HAND["D3a"], "config": {}, "history": [["seeds", 0, False]]}
    yield {"net": "D3b", "bnet": families.HAND["D3b"], "config": {}, "history": [["scc", True], ["seeds", 0, False]]}
    yield {"net": "D3b", "bnet": families.HAND["D3b"], "config": {}, "history": [["seeds", 0, False], ["sets", 0]]}
    maxlen = 6 if tier == "quick" else 10
    for name, bnet in families.network_family(seed, tier, hand_max_vars=9):
        names = families.variables(bnet)
        for rnd in range(4 if tier == "quick" else 10):
            rng = random.Random(f"{seed}-{rnd}-{name}-c13")
            hist = []
            for _ in range(rng.randint(1, maxlen)):
                op = rng.choice(ALL_OPS)
                if op == "control":
                    hist.append(["control", families.random_space(rng, names, 0.4) or {names[0]: 1}, rng.choice(["internal", "all"]), rng.choice([None, 0, 1, 2]), [],
                                 rng.random() < 0.5, rng.random() < 0.3])
                else:
                    hist.append(families.random_step(rng, names, [op]))
            cfg = {}
            if rng.random() < 0.5:
                for key in ("retained_set_optimization_threshold", "attractor_candidates_limit", "minimum_simulation_budget", "nfvs_size_threshold", "max_motifs_per_node"):
                    if rng.random() < 0.35:
                        cfg[key] = rng.choice([0, 1, 2, 5])
            yield {"net": name, "bnet": bnet, "config": cfg, "history": hist}


def check_with_info(case):
    sd = make_sd(case["bnet"], case["config"])
    sd, log = run_history(sd, case["history"])
    ops = [s[0] for s in case["history"]]
    return [], {"ops": ops, "limit_errors": sum(1 for r in log if isinstance(r, dict) and "raised" in r)}


def check(case):
    return check_with_info(case)[0]


def nontrivial(case, info):
    ops = set(info["ops"])
    return bool(ops & {"cands", "seeds", "sets", "control", "build"}) and bool(ops - {"cands", "seeds", "sets", "control", "reclaim", "pickle"})
