"""C13 - every operation terminates within bounded work.

A case that does not finish within CASE_TIMEOUT seconds of wall-clock time is reported by run.py as a
failure of kind "timeout" (this property only).  The generous limit stands in for the work bound: the
networks have <= 6(7) variables (<= 128 states, <= 2187 subspaces), for which every operation of
the current tree takes well below a second.

In addition the work of the one loop whose length is controlled by a configuration value - the simulation rounds of
compute_attractor_candidates - is COUNTED (instrumentation of run_simulation_minification, nothing is changed): the
round length is meant to double from 2**10 and the loop must stop once a round removes nothing and
round_length * #candidates exceeds B = minimum_simulation_budget * #variables of the percolated network, hence one candidate
computation may run at most  max(1, floor(log2 B) - 8) + #initial candidates + 2  rounds.  A computation that starts one round
more is aborted and reported as `simulation_rounds_exceed_bound` (so a stalled loop is reported after seconds, not after the
wall limit).  The few cases with a large budget (several 100000) carry their own wall limit (`wall_limit`)."""
import math
import random

import families
from common import fail, import_biobalm, make_sd, run_history

BOUND = ("networks with <= 6(7) variables (exhaustive 1-variable, sampled 2-variable, seeded random) and hand-built networks with <= 9 variables incl. the two D3 "
         "inputs; seeded histories of <= 6 (quick) / <= 10 (thorough) arbitrary public calls (all expansion strategies with random limits and options, "
         "candidates/seeds/sets on expanded, unexpanded and skipped nodes with all option combinations incl. symbolic_fallback, skipping, reclaim, pickle, "
         "succession_control) under seeded configurations (thresholds/limits/budgets in {0,1,2,5,default}); wall-clock limit 20 s per case; plus 3 (quick) / 7 (thorough) "
         "cases with minimum_simulation_budget in 350000..600000 on nodes with a motif-avoidant attractor (own wall limit 120 s); in every case the simulation rounds of "
         "each candidate computation are counted against max(1, floor(log2(budget * variables)) - 8) + initial candidates + 2")
RULE = "non-trivial = the history contains at least one attractor query or control call and at least one expansion or skipping call"
CASE_TIMEOUT = 20.0
TIMEOUT_IS_FAILURE = True

ALL_OPS = families.PLAIN_OPS + families.QUERY_OPS + families.QUERY_OPS + families.SKIP_OPS + families.HOUSE_OPS + families.SHORTCUT_OPS + ["control"]


LARGE_BUDGET_WALL = 120.0
# (network, prefix, budget, query): nodes with a motif-avoidant attractor and ONE surviving candidate, budget * variables >= 2**20
LARGE_BUDGET = [
    ("maa_core", [["succ", 0]], 400_000, ["cands", 0, True, True]),
    ("xnor2", [["succ", 0]], 600_000, ["seeds", 0, False]),
    ("maa_latch", [["bfs", None, None, None]], 360_000, ["build"]),
    ("core__switch_or", [["bfs", None, None, None]], 250_000, ["seeds", 0, False]),
    ("maa_core", [["succ", 0]], 349_526, ["seeds", 0, False]),
    ("maa_gated", [["block", True, None, True, False]], 400_000, ["build"]),
    ("maa_source", [["scc", True]], 400_000, ["cands", 1, False, True]),
]


def large_budget_nets():
    return dict(families.HAND, xnor2=families.XNOR2, **families.BLOCKS)


def cases(seed, tier):
    nets = large_budget_nets()
    for name, pre, budget, query in (LARGE_BUDGET[:3] if tier == "quick" else LARGE_BUDGET):
        yield {"net": name, "bnet": nets[name], "config": {"minimum_simulation_budget": budget}, "history": pre + [query], "wall_limit": LARGE_BUDGET_WALL}
    yield {"net": "D3a", "bnet": families.HAND["D3a"], "config": {}, "history": [["seeds", 0, False]]}
    yield {"net": "D3b", "bnet": families.HAND["D3b"], "config": {}, "history": [["scc", True], ["seeds", 0, False]]}
    yield {"net": "D3b", "bnet": families.HAND["D3b"], "config": {}, "history": [["seeds", 0, False], ["sets", 0]]}
    maxlen = 6 if tier == "quick" else 10
    for name, bnet in families.network_family(seed, tier, hand_max_vars=9):
        names = families.variables(bnet)
        for rnd in range(4 if tier == "quick" else 10):
            rng = random.Random(f"{seed}-{rnd}-{name}-c13")
            hist = []
            for _ in range(rng.randint(1, maxlen)):
                op = rng.choice(ALL_OPS)
                if op == "control":
                    hist.append(["control", families.random_space(rng, names, 0.4) or {names[0]: 1}, rng.choice(["internal", "all"]), rng.choice([None, 0, 1, 2]), [],
                                 rng.random() < 0.5, rng.random() < 0.3])
                else:
                    hist.append(families.random_step(rng, names, [op]))
            cfg = {}
            if rng.random() < 0.5:
                for key in ("retained_set_optimization_threshold", "attractor_candidates_limit", "minimum_simulation_budget", "nfvs_size_threshold", "max_motifs_per_node"):
                    if rng.random() < 0.35:
                        cfg[key] = rng.choice([0, 1, 2, 5])
            yield {"net": name, "bnet": bnet, "config": cfg, "history": hist}


class WorkBoundExceeded(BaseException):
    """Raised by the instrumentation to abort a candidate computation that starts more simulation rounds than the bound allows."""


STACK = []  # one frame per running compute_attractor_candidates call (they nest: block expansion queries sub-diagrams)
STATS = {"max_rounds": 0, "computations": 0, "rounds": 0}


def rounds_bound(budget: int, variables: int, candidates: int) -> int:
    b = max(1, int(budget) * int(variables))
    return max(1, int(math.floor(math.log2(b))) - 8) + int(candidates) + 2


def install_counters():
    """Wrap (never replace the logic of) the candidate computation and its simulation round so that rounds per computation are counted."""
    import_biobalm()
    import biobalm._sd_attractors.attractor_candidates as ac
    import biobalm.succession_diagram as sdm

    if getattr(ac, "_pyvc_c13_counters", False):
        return
    real_compute, real_round = sdm.compute_attractor_candidates, ac.run_simulation_minification

    def compute(*a, **k):
        frame = {"rounds": 0, "bound": None}
        STACK.append(frame)
        STATS["computations"] += 1
        try:
            return real_compute(*a, **k)
        finally:
            STACK.pop()
            STATS["max_rounds"] = max(STATS["max_rounds"], frame["rounds"])

    def one_round(*a, **k):
        if STACK:
            frame = STACK[-1]
            sd, node_id, graph, cands = a[0], a[1], a[2], a[3]
            if frame["bound"] is None:
                frame["args"] = (sd.config["minimum_simulation_budget"], len(graph.network_variables()), len(cands))
                frame["bound"] = rounds_bound(*frame["args"])
            frame["rounds"] += 1
            STATS["rounds"] += 1
            if frame["rounds"] > frame["bound"]:
                raise WorkBoundExceeded(f"node {node_id}: simulation round {frame['rounds']} started (round length {k.get('max_iterations')}, {len(cands)} candidates); "
                                        f"bound {frame['bound']} for (budget, variables, initial candidates) = {frame['args']}")
        return real_round(*a, **k)

    sdm.compute_attractor_candidates = compute
    ac.run_simulation_minification = one_round
    ac._pyvc_c13_counters = True


def check_with_info(case):
    install_counters()
    del STACK[:]
    STATS.update(max_rounds=0, computations=0, rounds=0)
    ops = [s[0] for s in case["history"]]
    sd = make_sd(case["bnet"], case["config"])
    try:
        sd, log = run_history(sd, case["history"])
    except WorkBoundExceeded as e:
        del STACK[:]
        return [fail("simulation_rounds_exceed_bound", "every operation finishes within bounded work: no loop runs without making progress (simulation rounds per candidate "
                     "computation are bounded by the configured budget)", str(e), observed=STATS["rounds"])], {"ops": ops, "limit_errors": 0, "max_rounds": STATS["max_rounds"]}
    return [], {"ops": ops, "limit_errors": sum(1 for r in log if isinstance(r, dict) and "raised" in r), "max_rounds": STATS["max_rounds"],
                "candidate_computations": STATS["computations"]}


def check(case):
    return check_with_info(case)[0]


def nontrivial(case, info):
    ops = set(info["ops"])
    return bool(ops & {"cands", "seeds", "sets", "control", "build"}) and bool(ops - {"cands", "seeds", "sets", "control", "reclaim", "pickle"})
