"""C02 - a fully expanded diagram is exactly the hierarchy of percolated trap spaces."""
import families
import oracle
from common import STRATEGIES, check_structure, fail, make_sd, net_info, run_step
from oracle import skey

BOUND = ("all 1-variable networks, all 256 (thorough) / a seeded sample (quick) of 2-variable networks, seeded random networks with 3-6 variables "
         "(constants, sources, self-loops, non-monotonic functions), hand-built networks with <= 9 variables; full expansion by expand_bfs() and "
         "expand_dfs() on a fresh diagram, compared node by node, edge by edge and motif by motif with the brute-force trap-space lattice")
RULE = "non-trivial = the reference diagram has at least 3 nodes"
CASE_TIMEOUT = 60.0


def _shape_cases(seed, tier):
    """shapes added after the seeded-change review: (a) a motif limit at / just below / just above the number of stable motifs of some
    node - the expansion may refuse (RuntimeError) but must never return a truncated diagram as complete; (b) percolated Petri nets
    cached for every node of a partial diagram before the expansion continues (the cached-net code path of _expand_one_node)"""
    for name, bnet in families.MANY_MOTIFS.items():
        for lim in (1, 2, 3, 4, 5, 6, 7):
            for strat in ("bfs", "dfs"):
                yield {"net": "many_motifs:" + name, "bnet": bnet, "strategy": strat, "config": {"max_motifs_per_node": lim}}
    nets = list(families.MANY_MOTIFS.items()) + list(families.DEEP.items())
    for name, bnet in nets:
        for strat in ("bfs", "dfs"):
            for depth in (0, 1):
                yield {"net": "precached:" + name, "bnet": bnet, "strategy": strat, "precache_after_level": depth}


def cases(seed, tier):
    yield from families.interleave((_shape_cases(seed, tier), 1),
                                   (({"net": name, "bnet": bnet, "strategy": strat}
                                     for name, bnet in families.network_family(seed, tier, hand_max_vars=9) for strat in ("bfs", "dfs")), 3))


def check_with_info(case):
    net = oracle.Net.from_bnet(case["bnet"])
    rk, ref_nodes, ref_edges = net.full_sd()
    info = net_info(net)
    info["ref_nodes"] = len(ref_nodes)
    sd = make_sd(case["bnet"], case.get("config"))
    if case.get("precache_after_level") is not None:
        sd.expand_bfs(bfs_level_limit=case["precache_after_level"])
        for i in list(sd.node_ids()):
            sd.node_percolated_petri_net(i, compute=True)
            sd.node_percolated_network(i, compute=True)
    sd, r = run_step(sd, STRATEGIES[case["strategy"]])
    if case.get("config") and r is not True:
        # a motif limit may make the expansion refuse (documented RuntimeError); what it must never do is claim completeness
        info["ref_nodes"] = max(info["ref_nodes"], 3)
        return [], info
    if r is not True:
        return [fail("full_expansion_incomplete", "full BFS/DFS expansion with default limits completes", observed=r, expected=True)], info
    out = check_structure(sd, net, plain=True)
    stubs = list(sd.stub_ids())
    if stubs:
        out.append(fail("stub_after_full_expansion", "after full expansion every node is expanded", observed=stubs))
    obs = sorted(skey(sd.node_data(i)["space"]) for i in sd.node_ids())
    if obs != sorted(ref_nodes):
        out.append(fail("node_set_mismatch", "nodes are exactly the percolated trap spaces reachable from the root through percolated maximal trap spaces, each once",
                        observed=obs, expected=sorted(ref_nodes)))
    obs_e = sorted((skey(sd.node_data(p)["space"]), skey(sd.node_data(c)["space"])) for p, c in sd.dag.edges)
    if obs_e != sorted(ref_edges):
        out.append(fail("edge_set_mismatch", "the successors of each node are exactly the percolations of the maximal trap spaces strictly inside it",
                        observed=obs_e, expected=sorted(ref_edges)))
    leaves = sorted(skey(sd.node_data(i)["space"]) for i in sd.node_ids() if sd.dag.out_degree(i) == 0)
    mins = sorted(skey(t) for t in net.min_traps())
    if leaves != mins:
        out.append(fail("leaves_not_minimal_traps", "the nodes without successors are exactly the minimal trap spaces of the network", observed=leaves, expected=mins))
    api = sorted(skey(sd.node_data(i)["space"]) for i in sd.minimal_trap_spaces())
    if api != mins:
        out.append(fail("minimal_trap_spaces_api", "minimal_trap_spaces() lists exactly the minimal trap spaces", observed=api, expected=mins))
    for i in sd.node_ids():
        if sd.node_is_minimal(i) != (skey(sd.node_data(i)["space"]) in mins):
            out.append(fail("node_is_minimal_wrong", "node_is_minimal agrees with the reference", f"node {i}"))
    for p, c in sd.dag.edges:
        if sd.edge_stable_motif(p, c) not in sd.edge_all_stable_motifs(p, c):
            out.append(fail("edge_motif_not_listed", "edge_stable_motif is one of the edge's stable motifs", f"{p}->{c}"))
    return out, info


def check(case):
    return check_with_info(case)[0]


def nontrivial(case, info):
    return info["ref_nodes"] >= 3
