"""C11 - percolation computes exactly the logical domain of influence."""
import random

import families
import oracle
from common import fail, import_biobalm, net_info
from oracle import is_subspace

BOUND = ("all 1-variable and all 256 (thorough) / sampled (quick) 2-variable networks, seeded random networks with 3-6(7) variables (constants, sources, "
         "non-monotonic and redundant functions), hand-built networks with <= 9 variables; every subspace when n <= 4, otherwise 60 seeded subspaces "
         "(trap spaces and non-trap spaces, consistent and conflicting); percolate_space, percolate_space_strict, percolation_conflicts (both modes), "
         "find_single_node_LDOIs, find_single_drivers for seeded targets")
RULE = "non-trivial = for at least one tested subspace percolation fixes a variable that was not given"
CASE_TIMEOUT = 60.0


def cases(seed, tier):
    for name, bnet in families.network_family(seed, tier, hand_max_vars=9, include_2var=64 if tier == "quick" else 256):
        yield {"net": name, "bnet": bnet, "space_seed": random.Random(f"{seed}-{name}-c11").randrange(1 << 30)}


def check_with_info(case):
    import_biobalm()
    from biodivine_aeon import AsynchronousGraph, BooleanNetwork
    from biobalm.drivers import find_single_drivers, find_single_node_LDOIs
    from biobalm.space_utils import percolate_space, percolate_space_strict, percolation_conflicts

    net = oracle.Net.from_bnet(case["bnet"])
    info = net_info(net)
    info["propagating_spaces"] = 0
    bn = BooleanNetwork.from_bnet(case["bnet"]).infer_valid_graph()
    g = AsynchronousGraph(bn)
    rng = random.Random(case["space_seed"])
    if net.n <= 4:
        spaces = list(net.all_spaces())
    else:
        spaces = [families.random_space(rng, net.names, rng.choice([0.15, 0.3, 0.5, 0.8])) for _ in range(45)]
        spaces += rng.sample(net.trap_spaces(), min(15, len(net.trap_spaces())))
    out = []
    for sp in spaces:
        exp = net.percolate(sp)
        obs = percolate_space(g, dict(sp))
        if len(exp) > len(sp):
            info["propagating_spaces"] += 1
        if obs != exp:
            kept = all(obs.get(k) == v for k, v in sp.items())
            kind = "percolation_given_value_changed" if not kept else ("percolation_missing_value" if any(k not in obs for k in exp) else "percolation_extra_or_wrong_value")
            out.append(fail(kind, "percolation returns exactly the least fixed point of value propagation; given values are kept even when they conflict", f"space {sp}", observed=obs, expected=exp))
            continue
        if percolate_space(g, dict(obs)) != obs:
            out.append(fail("percolation_not_idempotent", "the result is idempotent", f"space {sp}", observed=percolate_space(g, dict(obs)), expected=obs))
        if net.is_trap(sp) and not (net.is_trap(obs) and is_subspace(obs, sp)):
            out.append(fail("percolated_trap_not_trap", "for a trap space the result is a trap space inside it", f"space {sp}", observed=obs))
        exp_s = net.percolate_strict(sp)
        obs_s = percolate_space_strict(g, dict(sp))
        if obs_s != exp_s:
            out.append(fail("strict_percolation_mismatch", "the strict variant reports exactly the variables newly fixed when propagation starts from the given values alone and skips "
                            "variables with constant update functions", f"space {sp}", observed=obs_s, expected=exp_s))
        for strict in (True, False):
            p = exp_s if strict else exp
            m = net.mask(p)
            exp_c = {v for v, val in p.items() if net.const_on(net.idx[v], m) is not None and net.const_on(net.idx[v], m) != val}
            obs_c = percolation_conflicts(g, dict(sp), strict_percolation=strict)
            if obs_c != exp_c:
                out.append(fail("percolation_conflicts_mismatch", "percolation_conflicts is consistent with the percolation it is defined over", f"space {sp} strict={strict}",
                                observed=sorted(obs_c), expected=sorted(exp_c)))
        if len(out) > 5:
            break
    const = net.constant_vars()
    exp_l = {(v, b): net.percolate_strict({v: b}) for v in net.names if v not in const for b in (0, 1)}
    for arg in (g, bn):
        obs_l = find_single_node_LDOIs(arg)
        if obs_l != exp_l:
            out.append(fail("single_node_ldoi_mismatch", "the single-node LDOI query is consistent with strict percolation", observed={str(k): v for k, v in obs_l.items()},
                            expected={str(k): v for k, v in exp_l.items()}))
    for _ in range(6):
        target = families.random_space(rng, net.names, 0.3) or {net.names[0]: 1}
        exp_d = {fix for fix, l in exp_l.items() if set(target.items()) <= (set(l.items()) | {fix})}
        obs_d = find_single_drivers(dict(target), g)
        if obs_d != exp_d:
            out.append(fail("single_driver_mismatch", "the single-driver query is consistent with strict percolation", f"target {target}", observed=sorted(obs_d), expected=sorted(exp_d)))
    return out, info


def check(case):
    return check_with_info(case)[0]


def nontrivial(case, info):
    return info.get("propagating_spaces", 0) >= 1
