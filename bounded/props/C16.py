"""C16 - serialization and memory reclamation are transparent (compared with an untouched twin diagram)."""
import random

import families
import oracle
from common import check_cache, dump, fail, make_sd, net_info, run_history, run_step

BOUND = ("networks with <= 6(7) variables (exhaustive 1-variable, sampled 2-variable, seeded random) and hand-built networks with <= 9 variables; seeded history H1 of 0-5 "
         "arbitrary calls (all strategies, queries on stubs, skipping), then pickle round trip / reclaim_node_data / both on one diagram and nothing on its twin, "
         "then a common history H2 of 1-5 calls (incl. succession_control); ids, spaces, flags, edges, motif lists, depths, seeds and sets compared exactly right "
         "after the transformation, after every H2 call (with its return value) and at the end; candidates compared exactly except that a reclaimed candidate "
         "list may be answered by the node's seeds (documented behaviour of reclaim_node_data); about half of the cases run under a NON-default configuration "
         "(max_motifs_per_node in 0..5, attractor_candidates_limit / retained_set_optimization_threshold in 0..3, minimum_simulation_budget in {0,1}, "
         "nfvs_size_threshold in {0,1,3}), first on networks whose root has 4-6 stable motifs (k independent switches) so that H2 calls hit the limits; the "
         "configuration itself is compared too; plus the lone-candidate shape: oscillator x marker networks (<= 7 variables; a marker variable that can only be lost / gained while "
         "a negative cycle oscillates) and motif-avoidant networks, fully or partly expanded, candidates of every node computed with simulation / greedy minification on or "
         "off so that an expanded non-minimal node holds exactly one candidate and no seeds, then reclaim_node_data (with / without pickle), then seeds / sets of every node; "
         "after the transformation and after every later attractor query the seeds and sets held by the transformed diagram are also compared with the brute-force "
         "attractors owned by each node; one case in eight additionally runs on the network with its variables declared in reversed name order (AEON API), "
         "because pickling re-parses the network from text")
RULE = "non-trivial = the diagram had at least 3 nodes or some cached attractor data at the moment of the transformation"
CASE_TIMEOUT = 60.0

OPS1 = families.PLAIN_OPS + families.QUERY_OPS * 2 + families.SKIP_OPS + ["block"]
OPS2 = families.PLAIN_OPS + families.QUERY_OPS * 2 + families.SKIP_OPS + ["control"]


TRANSFORMS = [["pickle"], ["reclaim"], ["reclaim", "pickle"], ["pickle", "reclaim"], ["pickle", "pickle"]]


def shape_cases(seed, tier):
    """Non-default configuration + round trip + a later call whose outcome depends on the configured value."""
    h1s = [[], [["succ", 0]], [["succ", 0], ["cands", 0, True, True]], [["bfs", None, 1, None]], [["seeds", 0, False]]]
    h2s = [[["succ", 0]], [["bfs", None, None, None]], [["cands", 0, True, True], ["seeds", 0, False]], [["dfs", None, None, None], ["seeds", 1, False]],
           [["block", True, None, True, False]], [["min", None, None, False], ["seeds", 0, False]]]
    k = 0
    for name, bnet in families.MANY_MOTIFS.items():
        for cfg in ({"max_motifs_per_node": 4}, {"max_motifs_per_node": 2}, {"max_motifs_per_node": 5}, {"attractor_candidates_limit": 1},
                    {"attractor_candidates_limit": 3, "retained_set_optimization_threshold": 0}, {"max_motifs_per_node": 6, "attractor_candidates_limit": 2}):
            for t in (["pickle"], ["reclaim", "pickle"], ["reclaim"]):
                k += 1
                yield {"net": name, "bnet": bnet, "config": cfg, "h1": h1s[k % len(h1s)], "transform": t, "h2": h2s[k % len(h2s)]}
                yield {"net": name, "bnet": bnet, "config": cfg, "h1": h1s[(k // 2) % len(h1s)], "transform": t, "h2": h2s[(k * 5 + 1) % len(h2s)]}
    nets = list(families.deep_nets(seed, tier)) + list(families.block_nets(seed, tier))
    random.Random(seed * 3 + 1).shuffle(nets)
    for name, bnet in nets:
        names = families.variables(bnet)
        rng = random.Random(f"{seed}-{name}-c16-cfg")
        yield {"net": name, "bnet": bnet, "config": families.config_variant(rng), "h1": families.random_history(rng.randrange(1 << 30), names, rng.randint(0, 3), OPS1),
               "transform": rng.choice(TRANSFORMS), "h2": families.random_history(rng.randrange(1 << 30), names, rng.randint(1, 4), OPS1)}


def lone_candidate_cases(seed, tier):
    """shape added after the seeded-change review: an EXPANDED, NON-minimal node whose candidate list was computed (cheap search: simulation / greedy
    minification switched off, or the default search on a motif-avoidant network) and consists of exactly one state while its seeds are still
    unknown; then reclaim_node_data (with / without a pickle round trip); then seed / set queries on every node.  First the instance that revealed
    the shape, then oscillator x marker networks and motif-avoidant networks under several expansion orders."""
    expansions = [[["bfs", None, None, None]], [["dfs", None, None, None]], [["succ", 0], ["succ", 1], ["succ", 2], ["succ", 3]], [["min", None, None, False]],
                  [["bfs", None, 1, None]], [["block", False, None, False, False]]]
    transforms = [["reclaim"], ["reclaim", "pickle"], ["pickle", "reclaim"], ["reclaim", "reclaim"]]
    maa = [(k, v) for k, v in families.maa_nets()] + [(k, v) for k, v in families.block_nets(seed, tier)][:40]
    marker = list(families.marker_nets(seed, tier))
    nets = []
    for k, item in enumerate(marker):  # three marker networks, then one motif-avoidant network
        nets.append((item, False))
        if k % 3 == 2 and k // 3 < len(maa):
            nets.append((maa[k // 3], True))
    for k, ((name, bnet), genuine) in enumerate(nets):
        rng = random.Random(f"{seed}-{name}-c16-lone")
        for rnd in range(2):
            first = k == 0 and rnd == 0
            greedy, sim = (True, False) if first else ((True, True) if genuine and rng.random() < 0.7 else (rng.random() < 0.5, rng.random() < 0.15))
            h1 = list(expansions[0] if first else rng.choice(expansions))
            if first or rng.random() < 0.4:
                h1.append(["seeds", 1 if first else rng.randint(1, 8), False])
            ids = list(range(9))
            if rnd:
                rng.shuffle(ids)
                ids = ids[: rng.randint(2, 9)]
            h1 += [["cands", i, greedy, sim] for i in ids]
            h2 = [["seeds", i, False] for i in range(9)] if rng.random() < 0.6 else [["sets", i] for i in range(9)]
            if rng.random() < 0.3:
                h2 = [["aseeds", None]] + h2
            yield {"net": name, "bnet": bnet, "config": {}, "h1": h1, "transform": transforms[0] if first else rng.choice(transforms), "h2": h2}


def cases(seed, tier):
    yield from families.interleave((lone_candidate_cases(seed, tier), 1), (shape_cases(seed, tier), 1), (general_cases(seed, tier), 4))


def general_cases(seed, tier):
    for name, bnet in families.network_family(seed, tier, hand_max_vars=9):
        names = families.variables(bnet)
        for rnd in range(4 if tier == "quick" else 10):
            rng = random.Random(f"{seed}-{rnd}-{name}-c16")
            h1 = []
            if rng.random() < 0.2:
                h1.append(rng.choice([["scc", True], ["build"], ["block", True, None, True, False]]))
            h1 += families.random_history(rng.randrange(1 << 30), names, rng.randint(0, 5), OPS1)
            h2 = []
            for _ in range(rng.randint(1, 5)):
                op = rng.choice(OPS2)
                if op == "control":
                    h2.append(["control", families.random_space(rng, names, 0.4) or {names[0]: 1}, rng.choice(["internal", "all"]), rng.choice([None, 1, 2]), [], rng.random() < 0.5, False])
                else:
                    h2.append(families.random_step(rng, names, [op]))
            transform = rng.choice(TRANSFORMS)
            cfg = families.config_variant(rng) if rnd % 2 else {}  # every second round: a non-default configuration
            case = {"net": name, "bnet": bnet, "config": cfg, "h1": h1, "transform": transform, "h2": h2}
            if rnd == 1 and len(names) >= 2 and "pickle" in transform:
                # the same case on the network with its variables declared in reversed name order (the text round trip of pickling re-orders them)
                yield dict(case, var_order="reversed")
            yield case


def make_sd_reversed(bnet, config):
    """the same network with its variables declared in REVERSED name order (built through the AEON API: parsers always produce name order).
    Pickling re-parses the network from text, so this is the input on which a variable order that does not survive the round trip shows."""
    from common import import_biobalm
    import_biobalm()
    from biodivine_aeon import BooleanNetwork
    from biobalm import SuccessionDiagram

    bn0 = BooleanNetwork.from_bnet(bnet).infer_valid_graph()
    bn = BooleanNetwork(list(reversed(bn0.variable_names())))
    rules = []
    for ln in bn0.to_aeon().splitlines():
        ln = ln.strip()
        if ln.startswith("$"):
            rules.append(ln[1:].split(":", 1))
        elif ln and not ln.startswith("#"):
            bn.add_regulation(ln)
    for v, f in rules:
        bn.set_update_function(v.strip(), f.strip())
    cfg = SuccessionDiagram.default_config()
    if config:
        cfg.update(config)
    return SuccessionDiagram(bn, cfg)


def compare(a, b, when, tolerate_reclaim=True):
    """Compare two dumps; b is the untouched twin."""
    out = []
    for key in ("names", "len", "depth", "edges", "index"):
        if a[key] != b[key]:
            out.append(fail(f"{key}_changed", "node ids, spaces, edges, motifs, expansion flags and known attractors are preserved", when, observed=a[key], expected=b[key]))
    if len(a["nodes"]) != len(b["nodes"]):
        return out
    for na, nb in zip(a["nodes"], b["nodes"]):
        for f in ("id", "space", "expanded", "skipped", "depth", "succ", "seeds", "sets"):
            if na[f] != nb[f]:
                out.append(fail(f"node_{f}_changed", "node ids, spaces, edges, motifs, expansion flags and known attractors are preserved", f"{when}: node {nb['id']}",
                                observed=na[f], expected=nb[f]))
        if na["cand"] != nb["cand"]:
            if tolerate_reclaim and na["cand"] is None and na["seeds"] is not None:
                continue  # reclaimed: the candidate query is answered by the seeds
            out.append(fail("node_cand_changed", "known attractor data is preserved (candidates may only be dropped when seeds are known)", f"{when}: node {nb['id']}",
                            observed=na["cand"], expected=nb["cand"]))
    return out


def oracle_check(sd, net, when):
    """brute force: whatever the transformed diagram holds as seeds / sets of a node are attractors the node owns under its current successors"""
    out = []
    for i in sd.node_ids():
        for f in check_cache(sd, net, i, what=("seeds", "sets"), prefix="transformed_"):
            f["detail"] = f"{when}: " + f["detail"]
            out.append(f)
    return out


def check_with_info(case):
    net = oracle.Net.from_bnet(case["bnet"])
    info = net_info(net)
    mk = make_sd_reversed if case.get("var_order") == "reversed" else make_sd
    a = mk(case["bnet"], case.get("config"))
    b = mk(case["bnet"], case.get("config"))
    a, la = run_history(a, case["h1"])
    b, lb = run_history(b, case["h1"])
    out = []
    if la != lb or dump(a) != dump(b):
        out.append(fail("twin_diverged_before_transformation", "the same history gives the same diagram (prerequisite; see C19)", observed=la, expected=lb))
        return out, info
    d0 = dump(b)
    info["nodes"] = d0["len"]
    info["cached"] = sum(1 for n in d0["nodes"] if n["seeds"] is not None or n["cand"] is not None)
    for t in case["transform"]:
        a, _ = run_step(a, [t])
    out += compare(dump(a), d0, f"right after {case['transform']}")
    out += oracle_check(a, net, f"right after {case['transform']}")
    cfg_out = []  # reported, but H2 is still run: a changed configuration must also show in a later call's behaviour when it matters
    if dict(a.config) != dict(b.config):
        diff = {k: (dict(a.config).get(k), dict(b.config).get(k)) for k in set(a.config) | set(b.config) if dict(a.config).get(k) != dict(b.config).get(k)}
        cfg_out.append(fail("config_changed", "the configuration is part of the diagram's state and is preserved (every later call must behave as on the untouched diagram)",
                        f"right after {case['transform']}", observed={k: v[0] for k, v in diff.items()}, expected={k: v[1] for k, v in diff.items()}))
    if dump(b) != d0:
        out.append(fail("twin_changed", "harness: the twin must be untouched"))
    for k, step in enumerate(case["h2"]):
        if out:
            break
        a, ra = run_step(a, step)
        b, rb = run_step(b, step)
        if ra != rb and step[0] != "cands":
            out.append(fail("later_call_differs", "every later query, expansion, attractor computation or control call gives the same answer as on the untouched diagram",
                            f"after {case['transform']}, H2 step {k} {step}", observed=ra, expected=rb))
        out += compare(dump(a), dump(b), f"after {case['transform']} and H2 step {k} {step}")
        if step[0] in ("seeds", "sets", "aseeds"):
            out += oracle_check(a, net, f"after {case['transform']} and H2 step {k} {step}")
    return cfg_out + out, info


def check(case):
    return check_with_info(case)[0]


def nontrivial(case, info):
    return info.get("nodes", 0) >= 3 or info.get("cached", 0) >= 1
