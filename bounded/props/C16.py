"""C16 - serialization and memory reclamation are transparent (compared with an untouched twin diagram)."""
import random

import families
import oracle
from common import dump, fail, make_sd, net_info, run_history, run_step

BOUND = ("networks with <= 6(7) variables (exhaustive 1-variable, sampled 2-variable, seeded random) and hand-built networks with <= 9 variables; seeded history H1 of 0-5 "
         "arbitrary calls (all strategies, queries on stubs, skipping), then pickle round trip / reclaim_node_data / both on one diagram and nothing on its twin, "
         "then a common history H2 of 1-5 calls (incl. succession_control); ids, spaces, flags, edges, motif lists, depths, seeds and sets compared exactly right "
         "after the transformation, after every H2 call (with its return value) and at the end; candidates compared exactly except that a reclaimed candidate "
         "list may be answered by the node's seeds (documented behaviour of reclaim_node_data)")
RULE = "non-trivial = the diagram had at least 3 nodes or some cached attractor data at the moment of the transformation"
CASE_TIMEOUT = 60.0

OPS1 = families.PLAIN_OPS + families.QUERY_OPS * 2 + families.SKIP_OPS + ["block"]
OPS2 = families.PLAIN_OPS + families.QUERY_OPS * 2 + families.SKIP_OPS + ["control"]


def cases(seed, tier):
    for name, bnet in families.network_family(seed, tier, hand_max_vars=9):
        names = families.variables(bnet)
        for rnd in range(4 if tier == "quick" else 10):
            rng = random.Random(f"{seed}-{rnd}-{name}-c16")
            h1 = []
            if rng.random() < 0.2:
                h1.append(rng.choice([["scc", True], ["build"], ["block", True, None, True, False]]))
            h1 += families.random_history(rng.randrange(1 << 30), names, rng.randint(0, 5), OPS1)
            h2 = []
            for _ in range(rng.randint(1, 5)):
                op = rng.choice(OPS2)
                if op == "control":
                    h2.append(["control", families.random_space(rng, names, 0.4) or {names[0]: 1}, rng.choice(["internal", "all"]), rng.choice([None, 1, 2]), [], rng.random() < 0.5, False])
                else:
                    h2.append(families.random_step(rng, names, [op]))
            yield {"net": name, "bnet": bnet, "h1": h1, "transform": rng.choice([["pickle"], ["reclaim"], ["reclaim", "pickle"], ["pickle", "reclaim"], ["pickle", "pickle"]]), "h2": h2}


def compare(a, b, when, tolerate_reclaim=True):
    """Compare two dumps; b is the untouched twin."""
    out = []
    for key in ("names", "len", "depth", "edges", "index"):
        if a[key] != b[key]:
            out.append(fail(f"{key}_changed", "node ids, spaces, edges, motifs, expansion flags and known attractors are preserved", when, observed=a[key], expected=b[key]))
    if len(a["nodes"]) != len(b["nodes"]):
        return out
    for na, nb in zip(a["nodes"], b["nodes"]):
        for f in ("id", "space", "expanded", "skipped", "depth", "succ", "seeds", "sets"):
            if na[f] != nb[f]:
                out.append(fail(f"node_{f}_changed", "node ids, spaces, edges, motifs, expansion flags and known attractors are preserved", f"{when}: node {nb['id']}",
                                observed=na[f], expected=nb[f]))
        if na["cand"] != nb["cand"]:
            if tolerate_reclaim and na["cand"] is None and na["seeds"] is not None:
                continue  # reclaimed: the candidate query is answered by the seeds
            out.append(fail("node_cand_changed", "known attractor data is preserved (candidates may only be dropped when seeds are known)", f"{when}: node {nb['id']}",
                            observed=na["cand"], expected=nb["cand"]))
    return out


def check_with_info(case):
    net = oracle.Net.from_bnet(case["bnet"])
    info = net_info(net)
    a = make_sd(case["bnet"])
    b = make_sd(case["bnet"])
    a, la = run_history(a, case["h1"])
    b, lb = run_history(b, case["h1"])
    out = []
    if la != lb or dump(a) != dump(b):
        out.append(fail("twin_diverged_before_transformation", "the same history gives the same diagram (prerequisite; see C19)", observed=la, expected=lb))
        return out, info
    d0 = dump(b)
    info["nodes"] = d0["len"]
    info["cached"] = sum(1 for n in d0["nodes"] if n["seeds"] is not None or n["cand"] is not None)
    for t in case["transform"]:
        a, _ = run_step(a, [t])
    out += compare(dump(a), d0, f"right after {case['transform']}")
    if dump(b) != d0:
        out.append(fail("twin_changed", "harness: the twin must be untouched"))
    for k, step in enumerate(case["h2"]):
        if out:
            break
        a, ra = run_step(a, step)
        b, rb = run_step(b, step)
        if ra != rb and step[0] != "cands":
            out.append(fail("later_call_differs", "every later query, expansion, attractor computation or control call gives the same answer as on the untouched diagram",
                            f"after {case['transform']}, H2 step {k} {step}", observed=ra, expected=rb))
        out += compare(dump(a), dump(b), f"after {case['transform']} and H2 step {k} {step}")
    return out, info


def check(case):
    return check_with_info(case)[0]


def nontrivial(case, info):
    return info.get("nodes", 0) >= 3 or info.get("cached", 0) >= 1
