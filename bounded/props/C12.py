"""C12 - attractor sets are the complete attractors and the symbolic fallback agrees."""
import pickle
import random

import families
import oracle
from common import check_cache, fail, make_sd, net_info, owned, run_history, state_or_none, vertex_set_bits

BOUND = ("networks with <= 6(7) variables (exhaustive 1-variable, sampled 2-variable, seeded random) and hand-built networks with <= 9 variables (fixed-point and "
         "complex attractors, motif-avoidant ones); every node after a seeded prefix (none / root only / full bfs / block / scc / <= 3 random calls incl. skipping); "
         "sets requested before seeds, after seeds, after candidates, after reclaim_node_data, after a pickle round trip; fallback called directly "
         "(symbolic_attractor_fallback) and through node_attractor_seeds(symbolic_fallback=True) with attractor_candidates_limit in {0,1} on a twin diagram; the skip-overlap shape: "
         "a motif-avoidant module with 1-3 bistable side modules (independent or reading a module variable; <= 7 variables), root expanded only, then skip_to_minimal on one or two "
         "children / skip_remaining / minimal-space expansion with skipping, optionally seeds or candidates of a sibling first, reclaim or pickle; on skip nodes the direct fallback "
         "is compared with the default method under the same cache state (minimum_simulation_budget in {1,10,50,default}; 70% of these cases look at the skip nodes only, half "
         "without the twin)")
BOUND += ("; the nested-component shape: a motif-avoidant module inside an inner trap space of its source SCC next to a second source SCC (13 hand-built networks, "
          "6-8 variables), expand_scc with / without the motif-avoidance check, expand_block, bfs, every order of the queries")
RULE = "non-trivial = some node of the case reports a non-fixed-point attractor or at least two attractors"
CASE_TIMEOUT = 60.0

PREFIXES = [[], [["bfs", None, 0, None]], [["bfs", None, None, None]], [["block", True, None, True, False]], [["scc", True]], [["min", None, None, True]],
            [["bfs", None, 0, None], ["skip_remaining"]]]
ORDERS = ["sets_first", "seeds_first", "cands_first", "reclaim_between", "pickle_between"]


def skip_overlap_cases(seed, tier):
    """shape added after the seeded-change review: skip nodes whose motif-avoidant attractor lies in the overlap with a sibling node whose attractor data
    is not computed yet (or was computed / reclaimed): root expanded only, skip_to_minimal on one or several children / skip_remaining, optionally seeds of
    a sibling first or reclaim_node_data; networks: a motif-avoidant module with 1-3 bistable side modules (families.maa_overlap_nets) and the
    hand-built motif-avoidant networks."""
    nets = [n for n in families.maa_overlap_nets(seed, tier) if len(families.variables(n[1])) <= 7]
    extra = [(k, v) for k, v in families.maa_nets()]
    nets = [x for k, n in enumerate(nets) for x in ([n] + ([extra[k // 4]] if k % 4 == 3 and k // 4 < len(extra) else []))]
    prefixes = [[["succ", 0], ["skip", 1]], [["succ", 0], ["skip", 2]], [["succ", 0], ["skip", 3]], [["succ", 0], ["skip", 4]], [["bfs", None, 0, None], ["skip_remaining"]],
                [["succ", 0], ["skip", 1], ["skip", 3]], [["succ", 0], ["skip", 2], ["skip", 1]], [["succ", 0], ["seeds", 1, False], ["skip", 2]],
                [["succ", 0], ["seeds", 2, False], ["skip", 1], ["reclaim"]], [["succ", 0], ["cands", 3, True, True], ["skip", 1], ["skip", 2]],
                [["succ", 0], ["succ", 1], ["skip", 2]], [["succ", 0], ["skip", 1], ["succ", 2]], [["succ", 0], ["succ", 2], ["skip_remaining"]],
                [["bfs", None, 0, None], ["skip", -1]], [["bfs", None, 0, None], ["skip", -2], ["pickle"]], [["min", None, 4, True]]]
    for k, (name, bnet) in enumerate(nets):
        rng = random.Random(f"{seed}-{name}-c12-skip")
        if k < 2:
            picks = [(p, "seeds_first") for p in prefixes[:5]] + [(p, rng.choice(ORDERS)) for p in prefixes[5:]]
        else:
            picks = [(p, rng.choice(ORDERS)) for p in rng.sample(prefixes[:7], 2) + rng.sample(prefixes[7:], 1)]
        for pre, order in picks:
            # (cost) the random-walk elimination of candidates cannot remove a genuine motif-avoidant attractor: most of the cases give it a small budget
            # half of them leave out the twin diagram (the fallback is then only called directly) and 70% look at the skip nodes only
            cfg = {} if rng.random() < 0.2 else {"minimum_simulation_budget": rng.choice([1, 10, 50])}
            yield {"net": name, "bnet": bnet, "config": cfg, "prefix": pre, "order": order, "fallback_limit": 1 if k < 2 else rng.choice([0, 1]), "twin": k < 2 or rng.random() < 0.5, "only_skipped": k >= 2 and rng.random() < 0.7}


def nested_scc_cases(seed, tier):
    """shape added after the round-5 seeded-change review: a source SCC with a nested diagram of its own (a motif-avoidant module inside an inner trap space
    of the component) next to a second source SCC; component-wise expansion with and without the motif-avoidance check, every order of the queries."""
    prefixes = [[["scc", True]], [["scc", False]], [["block", True, None, True, False]], [["bfs", None, 0, None], ["scc", True]], [["bfs", None, None, None]]]
    nets = families.nested_scc_nets()
    for k, (name, bnet) in enumerate(nets):
        rng = random.Random(f"{seed}-{name}-c12-nested")
        for pre in prefixes:
            for order in (ORDERS if k % 4 == 0 or tier != "quick" else rng.sample(ORDERS, 2)):
                yield {"net": name, "bnet": bnet, "prefix": pre, "order": order, "fallback_limit": rng.choice([0, 1]), "twin": rng.random() < 0.3}


def cases(seed, tier):
    yield from families.interleave((nested_scc_cases(seed, tier), 1), (skip_overlap_cases(seed, tier), 1), (general_cases(seed, tier), 20))


def general_cases(seed, tier):
    for name, bnet in families.TRANSIENT_CANDIDATES.items():  # candidates requested with the reduction options off, then seeds and sets
        for node in range(4):
            for flags in ([False, False], [True, False]):
                yield {"net": name, "bnet": bnet, "prefix": [["bfs", None, None, None], ["cands", node] + flags], "order": "cands_first", "fallback_limit": 0}
                yield {"net": name, "bnet": bnet, "prefix": [["cands", node] + flags], "order": "seeds_first", "fallback_limit": 0}
    for name, bnet in families.network_family(seed, tier, hand_max_vars=9):
        names = families.variables(bnet)
        for rnd in range(3 if tier == "quick" else 8):
            rng = random.Random(f"{seed}-{rnd}-{name}-c12")
            if rng.random() < 0.7:
                pre = rng.choice(PREFIXES)
            else:
                pre = families.random_history(rng.randrange(1 << 30), names, rng.randint(1, 3), families.PLAIN_OPS + ["min_skip", "skip", "seeds", "cands"])
            yield {"net": name, "bnet": bnet, "prefix": pre, "order": rng.choice(ORDERS), "fallback_limit": rng.choice([0, 1])}


def family(net, seeds):
    return sorted({net.attractor_of(state_or_none(net, s)) or -1 for s in seeds})


def check_with_info(case):
    from biobalm._sd_attractors.attractor_symbolic import symbolic_attractor_fallback

    net = oracle.Net.from_bnet(case["bnet"])
    info = net_info(net)
    info["interesting_nodes"] = 0
    out = []
    sd = make_sd(case["bnet"], case.get("config"))
    sd, _ = run_history(sd, case["prefix"])
    # twin: same prefix with the default configuration, THEN a tiny candidate limit so that the default method raises and the fallback runs
    twin = make_sd(case["bnet"], case.get("config"))
    twin, _ = run_history(twin, case["prefix"])
    twin.config["attractor_candidates_limit"] = case["fallback_limit"]
    twin.config["retained_set_optimization_threshold"] = 0
    if not case.get("twin", True):
        twin = None
    base = pickle.dumps(sd)
    direct = pickle.loads(base)
    order = case["order"]
    for i in list(sd.node_ids()):
        if case.get("only_skipped") and not sd.node_data(i)["skipped"]:
            continue
        if order == "seeds_first":
            sd.node_attractor_seeds(i, compute=True)
        elif order == "cands_first":
            sd.node_attractor_candidates(i, compute=True)
        elif order == "reclaim_between":
            sd.node_attractor_seeds(i, compute=True)
            sd.reclaim_node_data()
        elif order == "pickle_between":
            sd.node_attractor_seeds(i, compute=True)
            sd = pickle.loads(pickle.dumps(sd))
        sets = sd.node_attractor_sets(i, compute=True)
        seeds = sd.node_attractor_seeds(i, compute=False)
        d = sd.node_data(i)
        if sets is not d["attractor_sets"] and [vertex_set_bits(sd, net, s) for s in sets] != [vertex_set_bits(sd, net, s) for s in d["attractor_sets"]]:
            out.append(fail("returned_sets_not_cached", "the returned sets are the node's sets", f"node {i}"))
        out += check_cache(sd, net, i, what=("seeds", "sets"))
        fam = family(net, seeds)
        if len(fam) >= 2 or any(a > 0 and a & (a - 1) for a in fam):
            info["interesting_nodes"] += 1
        # direct fallback on an untouched copy with the same successors
        fs, fsets = symbolic_attractor_fallback(direct, i)
        if d["skipped"]:
            # what a skip node reports depends on which other nodes are already known to be attractor-free:
            # compare the fallback with the default method under the SAME cache state (a second untouched copy)
            ref_sd = pickle.loads(base)
            fam = family(net, ref_sd.node_attractor_seeds(i, compute=True))
        if family(net, fs) != fam:
            out.append(fail("fallback_differs", "the fully symbolic fallback yields the same attractors for the node as the default method",
                            f"node {i} space {d['space']} skipped={bool(d['skipped'])} (direct call)", observed=family(net, fs), expected=fam))
        else:
            for s, vs in zip(fs, fsets):
                if vertex_set_bits(direct, net, vs) != net.attractor_of(state_or_none(net, s)):
                    out.append(fail("fallback_set_not_attractor", "fallback sets are the complete attractors of their seeds", f"node {i}"))
        if twin is not None and twin.node_data(i)["space"] == d["space"]:
            ts = twin.node_attractor_seeds(i, compute=True, symbolic_fallback=True)
            if family(net, ts) != fam and not d["skipped"]:
                out.append(fail("fallback_differs", "the fully symbolic fallback yields the same attractors for the node as the default method",
                                f"node {i} space {d['space']} via symbolic_fallback=True with attractor_candidates_limit={case['fallback_limit']}",
                                observed=family(net, ts), expected=fam))
            tsets = twin.node_attractor_sets(i, compute=True)
            if [vertex_set_bits(twin, net, v) for v in tsets] != [net.attractor_of(state_or_none(net, s)) for s in ts]:
                out.append(fail("fallback_set_not_attractor", "sets are, in the order of the seeds, the attractors containing those seeds (fallback path)", f"node {i}"))
    return out, info


def check(case):
    return check_with_info(case)[0]


def nontrivial(case, info):
    return info.get("interesting_nodes", 0) >= 1
