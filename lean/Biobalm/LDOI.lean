/-
  Biobalm/LDOI.lean — P12 / L11 (LDOI theorem, the dynamical sentence behind C06).

  Setting of `control.py` (`find_drivers`, `drivers_of_succession`): the system currently lives in
  a trap space `F` (`assume_fixed`) of the network `f`; the intervention `D` (`driver_dict`)
  overrides the update functions of the variables in `dom D` by the constants `D[v]`.  If the
  percolation `Perc(f, D ∪ F)` lies inside the target `M` (python: `M.items() <= ldoi.items()`,
  i.e. the LDOI fixes everything `M` fixes; in this library's notation `Perc f (D ∪ F) ⊑ M`),
  then every attractor of the overridden network that is reachable from a state of `F` lies
  inside `M`.

  Hypothesis made explicit: `D` and `F` are compatible (share a state).  Without it `F` is not
  a trap space of the overridden network and the statement is false.
-/
import Biobalm.Trap

namespace Biobalm

set_option linter.unusedSectionVars false

open Relation

variable {ι : Type*} [DecidableEq ι]

/-- The network with the variables of `D` overridden by the constants `D` assigns. -/
def Network.override (f : Network ι) (D : Space ι) : Network ι := fun i x =>
  match D i with
  | some b => b
  | none => f i x

omit [DecidableEq ι] in
theorem override_of_free {f : Network ι} {D : Space ι} {i : ι} (h : D i = none) :
    f.override D i = f i := by
  funext x; simp [Network.override, h]

omit [DecidableEq ι] in
theorem override_of_fixed {f : Network ι} {D : Space ι} {i : ι} {b : Bool} (h : D i = some b)
    (x : State ι) : f.override D i x = b := by
  simp [Network.override, h]

variable {f : Network ι} {D F : Space ι}

omit [DecidableEq ι] in
theorem inter_free_right {i : ι} (h : (F.inter D) i = none) : D i = none := by
  unfold Space.inter at h
  cases hF : F i with
  | some b => rw [hF] at h; cases h
  | none => rw [hF] at h; exact h

/-- A trap space stays a trap space when a compatible assignment is overridden. -/
theorem IsTrap.override (hF : IsTrap f F) (hcompat : ∃ z, z ∈ₛ F ∧ z ∈ₛ D) :
    IsTrap (f.override D) F := by
  obtain ⟨z, hzF, hzD⟩ := hcompat
  rw [isTrap_iff] at hF ⊢
  intro i b hi x hx
  cases hD : D i with
  | none => rw [override_of_free hD]; exact hF i b hi x hx
  | some c => rw [override_of_fixed hD, ← hzD i c hD, hzF i b hi]

/-- Propagation steps below `F ∪ D` do not see the override (they only concern variables that
are free in `F ∪ D`, hence not in `dom D`). -/
theorem PSteps.of_override {P : ι → Prop} {R : Space ι}
    (h : PSteps (f.override D) P (F.inter D) R) : PSteps f P (F.inter D) R := by
  induction h with
  | refl => exact ReflTransGen.refl
  | tail hprev hs ih =>
    obtain ⟨i, b, hP, hi, hc, rfl⟩ := hs
    have hDi : D i = none := inter_free_right ((PSteps.sub hprev).free_of_free hi)
    rw [override_of_free hDi] at hc
    exact ReflTransGen.tail ih ⟨i, b, hP, hi, hc, rfl⟩

/-- Percolating `F ∪ D` in the overridden network and in the original one gives the same space. -/
theorem perc_override [Fintype ι] (P : ι → Prop) :
    perc (f.override D) P (F.inter D) = perc f P (F.inter D) := by
  apply perc_unique (PSteps.of_override (perc_steps _ P _))
  intro i b hP hi hc
  have hDi : D i = none := inter_free_right ((perc_sub (f.override D) P _).free_of_free hi)
  refine perc_closed (f.override D) P (F.inter D) i b hP hi ?_
  rw [override_of_free hDi]
  exact hc

/-- Every attractor of the overridden network lies in the space `D`. -/
theorem IsAttractor.mem_override {A : Set (State ι)} (hA : IsAttractor (f.override D) A) :
    ∀ x ∈ A, x ∈ₛ D := by
  intro x hx i b hi
  exact hA.coord_eq_of_const (R := Space.top) (fun y _ => mem_top y)
    (fun y _ => override_of_fixed hi y) x hx

/-- **P12 / L11 (LDOI theorem).**  `F` a trap space of `f`, `D` an intervention compatible with
`F`, `A` an attractor of the overridden network reachable from some state of `F`.  Then `A` lies
inside `Perc f (F ∪ D)`; hence inside every `M` with `Perc f (F ∪ D) ⊑ M`.  (Generic in the
propagation predicate `P`, so it also covers the strict variant.) -/
theorem ldoi_theorem [Fintype ι] (P : ι → Prop) (hF : IsTrap f F)
    (hcompat : ∃ z, z ∈ₛ F ∧ z ∈ₛ D) {A : Set (State ι)}
    (hA : IsAttractor (f.override D) A)
    (hreach : ∃ x₀, x₀ ∈ₛ F ∧ ∃ y ∈ A, Reach (f.override D) x₀ y)
    {M : Space ι} (hM : perc f P (F.inter D) ⊑ M) : ∀ x ∈ A, x ∈ₛ M := by
  have hF' : IsTrap (f.override D) F := hF.override hcompat
  obtain ⟨x₀, hx₀, y, hyA, hxy⟩ := hreach
  have hyF : y ∈ₛ F := hF'.reach hx₀ hxy
  have hAF : ∀ x ∈ A, x ∈ₛ F := fun x hx =>
    hA.subset_of_mem (T := {x | x ∈ₛ F}) hF' hyA hyF hx
  have hAG : ∀ x ∈ A, x ∈ₛ F.inter D := fun x hx =>
    (mem_inter hcompat).mpr ⟨hAF x hx, hA.mem_override x hx⟩
  intro x hx
  have := hA.mem_perc P hAG x hx
  rw [perc_override] at this
  exact hM.mem this

/-- The instance for ordinary percolation, as used by `find_drivers`. -/
theorem ldoi_theorem_Perc [Fintype ι] (hF : IsTrap f F) (hcompat : ∃ z, z ∈ₛ F ∧ z ∈ₛ D)
    {A : Set (State ι)} (hA : IsAttractor (f.override D) A)
    (hreach : ∃ x₀, x₀ ∈ₛ F ∧ ∃ y ∈ A, Reach (f.override D) x₀ y)
    {M : Space ι} (hM : Perc f (F.inter D) ⊑ M) : ∀ x ∈ A, x ∈ₛ M :=
  ldoi_theorem _ hF hcompat hA hreach hM

end Biobalm
