/-
  Biobalm/Compose.lean — P11 / L14: for the disjoint union of two networks, trap spaces, minimal
  trap spaces and attractors are exactly the products.
-/
import Biobalm.Dynamics

namespace Biobalm

set_option linter.unusedSectionVars false

open Relation

variable {ι κ : Type*} [DecidableEq ι] [DecidableEq κ]

/-- Disjoint union of two networks: each component only reads its own variables. -/
def Network.sum (f : Network ι) (g : Network κ) : Network (ι ⊕ κ)
  | Sum.inl i, x => f i (fun i' => x (Sum.inl i'))
  | Sum.inr k, x => g k (fun k' => x (Sum.inr k'))

/-- Left / right component of a state or space over `ι ⊕ κ`. -/
abbrev lft {β : Type*} (x : ι ⊕ κ → β) : ι → β := fun i => x (Sum.inl i)
abbrev rgt {β : Type*} (x : ι ⊕ κ → β) : κ → β := fun k => x (Sum.inr k)

omit [DecidableEq ι] [DecidableEq κ] in
theorem elim_lft_rgt {β : Type*} (x : ι ⊕ κ → β) : Sum.elim (lft x) (rgt x) = x := by
  funext s; cases s <;> rfl

omit [DecidableEq ι] [DecidableEq κ] in
theorem mem_sum_iff {x : State (ι ⊕ κ)} {S : Space (ι ⊕ κ)} :
    x ∈ₛ S ↔ lft x ∈ₛ lft S ∧ rgt x ∈ₛ rgt S := by
  constructor
  · intro h; exact ⟨fun i b hi => h _ b hi, fun k b hk => h _ b hk⟩
  · rintro ⟨h1, h2⟩ s b hs
    cases s with
    | inl i => exact h1 i b hs
    | inr k => exact h2 k b hs

omit [DecidableEq ι] [DecidableEq κ] in
theorem sub_sum_iff {S T : Space (ι ⊕ κ)} : T ⊑ S ↔ lft T ⊑ lft S ∧ rgt T ⊑ rgt S := by
  constructor
  · intro h; exact ⟨fun i b hi => h _ b hi, fun k b hk => h _ b hk⟩
  · rintro ⟨h1, h2⟩ s b hs
    cases s with
    | inl i => exact h1 i b hs
    | inr k => exact h2 k b hs

variable {f : Network ι} {g : Network κ}

theorem update_inl (x : State (ι ⊕ κ)) (i : ι) (b : Bool) :
    Function.update x (Sum.inl i) b = Sum.elim (Function.update (lft x) i b) (rgt x) := by
  funext s
  cases s with
  | inl j =>
    by_cases h : j = i
    · subst h; simp
    · simp [Function.update_of_ne h, Function.update_of_ne (show Sum.inl j ≠ (Sum.inl i : ι ⊕ κ) by simpa using h)]
  | inr k => simp

theorem update_inr (x : State (ι ⊕ κ)) (k : κ) (b : Bool) :
    Function.update x (Sum.inr k) b = Sum.elim (lft x) (Function.update (rgt x) k b) := by
  funext s
  cases s with
  | inl j => simp
  | inr j =>
    by_cases h : j = k
    · subst h; simp
    · simp [Function.update_of_ne h, Function.update_of_ne (show Sum.inr j ≠ (Sum.inr k : ι ⊕ κ) by simpa using h)]

/-- A step of the union is a step of exactly one component. -/
theorem step_sum_iff {x y : State (ι ⊕ κ)} :
    Step (f.sum g) x y ↔
      (Step f (lft x) (lft y) ∧ rgt y = rgt x) ∨ (lft y = lft x ∧ Step g (rgt x) (rgt y)) := by
  constructor
  · rintro ⟨s, hne, rfl⟩
    cases s with
    | inl i =>
      left
      rw [update_inl]
      exact ⟨⟨i, hne, rfl⟩, rfl⟩
    | inr k =>
      right
      rw [update_inr]
      exact ⟨rfl, ⟨k, hne, rfl⟩⟩
  · rintro (⟨⟨i, hne, hy⟩, hr⟩ | ⟨hl, ⟨k, hne, hy⟩⟩)
    · refine ⟨Sum.inl i, hne, ?_⟩
      rw [update_inl, ← elim_lft_rgt y, hy, hr]
      rfl
    · refine ⟨Sum.inr k, hne, ?_⟩
      rw [update_inr, ← elim_lft_rgt y, hy, hl]
      rfl

theorem reach_sum_left {a a' : State ι} (h : Reach f a a') (b : State κ) :
    Reach (f.sum g) (Sum.elim a b) (Sum.elim a' b) := by
  induction h with
  | refl => exact Reach.refl _
  | tail _ hs ih =>
    refine Reach.trans ih (Step.reach ?_)
    rw [step_sum_iff]
    exact Or.inl ⟨hs, rfl⟩

theorem reach_sum_right (a : State ι) {b b' : State κ} (h : Reach g b b') :
    Reach (f.sum g) (Sum.elim a b) (Sum.elim a b') := by
  induction h with
  | refl => exact Reach.refl _
  | tail _ hs ih =>
    refine Reach.trans ih (Step.reach ?_)
    rw [step_sum_iff]
    exact Or.inr ⟨rfl, hs⟩

/-- Reachability in the union is component-wise reachability. -/
theorem reach_sum_iff {x y : State (ι ⊕ κ)} :
    Reach (f.sum g) x y ↔ Reach f (lft x) (lft y) ∧ Reach g (rgt x) (rgt y) := by
  constructor
  · intro h
    induction h with
    | refl => exact ⟨Reach.refl _, Reach.refl _⟩
    | tail _ hs ih =>
      rcases step_sum_iff.mp hs with ⟨h1, h2⟩ | ⟨h1, h2⟩
      · exact ⟨ih.1.trans h1.reach, h2 ▸ ih.2⟩
      · exact ⟨h1 ▸ ih.1, ih.2.trans h2.reach⟩
  · rintro ⟨h1, h2⟩
    have := (reach_sum_left (g := g) h1 (rgt x)).trans (reach_sum_right (f := f) (lft y) h2)
    rwa [elim_lft_rgt, elim_lft_rgt] at this

/-- **P11 / L14 (trap spaces).** -/
theorem isTrap_sum_iff {S : Space (ι ⊕ κ)} :
    IsTrap (f.sum g) S ↔ IsTrap f (lft S) ∧ IsTrap g (rgt S) := by
  simp only [isTrap_iff]
  constructor
  · intro h
    refine ⟨fun i b hi a ha => ?_, fun k b hk c hc => ?_⟩
    · obtain ⟨c, hc⟩ := Space.exists_mem (rgt S)
      have := h (Sum.inl i) b hi (Sum.elim a c) (mem_sum_iff.mpr ⟨ha, hc⟩)
      simpa [Network.sum] using this
    · obtain ⟨a, ha⟩ := Space.exists_mem (lft S)
      have := h (Sum.inr k) b hk (Sum.elim a c) (mem_sum_iff.mpr ⟨ha, hc⟩)
      simpa [Network.sum] using this
  · rintro ⟨h1, h2⟩ s b hs x hx
    obtain ⟨hx1, hx2⟩ := mem_sum_iff.mp hx
    cases s with
    | inl i => exact h1 i b hs _ hx1
    | inr k => exact h2 k b hs _ hx2

/-- **P11 / L14 (minimal trap spaces).** -/
theorem isMinTrap_sum_iff {S : Space (ι ⊕ κ)} :
    IsMinTrap (f.sum g) S ↔ IsMinTrap f (lft S) ∧ IsMinTrap g (rgt S) := by
  constructor
  · rintro ⟨hS, hmin⟩
    obtain ⟨h1, h2⟩ := isTrap_sum_iff.mp hS
    refine ⟨⟨h1, fun T hT hTS => ?_⟩, ⟨h2, fun T hT hTS => ?_⟩⟩
    · have := hmin (Sum.elim T (rgt S)) (isTrap_sum_iff.mpr ⟨hT, h2⟩)
        (sub_sum_iff.mpr ⟨hTS, Sub.refl _⟩)
      rw [← this]; rfl
    · have := hmin (Sum.elim (lft S) T) (isTrap_sum_iff.mpr ⟨h1, hT⟩)
        (sub_sum_iff.mpr ⟨Sub.refl _, hTS⟩)
      rw [← this]; rfl
  · rintro ⟨⟨h1, m1⟩, ⟨h2, m2⟩⟩
    refine ⟨isTrap_sum_iff.mpr ⟨h1, h2⟩, fun T hT hTS => ?_⟩
    obtain ⟨t1, t2⟩ := isTrap_sum_iff.mp hT
    obtain ⟨s1, s2⟩ := sub_sum_iff.mp hTS
    rw [← elim_lft_rgt T, ← elim_lft_rgt S, m1 _ t1 s1, m2 _ t2 s2]

/-- Product of two sets of states. -/
def prodSet (A : Set (State ι)) (B : Set (State κ)) : Set (State (ι ⊕ κ)) :=
  {x | lft x ∈ A ∧ rgt x ∈ B}

/-- **P11 / L14 (attractors), ⇐.** The product of two attractors is an attractor of the union. -/
theorem IsAttractor.prod {A : Set (State ι)} {B : Set (State κ)} (hA : IsAttractor f A)
    (hB : IsAttractor g B) : IsAttractor (f.sum g) (prodSet A B) := by
  obtain ⟨a, ha⟩ := hA.1
  obtain ⟨b, hb⟩ := hB.1
  refine ⟨⟨Sum.elim a b, ha, hb⟩, ?_⟩
  rintro x ⟨hx1, hx2⟩ y
  rw [reach_sum_iff, hA.2 _ hx1, hB.2 _ hx2]
  rfl

/-- **P11 / L14 (attractors).** The attractors of the union are exactly the products of
attractors of the components. -/
theorem isAttractor_sum_iff {C : Set (State (ι ⊕ κ))} :
    IsAttractor (f.sum g) C ↔
      ∃ A B, IsAttractor f A ∧ IsAttractor g B ∧ C = prodSet A B := by
  constructor
  · intro hC
    obtain ⟨x, hx⟩ := hC.1
    refine ⟨{a | Reach f (lft x) a}, {b | Reach g (rgt x) b}, ?_, ?_, ?_⟩
    · apply isAttractor_reach_of_returns
      intro a ha
      have hxy : Reach (f.sum g) x (Sum.elim a (rgt x)) :=
        reach_sum_iff.mpr ⟨ha, Reach.refl _⟩
      have hyx := (hC.mutual_reach hx ((hC.2 x hx _).mp hxy)).2
      exact (reach_sum_iff.mp hyx).1
    · apply isAttractor_reach_of_returns
      intro b hb
      have hxy : Reach (f.sum g) x (Sum.elim (lft x) b) :=
        reach_sum_iff.mpr ⟨Reach.refl _, hb⟩
      have hyx := (hC.mutual_reach hx ((hC.2 x hx _).mp hxy)).2
      exact (reach_sum_iff.mp hyx).2
    · rw [hC.eq_reach hx]
      ext y
      exact reach_sum_iff
  · rintro ⟨A, B, hA, hB, rfl⟩
    exact hA.prod hB

end Biobalm
