/-
  Biobalm/Petri.lean — P9 / L4 (siphon direction): for a Petri net that encodes a network inside
  a trap space `S` (places `(v, b)` for the free variables of `S`; every transition moves exactly
  one variable and only reads the others), conflict-free siphons, read with inverted polarity and
  joined with `S`, are exactly the trap spaces of the network inside `S`.

  The encoding is abstract (predicate `Encodes`), following DESIGN.md section 2:
    WF(p): every transition consumes one place of its `chg` variable, produces the other one and
           only reads the rest;
    ∀ x ∈ S, v ∉ dom S:  (∃ t. chg t = v ∧ dir t = d ∧ Enabled t x)  ⇔  upd(N,v,x) = d ∧ x[v] = ¬d.
-/
import Biobalm.Dynamics

namespace Biobalm

set_option linter.unusedSectionVars false

open Classical

variable {ι : Type*} [DecidableEq ι]

/-- A place: variable `v` together with a value `b` ("`v` currently has value `b`"). -/
abbrev Place (ι : Type*) := ι × Bool

/-- A transition that changes variable `chg` to the value `dir` and reads the places `reads`
(each read place is both consumed and produced). -/
structure Transition (ι : Type*) where
  chg : ι
  dir : Bool
  reads : Set (Place ι)

/-- Pre-set: the place of the old value of `chg`, and the read places. -/
def Transition.pre (t : Transition ι) : Set (Place ι) := insert (t.chg, !t.dir) t.reads
/-- Post-set: the place of the new value of `chg`, and the read places. -/
def Transition.post (t : Transition ι) : Set (Place ι) := insert (t.chg, t.dir) t.reads

/-- Well-formedness: read places are about other variables and do not contradict each other. -/
def Transition.WF (t : Transition ι) : Prop :=
  (∀ q ∈ t.reads, q.1 ≠ t.chg) ∧ ∀ j, ¬ ((j, true) ∈ t.reads ∧ (j, false) ∈ t.reads)

/-- The marking of state `x` marks place `(v, x v)` for every `v`; `t` is enabled iff its whole
pre-set is marked. -/
def Transition.Enabled (t : Transition ι) (x : State ι) : Prop := ∀ q ∈ t.pre, x q.1 = q.2

/-- `Encodes(p, N, S)`. -/
structure Encodes (p : Set (Transition ι)) (f : Network ι) (S : Space ι) : Prop where
  wf : ∀ t ∈ p, t.WF
  /-- all places of the net belong to free variables of `S` -/
  free : ∀ t ∈ p, ∀ q ∈ t.pre ∪ t.post, S q.1 = none
  /-- the net fires `v ↦ d` at `x` exactly when the network can -/
  fires : ∀ x, x ∈ₛ S → ∀ v, S v = none → ∀ d : Bool,
    (∃ t ∈ p, t.chg = v ∧ t.dir = d ∧ t.Enabled x) ↔ (f v x = d ∧ x v = !d)

/-- Siphon: every transition that produces into `Q` also consumes from `Q`. -/
def Siphon (p : Set (Transition ι)) (Q : Set (Place ι)) : Prop :=
  ∀ t ∈ p, (∃ q ∈ t.post, q ∈ Q) → ∃ q ∈ t.pre, q ∈ Q

/-- `Q` never contains both places of a variable. -/
def ConflictFree (Q : Set (Place ι)) : Prop := ∀ i, ¬ ((i, true) ∈ Q ∧ (i, false) ∈ Q)

/-- The space of a place set, read with INVERTED polarity and joined with `S`:
`(v, b) ∈ Q` (place stays empty) means `v` is fixed to `¬b`. -/
noncomputable def spaceOf (S : Space ι) (Q : Set (Place ι)) : Space ι := fun i =>
  match S i with
  | some b => some b
  | none => if (i, false) ∈ Q then some true else if (i, true) ∈ Q then some false else none

omit [DecidableEq ι] in
theorem spaceOf_eq_some {S : Space ι} {Q : Set (Place ι)} (hcf : ConflictFree Q) {i : ι}
    {b : Bool} : spaceOf S Q i = some b ↔ S i = some b ∨ (S i = none ∧ (i, !b) ∈ Q) := by
  unfold spaceOf
  cases hS : S i with
  | some c => simp
  | none =>
    have := hcf i
    by_cases h0 : (i, false) ∈ Q <;> by_cases h1 : (i, true) ∈ Q <;> cases b <;> simp_all

omit [DecidableEq ι] in
theorem spaceOf_sub (S : Space ι) (Q : Set (Place ι)) : spaceOf S Q ⊑ S := by
  intro i b h; simp [spaceOf, h]

/-- The place set of a subspace `T` of `S`: the places of free variables of `S` that `T` keeps
empty. -/
def placesOf (S T : Space ι) : Set (Place ι) := {q | S q.1 = none ∧ T q.1 = some (!q.2)}

omit [DecidableEq ι] in
theorem placesOf_conflictFree (S T : Space ι) : ConflictFree (placesOf S T) := by
  rintro i ⟨⟨-, h1⟩, ⟨-, h2⟩⟩
  simp only at h1 h2
  rw [h1] at h2
  cases h2

omit [DecidableEq ι] in
theorem spaceOf_placesOf {S T : Space ι} (hTS : T ⊑ S) : spaceOf S (placesOf S T) = T := by
  funext i
  cases hT : T i with
  | some b =>
    rw [spaceOf_eq_some (placesOf_conflictFree S T)]
    cases hS : S i with
    | some c => left; rw [← hT, hTS i c hS]
    | none => right; exact ⟨rfl, hS, by simp [hT]⟩
  | none =>
    cases h : spaceOf S (placesOf S T) i with
    | none => rfl
    | some b =>
      rw [spaceOf_eq_some (placesOf_conflictFree S T)] at h
      rcases h with h | ⟨-, -, h⟩
      · rw [hTS i b h] at hT; cases hT
      · simp only at h; rw [h] at hT; cases hT

variable {p : Set (Transition ι)} {f : Network ι} {S : Space ι}

theorem Transition.WF.pre_consistent {t : Transition ι} (h : t.WF) (j : ι) :
    ¬ ((j, true) ∈ t.pre ∧ (j, false) ∈ t.pre) := by
  rintro ⟨h1, h2⟩
  unfold Transition.pre at h1 h2
  rw [Set.mem_insert_iff] at h1 h2
  rcases h1 with h1 | h1 <;> rcases h2 with h2 | h2
  · rw [Prod.mk.injEq] at h1 h2
    have := h1.2.trans h2.2.symm
    cases this
  · rw [Prod.mk.injEq] at h1
    exact h.1 _ h2 h1.1
  · rw [Prod.mk.injEq] at h2
    exact h.1 _ h1 h2.1
  · exact h.2 j ⟨h1, h2⟩

/-- **P9 / L4, siphon ⟹ trap space.** -/
theorem Siphon.isTrap (henc : Encodes p f S) (hS : IsTrap f S) {Q : Set (Place ι)}
    (hcf : ConflictFree Q) (hsiph : Siphon p Q) : IsTrap f (spaceOf S Q) := by
  rintro x hx y ⟨i, hne, rfl⟩ j b hj
  have hxS : x ∈ₛ S := (spaceOf_sub S Q).mem hx
  by_cases hji : j = i
  swap
  · rw [Function.update_of_ne hji]; exact hx j b hj
  subst hji
  rw [Function.update_self]
  have hxj : x j = b := hx j b hj
  by_contra hfb
  rcases (spaceOf_eq_some hcf).mp hj with hSj | ⟨hSj, hQ⟩
  · exact hfb (isTrap_iff.mp hS j b hSj x hxS)
  · have hfj : f j x = !b := by cases b <;> cases hf : f j x <;> simp_all
    obtain ⟨t, htp, hchg, hdir, hen⟩ :=
      (henc.fires x hxS j hSj (!b)).mpr ⟨hfj, by simp [hxj]⟩
    have hpost : ∃ q ∈ t.post, q ∈ Q :=
      ⟨(j, !b), by rw [Transition.post, hchg, hdir]; exact Set.mem_insert _ _, hQ⟩
    obtain ⟨q, hqpre, hqQ⟩ := hsiph t htp hpost
    have hxq : x q.1 = q.2 := hen q hqpre
    have hSq : S q.1 = none := henc.free t htp q (Or.inl hqpre)
    have hTq : spaceOf S Q q.1 = some (!q.2) :=
      (spaceOf_eq_some hcf).mpr (Or.inr ⟨hSq, by simpa using hqQ⟩)
    have := hx q.1 _ hTq
    rw [hxq] at this
    cases h : q.2 <;> simp [h] at this

/-- **P9 / L4, trap space ⟹ siphon** (uses well-formedness: every transition is enabled in
some state of every space that is compatible with its pre-set). -/
theorem IsTrap.siphon (henc : Encodes p f S) {Q : Set (Place ι)} (hcf : ConflictFree Q)
    (htrap : IsTrap f (spaceOf S Q)) : Siphon p Q := by
  intro t htp hpost
  by_contra hpre
  push Not at hpre
  obtain ⟨q, hqpost, hqQ⟩ := hpost
  -- the produced place in `Q` must be the `chg` place
  have hq : q = (t.chg, t.dir) := by
    rcases Set.mem_insert_iff.mp hqpost with h | h
    · exact h
    · exact absurd hqQ (hpre q (Set.mem_insert_of_mem _ h))
  subst hq
  set T := spaceOf S Q with hTdef
  have hSchg : S t.chg = none := henc.free t htp _ (Or.inr hqpost)
  have hTchg : T t.chg = some (!t.dir) :=
    (spaceOf_eq_some hcf).mpr (Or.inr ⟨hSchg, by simpa using hqQ⟩)
  -- a state of `T` in which `t` is enabled
  let x : State ι := fun j =>
    if (j, true) ∈ t.pre then true else if (j, false) ∈ t.pre then false
    else T.fill (fun _ => false) j
  have hen : t.Enabled x := by
    rintro ⟨j, c⟩ hq
    have hcons := (henc.wf t htp).pre_consistent j
    cases c
    · have : (j, true) ∉ t.pre := fun h => hcons ⟨h, hq⟩
      simp [x, this, hq]
    · simp [x, hq]
  have hxT : x ∈ₛ T := by
    intro j b hj
    by_cases h1 : (j, true) ∈ t.pre
    · have hSj : S j = none := henc.free t htp _ (Or.inl h1)
      rcases (spaceOf_eq_some hcf).mp hj with h | ⟨-, h⟩
      · rw [hSj] at h; cases h
      · cases b
        · exact absurd h (hpre _ h1)
        · simp [x, h1]
    · by_cases h0 : (j, false) ∈ t.pre
      · have hSj : S j = none := henc.free t htp _ (Or.inl h0)
        rcases (spaceOf_eq_some hcf).mp hj with h | ⟨-, h⟩
        · rw [hSj] at h; cases h
        · cases b
          · simp [x, h1, h0]
          · exact absurd h (hpre _ h0)
      · have : x j = T.fill (fun _ => false) j := by simp [x, h1, h0]
        rw [this]
        exact T.fill_mem _ j b hj
  have hxS : x ∈ₛ S := (spaceOf_sub S Q).mem hxT
  obtain ⟨hf, hxc⟩ := (henc.fires x hxS t.chg hSchg t.dir).mp ⟨t, htp, rfl, rfl, hen⟩
  have hstep : Step f x (Function.update x t.chg (f t.chg x)) :=
    ⟨t.chg, by rw [hf, hxc]; cases t.dir <;> simp, rfl⟩
  have := htrap x hxT _ hstep t.chg _ hTchg
  rw [Function.update_self, hf] at this
  cases h : t.dir <;> simp [h] at this

/-- **P9 / L4 (siphon half), pointwise.** -/
theorem siphon_iff_isTrap (henc : Encodes p f S) (hS : IsTrap f S) {Q : Set (Place ι)}
    (hcf : ConflictFree Q) : Siphon p Q ↔ IsTrap f (spaceOf S Q) :=
  ⟨fun h => h.isTrap henc hS hcf, fun h => h.siphon henc hcf⟩

/-- **P9 / L4 (siphon half), as an equality of sets**: the conflict-free siphons of `p`, read
with inverted polarity and joined with `S`, are exactly the trap spaces of `f` inside `S`. -/
theorem siphon_spaces_eq_trap_spaces (henc : Encodes p f S) (hS : IsTrap f S) :
    {T | ∃ Q, ConflictFree Q ∧ Siphon p Q ∧ T = spaceOf S Q} = {T | T ⊑ S ∧ IsTrap f T} := by
  ext T
  constructor
  · rintro ⟨Q, hcf, hsiph, rfl⟩
    exact ⟨spaceOf_sub S Q, hsiph.isTrap henc hS hcf⟩
  · rintro ⟨hTS, hT⟩
    refine ⟨placesOf S T, placesOf_conflictFree S T, ?_, (spaceOf_placesOf hTS).symm⟩
    apply IsTrap.siphon henc (placesOf_conflictFree S T)
    rw [spaceOf_placesOf hTS]
    exact hT

end Biobalm
