/-
  Biobalm/Shannon.lean — P7 / L6: Shannon expansion, correctness of the DNF obtained by
  recursively splitting on support variables (`optimized_recursive_dnf_generator`,
  petri_net_translation.py:362), and the "implied literal" fact about cubes.
-/
import Biobalm.Basic

namespace Biobalm

set_option linter.unusedSectionVars false

variable {ι : Type*} [DecidableEq ι]

/-- `g|_{v=b}` (AEON `r_restrict`). -/
def restrictFn (g : State ι → Bool) (v : ι) (b : Bool) : State ι → Bool :=
  fun x => g (Function.update x v b)

theorem restrictFn_of_eq {g : State ι → Bool} {v : ι} {b : Bool} {x : State ι} (h : x v = b) :
    restrictFn g v b x = g x := by
  unfold restrictFn
  rw [← h, Function.update_eq_self]

/-- **P7 / L6 (Shannon expansion).** `g ≡ (v ∧ g|_{v=1}) ∨ (¬v ∧ g|_{v=0})`. -/
theorem shannon (g : State ι → Bool) (v : ι) (x : State ι) :
    g x = ((x v && restrictFn g v true x) || (!(x v) && restrictFn g v false x)) := by
  cases h : x v
  · simp [restrictFn_of_eq h]
  · simp [restrictFn_of_eq h]

/-- `i` is in the support of `g`: changing `i` can change the value. -/
def InSupport (g : State ι → Bool) (i : ι) : Prop :=
  ∃ x b, g (Function.update x i b) ≠ g x

theorem not_inSupport_restrictFn_self (g : State ι → Bool) (v : ι) (b : Bool) :
    ¬ InSupport (restrictFn g v b) v := by
  rintro ⟨x, c, h⟩
  apply h
  unfold restrictFn
  rw [Function.update_idem]

theorem InSupport.of_restrictFn {g : State ι → Bool} {v : ι} {b : Bool} {i : ι}
    (h : InSupport (restrictFn g v b) i) : InSupport g i := by
  have hiv : i ≠ v := by rintro rfl; exact not_inSupport_restrictFn_self g i b h
  obtain ⟨x, c, hx⟩ := h
  refine ⟨Function.update x v b, c, ?_⟩
  unfold restrictFn at hx
  rwa [Function.update_comm hiv] at hx

/-- The recursion of `optimized_recursive_dnf_generator`, as a relation between a function and
the list of cubes it yields: constant false ↦ nothing, constant true ↦ the empty cube,
otherwise pick ANY support variable `v` (the heuristic choice is irrelevant), recurse on both
cofactors and tag the cubes with `v = 1` / `v = 0`. -/
inductive SplitDNF : (State ι → Bool) → List (Space ι) → Prop
  | isFalse (g : State ι → Bool) (h : ∀ x, g x = false) : SplitDNF g []
  | isTrue (g : State ι → Bool) (h : ∀ x, g x = true) : SplitDNF g [Space.top]
  | split (g : State ι → Bool) (v : ι) (hv : InSupport g v) (ct cf : List (Space ι))
      (ht : SplitDNF (restrictFn g v true) ct) (hf : SplitDNF (restrictFn g v false) cf) :
      SplitDNF g (ct.map (fun c => Function.update c v (some true)) ++
                  cf.map (fun c => Function.update c v (some false)))

theorem exists_mem_map_update {cs : List (Space ι)} {v : ι} (hfree : ∀ c ∈ cs, c v = none)
    (b : Bool) (x : State ι) :
    (∃ c ∈ cs.map (fun c => Function.update c v (some b)), x ∈ₛ c) ↔
      x v = b ∧ ∃ c ∈ cs, x ∈ₛ c := by
  constructor
  · rintro ⟨c, hc, hx⟩
    obtain ⟨c₀, hc₀, rfl⟩ := List.mem_map.mp hc
    obtain ⟨h1, h2⟩ := (mem_update_iff (hfree c₀ hc₀)).mp hx
    exact ⟨h1, c₀, hc₀, h2⟩
  · rintro ⟨h1, c₀, hc₀, h2⟩
    exact ⟨_, List.mem_map.mpr ⟨c₀, hc₀, rfl⟩, (mem_update_iff (hfree c₀ hc₀)).mpr ⟨h1, h2⟩⟩

/-- **P7 / L6 (recursive DNF).** The cubes mention only support variables, and their
disjunction is equivalent to the function. -/
theorem SplitDNF.correct {g : State ι → Bool} {cs : List (Space ι)} (h : SplitDNF g cs) :
    (∀ c ∈ cs, ∀ i b, c i = some b → InSupport g i) ∧
    ∀ x, g x = true ↔ ∃ c ∈ cs, x ∈ₛ c := by
  induction h with
  | isFalse g h => exact ⟨by simp, fun x => by simp [h x]⟩
  | isTrue g h =>
    refine ⟨?_, fun x => ?_⟩
    · intro c hc i b hi
      rw [List.mem_singleton] at hc
      subst hc
      simp [Space.top] at hi
    · simp only [h x, List.mem_singleton, exists_eq_left, true_iff]
      exact mem_top x
  | split g v hv ct cf _ _ iht ihf =>
    have hfree_t : ∀ c ∈ ct, c v = none := by
      intro c hc
      cases hcv : c v with
      | none => rfl
      | some b => exact absurd (iht.1 c hc v b hcv) (not_inSupport_restrictFn_self g v true)
    have hfree_f : ∀ c ∈ cf, c v = none := by
      intro c hc
      cases hcv : c v with
      | none => rfl
      | some b => exact absurd (ihf.1 c hc v b hcv) (not_inSupport_restrictFn_self g v false)
    refine ⟨?_, fun x => ?_⟩
    · intro c hc i b hi
      rw [List.mem_append] at hc
      by_cases hiv : i = v
      · subst hiv; exact hv
      · rcases hc with hc | hc
        · obtain ⟨c₀, hc₀, rfl⟩ := List.mem_map.mp hc
          rw [Function.update_of_ne hiv] at hi
          exact (iht.1 c₀ hc₀ i b hi).of_restrictFn
        · obtain ⟨c₀, hc₀, rfl⟩ := List.mem_map.mp hc
          rw [Function.update_of_ne hiv] at hi
          exact (ihf.1 c₀ hc₀ i b hi).of_restrictFn
    · have hsplit : (∃ c ∈ ct.map (fun c => Function.update c v (some true)) ++
            cf.map (fun c => Function.update c v (some false)), x ∈ₛ c) ↔
          (x v = true ∧ ∃ c ∈ ct, x ∈ₛ c) ∨ (x v = false ∧ ∃ c ∈ cf, x ∈ₛ c) := by
        rw [← exists_mem_map_update hfree_t, ← exists_mem_map_update hfree_f]
        constructor
        · rintro ⟨c, hc, hx⟩
          rcases List.mem_append.mp hc with hc | hc
          · exact Or.inl ⟨c, hc, hx⟩
          · exact Or.inr ⟨c, hc, hx⟩
        · rintro (⟨c, hc, hx⟩ | ⟨c, hc, hx⟩)
          · exact ⟨c, List.mem_append.mpr (Or.inl hc), hx⟩
          · exact ⟨c, List.mem_append.mpr (Or.inr hc), hx⟩
      rw [hsplit, ← iht.2, ← ihf.2]
      cases hxv : x v
      · simp [restrictFn_of_eq hxv]
      · simp [restrictFn_of_eq hxv]

omit [DecidableEq ι] in
/-- **L6 (implied literal).** A cube (always satisfiable) all of whose states have `x v = b`
contains the literal `v = b`. -/
theorem cube_implies_literal {c : Space ι} {v : ι} {b : Bool}
    (h : ∀ x, x ∈ₛ c → x v = b) : c v = some b := by
  have hx := h _ (c.fill_mem (fun _ => !b))
  cases hc : c v with
  | none =>
    rw [Space.fill_free hc] at hx
    cases b <;> simp at hx
  | some d =>
    simp only [Space.fill, hc, Option.getD_some] at hx
    rw [hx]

end Biobalm
