/-
  Biobalm/Percolation.lean — P2 / L1: value propagation (percolation), its least fixed point,
  order independence (confluence), idempotence; the strict variant of DESIGN.md C11.

  Propagation is parameterised by a predicate `P` on variables ("may be propagated"):
    * `P = fun _ => True`          : ordinary percolation `Perc`
    * `P = NonConst f`             : the strict variant (`PercStrictLFP` of pyvc/theory.py)
  In both variants GIVEN VALUES ARE KEPT even when the update function contradicts them: a step
  only ever fixes a variable that is still free.
-/
import Biobalm.Basic

namespace Biobalm

set_option linter.unusedSectionVars false

open Relation

variable {ι : Type*} [DecidableEq ι]

section Generic

variable (f : Network ι) (P : ι → Prop)

/-- One propagation step: pick a free variable `i` with `P i` whose update function is constant
`b` on the current space and fix it to `b`. -/
def PStep (R R' : Space ι) : Prop :=
  ∃ i b, P i ∧ R i = none ∧ ConstOn (f i) R b ∧ R' = Function.update R i (some b)

/-- No propagation step is possible. -/
def PClosed (R : Space ι) : Prop := ∀ i b, P i → R i = none → ¬ ConstOn (f i) R b

/-- Any finite sequence of propagation steps. -/
abbrev PSteps : Space ι → Space ι → Prop := ReflTransGen (PStep f P)

variable {f P}

theorem pClosed_iff_no_step {R : Space ι} : PClosed f P R ↔ ∀ R', ¬ PStep f P R R' := by
  constructor
  · rintro h R' ⟨i, b, hP, hi, hc, -⟩; exact h i b hP hi hc
  · intro h i b hP hi hc; exact h _ ⟨i, b, hP, hi, hc, rfl⟩

theorem PStep.sub {R R' : Space ι} (h : PStep f P R R') : R' ⊑ R := by
  obtain ⟨i, b, -, hi, -, rfl⟩ := h
  exact update_sub b hi

theorem PSteps.sub {R R' : Space ι} (h : PSteps f P R R') : R' ⊑ R := by
  induction h with
  | refl => exact Sub.refl _
  | tail _ hs ih => exact hs.sub.trans ih

/-- Local confluence in one step (diamond property). -/
theorem PStep.diamond {R R₁ R₂ : Space ι} (h₁ : PStep f P R R₁) (h₂ : PStep f P R R₂) :
    ∃ R₃, ReflGen (PStep f P) R₁ R₃ ∧ ReflTransGen (PStep f P) R₂ R₃ := by
  obtain ⟨i, b, hPi, hi, hci, rfl⟩ := h₁
  obtain ⟨j, c, hPj, hj, hcj, rfl⟩ := h₂
  by_cases hij : i = j
  · subst hij
    have hbc : b = c := hci.unique hcj
    subst hbc
    exact ⟨_, ReflGen.refl, ReflTransGen.refl⟩
  · refine ⟨Function.update (Function.update R i (some b)) j (some c), ReflGen.single ?_,
      ReflTransGen.single ?_⟩
    · exact ⟨j, c, hPj, by rw [Function.update_of_ne (Ne.symm hij)]; exact hj,
        hcj.mono (update_sub b hi), rfl⟩
    · refine ⟨i, b, hPi, by rw [Function.update_of_ne hij]; exact hi,
        hci.mono (update_sub c hj), ?_⟩
      exact Function.update_comm hij _ _ _

/-- Confluence: two runs from the same space can be joined. -/
theorem PSteps.join {S R₁ R₂ : Space ι} (h₁ : PSteps f P S R₁) (h₂ : PSteps f P S R₂) :
    ∃ R₃, PSteps f P R₁ R₃ ∧ PSteps f P R₂ R₃ :=
  church_rosser (fun _ _ _ hab hac => hab.diamond hac) h₁ h₂

theorem PClosed.eq_of_steps {R R' : Space ι} (hc : PClosed f P R) (h : PSteps f P R R') :
    R' = R := by
  rcases ReflTransGen.cases_head h with h | ⟨R₁, hs, -⟩
  · exact h.symm
  · exact absurd hs (pClosed_iff_no_step.mp hc R₁)

/-- **Order independence (uniqueness of normal forms).** Two runs from `S` that can no longer
be extended end in the same space. -/
theorem PSteps.unique {S R₁ R₂ : Space ι} (h₁ : PSteps f P S R₁) (h₂ : PSteps f P S R₂)
    (c₁ : PClosed f P R₁) (c₂ : PClosed f P R₂) : R₁ = R₂ := by
  obtain ⟨R₃, h₁₃, h₂₃⟩ := h₁.join h₂
  rw [← c₁.eq_of_steps h₁₃, ← c₂.eq_of_steps h₂₃]

/-- Every variable that a run fixes beyond its start is justified at the end of the run:
it satisfies `P` and its update function is constant, with that value, on the final space. -/
theorem PSteps.sound {S R : Space ι} (h : PSteps f P S R) {i : ι} {b : Bool}
    (hS : S i = none) (hR : R i = some b) : P i ∧ ConstOn (f i) R b := by
  induction h with
  | refl => rw [hS] at hR; cases hR
  | tail _ hs ih =>
    obtain ⟨j, c, hPj, hj, hcj, rfl⟩ := hs
    by_cases hij : i = j
    · subst hij
      rw [Function.update_self] at hR
      cases hR
      exact ⟨hPj, hcj.mono (update_sub _ hj)⟩
    · rw [Function.update_of_ne hij] at hR
      obtain ⟨h1, h2⟩ := ih hR
      exact ⟨h1, h2.mono (update_sub _ hj)⟩

/-- Every pre-fixed point of the propagation operator above `S` is above every run from `S`. -/
theorem PSteps.least {S R T : Space ι} (h : PSteps f P S R) (hTS : T ⊑ S)
    (hT : ∀ i b, P i → S i = none → ConstOn (f i) T b → T i = some b) : T ⊑ R := by
  induction h with
  | refl => exact hTS
  | tail hSR hs ih =>
    obtain ⟨j, c, hPj, hj, hcj, rfl⟩ := hs
    exact sub_update ih (hT j c hPj ((PSteps.sub hSR).free_of_free hj) (hcj.mono ih))

end Generic

/-! ### Termination and the least fixed point -/

section Lfp

variable [Fintype ι] (f : Network ι) (P : ι → Prop)

/-- Number of free variables of a space. -/
def Space.free (R : Space ι) : ℕ := (Finset.univ.filter (fun i => R i = none)).card

omit [DecidableEq ι] in
theorem free_lt_of_sub_ne {S T : Space ι} (h : T ⊑ S) (hne : T ≠ S) : T.free < S.free := by
  apply Finset.card_lt_card
  rw [Finset.ssubset_iff_of_subset]
  · by_contra hcon
    push Not at hcon
    apply hne
    funext i
    cases hS : S i with
    | some b => exact h i b hS
    | none =>
      have := hcon i (by simp [hS])
      simpa using this
  · intro i hi
    simp only [Finset.mem_filter, Finset.mem_univ, true_and] at hi ⊢
    exact h.free_of_free hi

variable {f P}

theorem PStep.free_lt {R R' : Space ι} (h : PStep f P R R') : R'.free < R.free := by
  apply free_lt_of_sub_ne h.sub
  obtain ⟨i, b, -, hi, -, rfl⟩ := h
  intro he
  have := congrFun he i
  rw [Function.update_self, hi] at this
  cases this

variable (f P)

/-- Every run can be extended to one that can no longer be extended (termination). -/
theorem exists_normal (R : Space ι) : ∃ R', PSteps f P R R' ∧ PClosed f P R' := by
  induction' h : R.free using Nat.strong_induction_on with k ih generalizing R
  by_cases hc : PClosed f P R
  · exact ⟨R, ReflTransGen.refl, hc⟩
  · unfold PClosed at hc
    push Not at hc
    obtain ⟨i, b, hP, hi, hconst⟩ := hc
    have hs : PStep f P R (Function.update R i (some b)) := ⟨i, b, hP, hi, hconst, rfl⟩
    obtain ⟨R', h1, h2⟩ := ih _ (h ▸ hs.free_lt) _ rfl
    exact ⟨R', ReflTransGen.head hs h1, h2⟩

/-- The least fixed point of `P`-propagation starting from `S`: the end of some (equivalently,
by `perc_unique`, of every) maximal run. -/
noncomputable def perc (S : Space ι) : Space ι := Classical.choose (exists_normal f P S)

theorem perc_steps (S : Space ι) : PSteps f P S (perc f P S) :=
  (Classical.choose_spec (exists_normal f P S)).1

/-- `perc` is closed: no further propagation is possible. -/
theorem perc_closed (S : Space ι) : PClosed f P (perc f P S) :=
  (Classical.choose_spec (exists_normal f P S)).2

/-- `perc` extends its argument (as a partial map; i.e. it is a subspace of it). -/
theorem perc_sub (S : Space ι) : perc f P S ⊑ S := (perc_steps f P S).sub

variable {f P}

/-- **Order independence.**  ANY sequence of single propagation steps from `S` that can no
longer be extended ends in `perc f P S`. -/
theorem perc_unique {S R : Space ι} (h : PSteps f P S R) (hc : PClosed f P R) :
    R = perc f P S :=
  h.unique (perc_steps f P S) hc (perc_closed f P S)

/-- Every partial run stays above the least fixed point. -/
theorem perc_sub_of_steps {S R : Space ι} (h : PSteps f P S R) : perc f P S ⊑ R := by
  obtain ⟨R', h1, h2⟩ := exists_normal f P R
  rw [← perc_unique (h.trans h1) h2]
  exact h1.sub

/-- A run can be continued from any intermediate space without changing the result. -/
theorem perc_of_steps {S R : Space ι} (h : PSteps f P S R) : perc f P R = perc f P S :=
  perc_unique (h.trans (perc_steps f P R)) (perc_closed f P R)

variable (f P)

/-- `perc` is idempotent. -/
theorem perc_idem (S : Space ι) : perc f P (perc f P S) = perc f P S :=
  perc_of_steps (perc_steps f P S)

/-- A closed space is its own percolation. -/
theorem perc_eq_self_iff {S : Space ι} : perc f P S = S ↔ PClosed f P S :=
  ⟨fun h => h ▸ perc_closed f P S, fun h => (perc_unique ReflTransGen.refl h).symm⟩

/-- Soundness: every newly fixed variable satisfies `P` and its update function is constant,
with the assigned value, on the result. -/
theorem perc_sound {S : Space ι} {i : ι} {b : Bool} (hS : S i = none)
    (hR : perc f P S i = some b) : P i ∧ ConstOn (f i) (perc f P S) b :=
  (perc_steps f P S).sound hS hR

/-- Leastness: every pre-fixed point above `S` is above `perc f P S`. -/
theorem perc_least {S T : Space ι} (hTS : T ⊑ S)
    (hT : ∀ i b, P i → S i = none → ConstOn (f i) T b → T i = some b) : T ⊑ perc f P S :=
  (perc_steps f P S).least hTS hT

/-- Closedness, positively: a propagatable variable whose function is constant `b` on the result
and whose given value (if any) is not the opposite one is fixed to `b` in the result. -/
theorem perc_fixes {S : Space ι} {i : ι} {b : Bool} (hP : P i)
    (hc : ConstOn (f i) (perc f P S) b) (hS : S i ≠ some (!b)) : perc f P S i = some b := by
  cases hR : perc f P S i with
  | none => exact absurd hc (perc_closed f P S i b hP hR)
  | some c =>
    cases hSi : S i with
    | none => rw [(perc_sound f P hSi hR).2.unique hc]
    | some d =>
      have h1 : perc f P S i = some d := perc_sub f P S i d hSi
      rw [hR] at h1
      cases h1
      cases b <;> cases c <;> simp_all

/-! ### The parallel propagation operator and the fixed-point characterisation -/

open Classical in
/-- The (parallel) propagation operator relative to the given space `S`:
keep `S`; every other `P`-variable gets the value of its update function on `R` if definite. -/
noncomputable def propOp (S R : Space ι) : Space ι := fun i =>
  match S i with
  | some b => some b
  | none => if P i then evalOn (f i) R else none

omit [DecidableEq ι] [Fintype ι] in
theorem propOp_eq_some {S R : Space ι} {i : ι} {b : Bool} :
    propOp f P S R i = some b ↔ S i = some b ∨ (S i = none ∧ P i ∧ ConstOn (f i) R b) := by
  unfold propOp
  cases hS : S i with
  | some c => simp
  | none =>
    by_cases hP : P i
    · simp [hP, evalOn_eq_some]
    · simp [hP]

/-- **The propagation operator is monotone** (in the order "fixes at least as much"). -/
theorem propOp_mono (S : Space ι) {R R' : Space ι} (h : R' ⊑ R) :
    propOp f P S R' ⊑ propOp f P S R := by
  intro i b hb
  rw [propOp_eq_some] at hb ⊢
  rcases hb with hb | ⟨h1, h2, h3⟩
  · exact Or.inl hb
  · exact Or.inr ⟨h1, h2, h3.mono h⟩

/-- `perc f P S` is a fixed point of the propagation operator … -/
theorem propOp_perc (S : Space ι) : propOp f P S (perc f P S) = perc f P S := by
  apply Sub.antisymm
  · intro i b hb
    rw [propOp_eq_some]
    cases hS : S i with
    | some c =>
      left
      rw [← hb, perc_sub f P S i c hS]
    | none =>
      right
      exact ⟨rfl, perc_sound f P hS hb⟩
  · intro i b hb
    rw [propOp_eq_some] at hb
    rcases hb with hb | ⟨h1, h2, h3⟩
    · exact perc_sub f P S i b hb
    · exact perc_fixes f P h2 h3 (by rw [h1]; simp)

/-- … and it is the LEAST pre-fixed point: any `T` that contains (as a partial map) its own image
under the operator contains `perc f P S`. -/
theorem perc_least_prefixed {S T : Space ι} (hT : T ⊑ propOp f P S T) : T ⊑ perc f P S := by
  apply perc_least
  · intro i b hb
    exact hT i b ((propOp_eq_some f P).mpr (Or.inl hb))
  · intro i b hP hS hc
    exact hT i b ((propOp_eq_some f P).mpr (Or.inr ⟨hS, hP, hc⟩))

/-! ### Round-based (parallel) evaluation is a run

One application of the operator to the current space (fix, simultaneously, every free variable
whose update function is definite on the current space) can be simulated by single steps, and a
round that changes nothing certifies closedness.  Hence every loop of the form
"repeat rounds until nothing changes" computes `perc f P S`, whatever it does inside a round. -/

omit [Fintype ι] in
theorem propOp_self_of_fixed {R : Space ι} {i : ι} {b : Bool} (h : R i = some b) :
    propOp f P R R i = some b := (propOp_eq_some f P).mpr (Or.inl h)

omit [Fintype ι] in
/-- Applying the operator only on the variables of a finite set `s` is a run. -/
theorem pSteps_round_finset (R : Space ι) (s : Finset ι) :
    PSteps f P R (fun i => if i ∈ s then propOp f P R R i else R i) := by
  induction s using Finset.induction_on with
  | empty =>
    have : (fun i => if i ∈ (∅ : Finset ι) then propOp f P R R i else R i) = R := by
      funext i; simp
    rw [this]
  | insert a s ha ih =>
    set Rs : Space ι := fun i => if i ∈ s then propOp f P R R i else R i with hRs
    have hsub : Rs ⊑ R := by
      intro i b hi
      by_cases his : i ∈ s
      · simp only [hRs, his, if_true]; exact propOp_self_of_fixed f P hi
      · simp only [hRs, his, if_false]; exact hi
    have hRsa : Rs a = R a := by simp [hRs, ha]
    by_cases heq : propOp f P R R a = R a
    · have : (fun i => if i ∈ insert a s then propOp f P R R i else R i) = Rs := by
        funext i
        by_cases hia : i = a
        · subst hia; simp [hRs, ha, heq]
        · simp [hRs, hia]
      rw [this]; exact ih
    · have hRa : R a = none := by
        cases h : R a with
        | none => rfl
        | some b => exact absurd (by rw [propOp_self_of_fixed f P h, h]) heq
      obtain ⟨b, hb⟩ : ∃ b, propOp f P R R a = some b := by
        cases h : propOp f P R R a with
        | none => exact absurd (by rw [h, hRa]) heq
        | some b => exact ⟨b, rfl⟩
      rcases (propOp_eq_some f P).mp hb with h | ⟨-, hP, hc⟩
      · rw [hRa] at h; cases h
      · refine ReflTransGen.tail ih ⟨a, b, hP, by rw [hRsa, hRa], hc.mono hsub, ?_⟩
        funext i
        by_cases hia : i = a
        · subst hia; simp [hb]
        · simp [hRs, hia]

/-- One full round of the parallel operator is a run. -/
theorem pSteps_round (R : Space ι) : PSteps f P R (propOp f P R R) := by
  have := pSteps_round_finset f P R Finset.univ
  simpa using this

omit [Fintype ι] in
/-- A round that changes nothing certifies closedness. -/
theorem pClosed_of_round_eq {R : Space ι} (h : propOp f P R R = R) : PClosed f P R := by
  intro i b hP hi hc
  have := (propOp_eq_some f P).mpr (Or.inr ⟨hi, hP, hc⟩)
  rw [h, hi] at this
  cases this

/-- **Round-based loops are correct**: if `R` is reached from `S` by propagation (single steps
and/or whole rounds, in any order) and a further round changes nothing, then `R = perc f P S`. -/
theorem perc_eq_of_round_fixed {S R : Space ι} (h : PSteps f P S R)
    (hfix : propOp f P R R = R) : R = perc f P S :=
  perc_unique h (pClosed_of_round_eq f P hfix)

end Lfp

/-! ### The two instances -/

section Instances

variable [Fintype ι] (f : Network ι)

/-- Ordinary percolation `Perc(N,S)`: every free variable may be propagated. -/
noncomputable def Perc (S : Space ι) : Space ι := perc f (fun _ => True) S

/-- The update function of `i` is not constant on the whole state space. -/
def NonConst (i : ι) : Prop := ∀ b, ¬ ∀ x, f i x = b

omit [DecidableEq ι] [Fintype ι] in
theorem nonConst_iff_evalOn (i : ι) : NonConst f i ↔ evalOn (f i) Space.top = none := by
  rw [evalOn_eq_none]
  constructor
  · intro h b hb; exact h b (fun x => hb x (mem_top x))
  · intro h b hb; exact h b (fun x _ => hb x)

/-- `PercStrictLFP(N,S)`: closure of `S` under propagation of non-constant update functions. -/
noncomputable def strictLfp (S : Space ι) : Space ι := perc f (NonConst f) S

/-- **L1.strict_lfp_extends.** -/
theorem strictLfp_extends (S : Space ι) : strictLfp f S ⊑ S := perc_sub _ _ S

/-- **L1.strict_lfp_closed.**  `v` non-constant, `EvalOn(upd v, LFP) = b`, and not
(`v ∈ dom S` and `S[v] ≠ b`)  ⟹  `LFP[v] = b`. -/
theorem strictLfp_closed {S : Space ι} {v : ι} {b : Bool} (hv : NonConst f v)
    (he : evalOn (f v) (strictLfp f S) = some b) (hS : S v ≠ some (!b)) :
    strictLfp f S v = some b :=
  perc_fixes _ _ hv (evalOn_eq_some.mp he) hS

/-- **L1.strict_lfp_sound.**  `v ∈ dom LFP \ dom S` ⟹ `v` is non-constant and
`EvalOn(upd v, LFP) = LFP[v]`. -/
theorem strictLfp_sound {S : Space ι} {v : ι} {b : Bool} (hS : S v = none)
    (hR : strictLfp f S v = some b) :
    NonConst f v ∧ evalOn (f v) (strictLfp f S) = some b := by
  obtain ⟨h1, h2⟩ := perc_sound _ _ hS hR
  exact ⟨h1, evalOn_eq_some.mpr h2⟩

/-- **L1.strict_lfp_least.**  If `T` extends `S`, is closed under strict propagation and only
assigns forced values outside `dom S`, then `T` extends the strict least fixed point. -/
theorem strictLfp_least {S T : Space ι} (hTS : T ⊑ S)
    (hclosed : ∀ v, NonConst f v → T v = none → evalOn (f v) T = none)
    (hforced : ∀ v b, S v = none → T v = some b → evalOn (f v) T = some b) :
    T ⊑ strictLfp f S := by
  apply perc_least _ _ hTS
  intro v b hv hS hc
  cases hT : T v with
  | none =>
    have := hclosed v hv hT
    rw [evalOn_eq_some.mpr hc] at this
    cases this
  | some c =>
    have := hforced v c hS hT
    rw [evalOn_eq_some.mpr hc] at this
    cases this; rfl

/-- The stronger pre-fixed-point form of leastness. -/
theorem strictLfp_least' {S T : Space ι} (hTS : T ⊑ S)
    (hT : ∀ v b, NonConst f v → S v = none → evalOn (f v) T = some b → T v = some b) :
    T ⊑ strictLfp f S :=
  perc_least _ _ hTS (fun v b hv hS hc => hT v b hv hS (evalOn_eq_some.mpr hc))

/-- **Order independence of the strict loop**: any maximal run of single strict propagation
steps from `S` ends in `strictLfp f S`. -/
theorem strictLfp_unique {S R : Space ι} (h : PSteps f (NonConst f) S R)
    (hc : PClosed f (NonConst f) R) : R = strictLfp f S := perc_unique h hc

open Classical in
/-- The dictionary returned by `percolate_space_strict` (DESIGN.md C11):
`{v ↦ b | upd_v not constant, Const(N,v,R*,b), v ∉ dom S ∨ S[v] = b}` with `R* = strictLfp f S`. -/
noncomputable def strictResult (S : Space ι) : Space ι := fun v =>
  if NonConst f v then
    match evalOn (f v) (strictLfp f S) with
    | some b => if S v = some (!b) then none else some b
    | none => none
  else none

theorem strictResult_eq_some {S : Space ι} {v : ι} {b : Bool} :
    strictResult f S v = some b ↔
      NonConst f v ∧ ConstOn (f v) (strictLfp f S) b ∧ (S v = none ∨ S v = some b) := by
  unfold strictResult
  by_cases hv : NonConst f v
  · simp only [hv, if_true, true_and]
    cases he : evalOn (f v) (strictLfp f S) with
    | none =>
      simp only [false_iff, reduceCtorEq]
      rintro ⟨hc, -⟩
      rw [evalOn_eq_some.mpr hc] at he; cases he
    | some c =>
      have hcc := evalOn_eq_some.mp he
      constructor
      · intro h
        dsimp only at h
        split_ifs at h with h1
        cases h
        refine ⟨hcc, ?_⟩
        cases hS : S v with
        | none => exact Or.inl rfl
        | some d => right; rw [hS] at h1; cases b <;> cases d <;> simp_all
      · rintro ⟨hc, hS⟩
        have : c = b := hcc.unique hc
        subst this
        have : S v ≠ some (!c) := by
          rcases hS with hS | hS <;> rw [hS] <;> simp
        simp [this]
  · simp [hv]

/-- The reported dictionary is a part of the closure, and agrees with it outside `dom S`. -/
theorem strictResult_sub_lfp {S : Space ι} {v : ι} {b : Bool}
    (h : strictResult f S v = some b) : strictLfp f S v = some b := by
  obtain ⟨hv, hc, hS⟩ := (strictResult_eq_some f).mp h
  apply perc_fixes _ _ hv hc
  rcases hS with hS | hS <;> rw [hS] <;> simp

theorem strictResult_eq_lfp_of_free {S : Space ι} {v : ι} (hS : S v = none) :
    strictResult f S v = strictLfp f S v := by
  cases hR : strictLfp f S v with
  | some b =>
    obtain ⟨h1, h2⟩ := perc_sound _ _ hS hR
    exact (strictResult_eq_some f).mpr ⟨h1, h2, Or.inl hS⟩
  | none =>
    cases hr : strictResult f S v with
    | none => rfl
    | some b => rw [strictResult_sub_lfp f hr] at hR; cases hR

/-! Named L1 facts for ordinary percolation. -/

theorem Perc_sub (S : Space ι) : Perc f S ⊑ S := perc_sub _ _ S
theorem Perc_idem (S : Space ι) : Perc f (Perc f S) = Perc f S := perc_idem _ _ S
theorem Perc_closed (S : Space ι) {i : ι} (hi : Perc f S i = none) :
    evalOn (f i) (Perc f S) = none :=
  evalOn_eq_none.mpr (fun b => perc_closed f (fun _ => True) S i b trivial hi)
theorem Perc_sound {S : Space ι} {i : ι} {b : Bool} (hS : S i = none)
    (hR : Perc f S i = some b) : evalOn (f i) (Perc f S) = some b :=
  evalOn_eq_some.mpr (perc_sound _ _ hS hR).2
theorem Perc_unique {S R : Space ι} (h : PSteps f (fun _ => True) S R)
    (hc : PClosed f (fun _ => True) R) : R = Perc f S := perc_unique h hc

end Instances

end Biobalm
