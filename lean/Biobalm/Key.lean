/-
  Biobalm/Key.lean — P6 / L10: the base-4 digit lemma for `key |= (v + 2) << (2 * i)`
  (`space_unique_key`, space_utils.py:517) and injectivity of the key of a space.
-/
import Mathlib.Data.Nat.Bitwise
import Mathlib.Algebra.BigOperators.Fin
import Mathlib.Tactic

namespace Biobalm

/-- Base-4 digit `i` of `k`, i.e. bits `2i` and `2i+1`. -/
def digit (k i : ℕ) : ℕ := (k >>> (2 * i)) % 4

theorem digit_lt (k i : ℕ) : digit k i < 4 := Nat.mod_lt _ (by norm_num)

theorem digit_eq_div (k i : ℕ) : digit k i = k / 4 ^ i % 4 := by
  unfold digit
  rw [Nat.shiftRight_eq_div_pow, pow_mul]
  norm_num

theorem testBit_digit (k i m : ℕ) :
    (digit k i).testBit m = (decide (m < 2) && k.testBit (2 * i + m)) := by
  unfold digit
  rw [show (4 : ℕ) = 2 ^ 2 by norm_num, Nat.testBit_mod_two_pow, Nat.testBit_shiftRight]

/-- Two numbers with the same base-4 digits are equal. -/
theorem eq_of_digit_eq {a b : ℕ} (h : ∀ i, digit a i = digit b i) : a = b := by
  apply Nat.eq_of_testBit_eq
  intro m
  have h1 := testBit_digit a (m / 2) (m % 2)
  have h2 := testBit_digit b (m / 2) (m % 2)
  have hm : 2 * (m / 2) + m % 2 = m := Nat.div_add_mod m 2
  have hlt : m % 2 < 2 := Nat.mod_lt _ (by norm_num)
  rw [hm] at h1 h2
  simp only [hlt, decide_true, Bool.true_and] at h1 h2
  rw [← h1, ← h2, h]

theorem testBit_of_digit_eq_zero {k i : ℕ} (h : digit k i = 0) {m : ℕ} (hm : m < 2) :
    k.testBit (2 * i + m) = false := by
  have := testBit_digit k i m
  rw [h, Nat.zero_testBit] at this
  simpa [hm] using this.symm

theorem testBit_eq_false_of_lt_four {d : ℕ} (hd : d < 4) {m : ℕ} (hm : 2 ≤ m) :
    d.testBit m = false := by
  apply Nat.testBit_lt_two_pow
  calc d < 2 ^ 2 := by norm_num; exact hd
    _ ≤ 2 ^ m := Nat.pow_le_pow_right (by norm_num) hm

/-- **P6 / L10 (digit lemma), part 1.** If digit `i` of `key` is `0` and `d < 4`, then digit `i`
of `key ||| (d <<< (2*i))` is `d`. -/
theorem digit_lor_shift_self {key i d : ℕ} (hk : digit key i = 0) (hd : d < 4) :
    digit (key ||| (d <<< (2 * i))) i = d := by
  apply Nat.eq_of_testBit_eq
  intro m
  rw [testBit_digit, Nat.testBit_lor, Nat.testBit_shiftLeft]
  by_cases hm : m < 2
  · rw [testBit_of_digit_eq_zero hk hm]
    simp [hm]
  · rw [testBit_eq_false_of_lt_four hd (show 2 ≤ m by omega)]
    simp [hm]

/-- **P6 / L10 (digit lemma), part 2.** Every other digit is unchanged (this part needs no
hypothesis on `key`). -/
theorem digit_lor_shift_other {key i d : ℕ} (hd : d < 4) {j : ℕ} (hj : j ≠ i) :
    digit (key ||| (d <<< (2 * i))) j = digit key j := by
  apply Nat.eq_of_testBit_eq
  intro m
  rw [testBit_digit, testBit_digit, Nat.testBit_lor, Nat.testBit_shiftLeft]
  by_cases hm : m < 2
  · rcases Nat.lt_or_gt_of_ne hj with hlt | hgt
    · have : ¬ (2 * j + m ≥ 2 * i) := by omega
      simp [this]
    · rw [testBit_eq_false_of_lt_four hd (by omega : 2 ≤ 2 * j + m - 2 * i)]
      simp
  · simp [hm]

/-- **P6 / L10**, both parts. -/
theorem digit_lor_shift {key i d : ℕ} (hk : digit key i = 0) (hd : d < 4) :
    digit (key ||| (d <<< (2 * i))) i = d ∧
    ∀ j, j ≠ i → digit (key ||| (d <<< (2 * i))) j = digit key j :=
  ⟨digit_lor_shift_self hk hd, fun _ hj => digit_lor_shift_other hd hj⟩

/-! ### The key of a space -/

/-- Digit code of a space entry: free = 0, fixed to 0 = 2, fixed to 1 = 3 (`v + 2`). -/
def code : Option Bool → ℕ
  | none => 0
  | some false => 2
  | some true => 3

theorem code_lt (o : Option Bool) : code o < 4 := by
  rcases o with _ | _ | _ <;> simp [code]

theorem code_injective : Function.Injective code := by
  intro a b h
  rcases a with _ | _ | _ <;> rcases b with _ | _ | _ <;> simp [code] at h ⊢

/-- `key(S) = Σ_i code(S i) * 4^i`. -/
def keyOf {n : ℕ} (S : Fin n → Option Bool) : ℕ := ∑ i : Fin n, code (S i) * 4 ^ (i : ℕ)

theorem keyOf_succ {n : ℕ} (S : Fin (n + 1) → Option Bool) :
    keyOf S = code (S 0) + 4 * keyOf (fun i : Fin n => S i.succ) := by
  unfold keyOf
  rw [Fin.sum_univ_succ, Finset.mul_sum]
  congr 1
  · simp
  · apply Finset.sum_congr rfl
    intro i _
    simp only [Fin.val_succ, pow_succ]
    ring

theorem digit_add_four_mul_zero {c k : ℕ} (hc : c < 4) : digit (c + 4 * k) 0 = c := by
  rw [digit_eq_div]; simp; omega

theorem digit_add_four_mul_succ {c k : ℕ} (hc : c < 4) (j : ℕ) :
    digit (c + 4 * k) (j + 1) = digit k j := by
  rw [digit_eq_div, digit_eq_div, pow_succ, mul_comm (4 ^ j) 4, ← Nat.div_div_eq_div_mul]
  have : (c + 4 * k) / 4 = k := by omega
  rw [this]

/-- Digit `i` of the key of `S` is the code of `S i`. -/
theorem digit_keyOf {n : ℕ} (S : Fin n → Option Bool) (i : Fin n) :
    digit (keyOf S) i = code (S i) := by
  induction n with
  | zero => exact i.elim0
  | succ n ih =>
    rw [keyOf_succ]
    refine Fin.cases ?_ (fun j => ?_) i
    · exact digit_add_four_mul_zero (code_lt _)
    · rw [Fin.val_succ, digit_add_four_mul_succ (code_lt _), ih]

/-- Digits beyond the dimension are zero. -/
theorem digit_keyOf_ge {n : ℕ} (S : Fin n → Option Bool) {j : ℕ} (hj : n ≤ j) :
    digit (keyOf S) j = 0 := by
  induction n generalizing j with
  | zero => simp [keyOf, digit]
  | succ n ih =>
    rw [keyOf_succ]
    obtain ⟨j', rfl⟩ : ∃ j', j = j' + 1 := ⟨j - 1, by omega⟩
    rw [digit_add_four_mul_succ (code_lt _)]
    exact ih _ (by omega)

/-- **P6 / L10 (injectivity).** The key determines the space. -/
theorem keyOf_injective {n : ℕ} : Function.Injective (keyOf (n := n)) := by
  intro S T h
  funext i
  apply code_injective
  rw [← digit_keyOf S i, ← digit_keyOf T i, h]

/-! ### The loop of `space_unique_key`

`key = 0; for (var, v) in space.items(): key |= (v + 2) << (2 * int(var))` — the fold over ANY
duplicate-free enumeration `l` of variable indices produces the number whose digit `j` is
`code (S j)` for `j ∈ l` and untouched otherwise; over an enumeration of `dom S` it is `keyOf S`. -/

/-- The loop, started from accumulator `k`. -/
def keyFold (c : ℕ → ℕ) (k : ℕ) (l : List ℕ) : ℕ :=
  l.foldl (fun acc i => acc ||| (c i <<< (2 * i))) k

theorem digit_keyFold (c : ℕ → ℕ) (hc : ∀ i, c i < 4) (l : List ℕ) (hl : l.Nodup) (k : ℕ)
    (hk : ∀ i ∈ l, digit k i = 0) (j : ℕ) :
    digit (keyFold c k l) j = if j ∈ l then c j else digit k j := by
  induction l generalizing k with
  | nil => simp [keyFold]
  | cons a l ih =>
    have hnd := List.nodup_cons.mp hl
    have ha0 : digit k a = 0 := hk a (by simp)
    have hk' : ∀ i ∈ l, digit (k ||| (c a <<< (2 * a))) i = 0 := by
      intro i hi
      have hia : i ≠ a := by rintro rfl; exact hnd.1 hi
      rw [digit_lor_shift_other (hc a) hia]
      exact hk i (by simp [hi])
    have := ih hnd.2 (k ||| (c a <<< (2 * a))) hk'
    unfold keyFold at this ⊢
    rw [List.foldl_cons, this]
    by_cases hjl : j ∈ l
    · simp [hjl]
    · by_cases hja : j = a
      · subst hja
        simp [hjl, digit_lor_shift_self ha0 (hc j)]
      · simp [hjl, hja, digit_lor_shift_other (hc a) hja]

/-- The loop over a duplicate-free enumeration of the fixed variables of `S` computes `keyOf S`. -/
theorem keyFold_eq_keyOf {n : ℕ} (S : Fin n → Option Bool) (l : List ℕ) (hl : l.Nodup)
    (hdom : ∀ j, j ∈ l ↔ ∃ h : j < n, S ⟨j, h⟩ ≠ none) :
    keyFold (fun j => if h : j < n then code (S ⟨j, h⟩) else 0) 0 l = keyOf S := by
  apply eq_of_digit_eq
  intro j
  have hc : ∀ i, (fun j => if h : j < n then code (S ⟨j, h⟩) else 0) i < 4 := by
    intro i; dsimp only; split_ifs
    · exact code_lt _
    · norm_num
  rw [digit_keyFold _ hc l hl 0 (fun i _ => by simp [digit])]
  by_cases hjn : j < n
  · rw [digit_keyOf S ⟨j, hjn⟩]
    by_cases hjl : j ∈ l
    · simp [hjl, hjn]
    · have : S ⟨j, hjn⟩ = none := by
        by_contra hne
        exact hjl ((hdom j).mpr ⟨hjn, hne⟩)
      simp [hjl, this, code, digit]
  · have hjl : j ∉ l := fun hjl => hjn ((hdom j).mp hjl).1
    rw [digit_keyOf_ge S (by omega)]
    simp [hjl, digit]

end Biobalm
