/-
  Biobalm/Dynamics.lean — asynchronous dynamics, reachability, trap sets / trap spaces,
  attractors, and P5 / L8 (terminal-SCC facts).
-/
import Biobalm.Basic

namespace Biobalm

set_option linter.unusedSectionVars false

open Relation

variable {ι : Type*} [DecidableEq ι]

/-- Asynchronous step: `y` is `x` with exactly one coordinate `i` changed, to `f i x`. -/
def Step (f : Network ι) (x y : State ι) : Prop :=
  ∃ i, f i x ≠ x i ∧ y = Function.update x i (f i x)

/-- The informal definition: `y` differs from `x` in exactly one coordinate `i`, and `y i = f i x`. -/
theorem step_iff {f : Network ι} {x y : State ι} :
    Step f x y ↔ ∃ i, y i ≠ x i ∧ (∀ j, j ≠ i → y j = x j) ∧ y i = f i x := by
  constructor
  · rintro ⟨i, hne, rfl⟩
    refine ⟨i, by simpa using hne, fun j hj => Function.update_of_ne hj _ _, by simp⟩
  · rintro ⟨i, hne, hoth, hi⟩
    refine ⟨i, by rwa [← hi], ?_⟩
    funext j
    by_cases hj : j = i
    · subst hj; simp [hi]
    · rw [Function.update_of_ne hj]; exact hoth j hj

/-- Reachability: reflexive-transitive closure of the asynchronous step. -/
def Reach (f : Network ι) : State ι → State ι → Prop := ReflTransGen (Step f)

theorem Reach.refl {f : Network ι} (x : State ι) : Reach f x x := ReflTransGen.refl
theorem Reach.trans {f : Network ι} {x y z : State ι} (h₁ : Reach f x y) (h₂ : Reach f y z) :
    Reach f x z := ReflTransGen.trans h₁ h₂
theorem Step.reach {f : Network ι} {x y : State ι} (h : Step f x y) : Reach f x y :=
  ReflTransGen.single h

/-- A set of states closed under the dynamics. -/
def IsTrapSet (f : Network ι) (A : Set (State ι)) : Prop := ∀ x ∈ A, ∀ y, Step f x y → y ∈ A

theorem IsTrapSet.reach {f : Network ι} {A : Set (State ι)} (hA : IsTrapSet f A)
    {x y : State ι} (hx : x ∈ A) (h : Reach f x y) : y ∈ A := by
  induction h with
  | refl => exact hx
  | tail _ hs ih => exact hA _ ih _ hs

/-- Trap space: every state of `S` steps only inside `S`. -/
def IsTrap (f : Network ι) (S : Space ι) : Prop := ∀ x, x ∈ₛ S → ∀ y, Step f x y → y ∈ₛ S

theorem isTrap_iff_trapSet {f : Network ι} {S : Space ι} :
    IsTrap f S ↔ IsTrapSet f {x | x ∈ₛ S} := Iff.rfl

/-- The `Trap(N,S)` of DESIGN.md: `∀ v ∈ dom S. Const(N,v,S,S[v])`. -/
theorem isTrap_iff {f : Network ι} {S : Space ι} :
    IsTrap f S ↔ ∀ i b, S i = some b → ConstOn (f i) S b := by
  constructor
  · intro h i b hi x hx
    by_contra hne
    have hxi : x i = b := hx i b hi
    have hs : Step f x (Function.update x i (f i x)) := ⟨i, by rw [hxi]; exact hne, rfl⟩
    have := h x hx _ hs i b hi
    rw [Function.update_self] at this
    exact hne this
  · rintro h x hx y ⟨i, -, rfl⟩ j b hj
    by_cases hji : j = i
    · subst hji
      rw [Function.update_self]
      exact h j b hj x hx
    · rw [Function.update_of_ne hji]
      exact hx j b hj

theorem IsTrap.reach {f : Network ι} {S : Space ι} (hS : IsTrap f S) {x y : State ι}
    (hx : x ∈ₛ S) (h : Reach f x y) : y ∈ₛ S :=
  IsTrapSet.reach (A := {x | x ∈ₛ S}) hS hx h

theorem isTrap_top (f : Network ι) : IsTrap f Space.top := fun _ _ y _ => mem_top y

/-- Attractor: a non-empty set `A` with `∀ x ∈ A, ∀ y, Reach x y ↔ y ∈ A`. -/
def IsAttractor (f : Network ι) (A : Set (State ι)) : Prop :=
  A.Nonempty ∧ ∀ x ∈ A, ∀ y, Reach f x y ↔ y ∈ A

/-- Minimal trap space. -/
def IsMinTrap (f : Network ι) (M : Space ι) : Prop :=
  IsTrap f M ∧ ∀ T, IsTrap f T → T ⊑ M → T = M

/-! ### P5 / L8 -/

variable {f : Network ι}

/-- **L8 (a).** An attractor is the reachability set of any of its states. -/
theorem IsAttractor.eq_reach {A : Set (State ι)} (hA : IsAttractor f A) {x : State ι}
    (hx : x ∈ A) : A = {y | Reach f x y} := by
  ext y; exact (hA.2 x hx y).symm

theorem IsAttractor.trapSet {A : Set (State ι)} (hA : IsAttractor f A) : IsTrapSet f A :=
  fun x hx y hs => (hA.2 x hx y).mp hs.reach

/-- **L8 (c).** Two states of the same attractor reach each other. -/
theorem IsAttractor.mutual_reach {A : Set (State ι)} (hA : IsAttractor f A) {x y : State ι}
    (hx : x ∈ A) (hy : y ∈ A) : Reach f x y ∧ Reach f y x :=
  ⟨(hA.2 x hx y).mpr hy, (hA.2 y hy x).mpr hx⟩

/-- If every state reachable from `x` reaches `x` back, then `Reach x` is an attractor. -/
theorem isAttractor_reach_of_returns {x : State ι} (h : ∀ y, Reach f x y → Reach f y x) :
    IsAttractor f {y | Reach f x y} := by
  refine ⟨⟨x, Reach.refl x⟩, ?_⟩
  intro y hy z
  exact ⟨fun hyz => Reach.trans hy hyz, fun hz => (h y hy).trans hz⟩

/-- **L8 (b).** `x` lies in some attractor iff every state reachable from `x` reaches `x`. -/
theorem mem_attractor_iff {x : State ι} :
    (∃ A, IsAttractor f A ∧ x ∈ A) ↔ ∀ y, Reach f x y → Reach f y x := by
  constructor
  · rintro ⟨A, hA, hx⟩ y hxy
    exact (hA.mutual_reach hx ((hA.2 x hx y).mp hxy)).2
  · intro h
    exact ⟨_, isAttractor_reach_of_returns h, Reach.refl x⟩

/-- Two attractors that share a state are equal. -/
theorem IsAttractor.eq_of_mem {A B : Set (State ι)} (hA : IsAttractor f A) (hB : IsAttractor f B)
    {x : State ι} (hxA : x ∈ A) (hxB : x ∈ B) : A = B := by
  rw [hA.eq_reach hxA, hB.eq_reach hxB]

/-- An attractor that meets a trap set lies inside it. -/
theorem IsAttractor.subset_of_mem {A T : Set (State ι)} (hA : IsAttractor f A)
    (hT : IsTrapSet f T) {x : State ι} (hxA : x ∈ A) (hxT : x ∈ T) : A ⊆ T :=
  fun y hy => hT.reach hxT ((hA.2 x hxA y).mpr hy)

/-! ### Existence of attractors (finiteness) -/

/-- From every state some attractor is reachable (finitely many states). -/
theorem exists_attractor_reach [Finite ι] (f : Network ι) (x : State ι) :
    ∃ A, IsAttractor f A ∧ A ⊆ {y | Reach f x y} := by
  induction' h : Set.ncard {y | Reach f x y} using Nat.strong_induction_on with k ih generalizing x
  by_cases hret : ∀ y, Reach f x y → Reach f y x
  · exact ⟨_, isAttractor_reach_of_returns hret, subset_rfl⟩
  · push Not at hret
    obtain ⟨y, hxy, hyx⟩ := hret
    have hsub : {z | Reach f y z} ⊂ {z | Reach f x z} := by
      refine ⟨fun z hz => Reach.trans hxy hz, fun hcon => hyx (hcon (Reach.refl x))⟩
    have hlt := Set.ncard_lt_ncard hsub (Set.toFinite _)
    obtain ⟨A, hA, hAy⟩ := ih _ (h ▸ hlt) y rfl
    exact ⟨A, hA, hAy.trans hsub.subset⟩

end Biobalm
