/-
  Biobalm/ASP.lean — P8 / L9 (propositional): for the class of programs `trappist_core.py`
  generates — choice rules `{a}.`, facts `a.`, integrity constraints `:- b₁, …, b_k.` and
  disjunctive clauses `h₁ ; … ; h_m :- b₁, …, b_k.` (we also allow negative body literals) —
  in which every head atom has a choice rule, the stable models are exactly the classical
  models that contain only atoms with a choice rule.  In particular, when every atom has a
  choice rule (the trappist encoding declares `{p}. {n}.` for every place), stable models =
  classical models.

  Stable models are defined through the reduct (Gelfond–Lifschitz for disjunctive programs;
  for a choice rule `{a}` the reduct w.r.t. `X` is the fact `a` if `a ∈ X` and nothing otherwise,
  which is the standard semantics of choice rules, cf. Simons–Niemelä–Soininen 2002 /
  Ferraris–Lifschitz 2005): `X` is stable iff it is a ⊆-minimal model of the reduct `P^X`.
-/
import Mathlib.Data.Set.Basic
import Mathlib.Tactic

namespace Biobalm.ASP

variable {α : Type*}

/-- Ground rules. `rule head pos neg` is `h₁;…;h_m :- p₁,…,p_k, not n₁,…, not n_l`;
an empty head makes it an integrity constraint, an empty body with a single head atom a fact. -/
inductive Rule (α : Type*)
  | choice (a : α)
  | rule (head pos neg : List α)

/-- Classical satisfaction of a rule by an interpretation (set of true atoms). -/
def Rule.Sat (X : Set α) : Rule α → Prop
  | .choice _ => True
  | .rule h p n => (∀ a ∈ p, a ∈ X) → (∀ a ∈ n, a ∉ X) → ∃ a ∈ h, a ∈ X

/-- Classical model of a program. -/
def Model (P : Set (Rule α)) (X : Set α) : Prop := ∀ r ∈ P, r.Sat X

/-- Satisfaction of a positive disjunctive rule `(head, body)`. -/
def PosSat (Y : Set α) (r : List α × List α) : Prop :=
  (∀ a ∈ r.2, a ∈ Y) → ∃ a ∈ r.1, a ∈ Y

/-- The reduct `P^X`, a set of positive disjunctive rules. -/
def reduct (P : Set (Rule α)) (X : Set α) : Set (List α × List α) :=
  {r | (∃ n, Rule.rule r.1 r.2 n ∈ P ∧ ∀ a ∈ n, a ∉ X) ∨
       (∃ a, Rule.choice a ∈ P ∧ a ∈ X ∧ r = ([a], []))}

/-- `X` is a stable model (answer set) of `P`: a ⊆-minimal model of the reduct `P^X`. -/
def Stable (P : Set (Rule α)) (X : Set α) : Prop :=
  (∀ r ∈ reduct P X, PosSat X r) ∧
  ∀ Y, Y ⊆ X → (∀ r ∈ reduct P X, PosSat Y r) → Y = X

/-- Every stable model is a classical model (no hypothesis on the program). -/
theorem Stable.model {P : Set (Rule α)} {X : Set α} (h : Stable P X) : Model P X := by
  intro r hr
  cases r with
  | choice a => trivial
  | rule hd p n =>
    intro hp hn
    exact h.1 (hd, p) (Or.inl ⟨n, hr, hn⟩) hp

/-- **P8 / L9.**  If every head atom of every (non-choice) rule has a choice rule, the stable
models are exactly the classical models all of whose atoms have a choice rule. -/
theorem stable_iff {P : Set (Rule α)}
    (hheads : ∀ hd p n, Rule.rule hd p n ∈ P → ∀ a ∈ hd, Rule.choice a ∈ P) (X : Set α) :
    Stable P X ↔ Model P X ∧ ∀ a ∈ X, Rule.choice a ∈ P := by
  constructor
  · intro h
    refine ⟨h.model, ?_⟩
    intro a haX
    by_contra hna
    -- `X \ {a}` is a smaller model of the reduct
    have hY : ∀ r ∈ reduct P X, PosSat (X \ {a}) r := by
      rintro ⟨hd, p⟩ hr hbody
      rcases hr with ⟨n, hr, hn⟩ | ⟨a', ha'P, ha'X, heq⟩
      · obtain ⟨a', ha'hd, ha'X⟩ := h.1 (hd, p) (Or.inl ⟨n, hr, hn⟩) (fun b hb => (hbody b hb).1)
        refine ⟨a', ha'hd, ha'X, ?_⟩
        rintro rfl
        exact hna (hheads hd p n hr a' ha'hd)
      · cases heq
        refine ⟨a', by simp, ha'X, ?_⟩
        rintro rfl
        exact hna ha'P
    have hEq := h.2 (X \ {a}) Set.sdiff_subset hY
    have haY : a ∈ X \ {a} := by rw [hEq]; exact haX
    exact haY.2 rfl
  · rintro ⟨hM, hch⟩
    refine ⟨?_, ?_⟩
    · rintro ⟨hd, p⟩ hr hbody
      rcases hr with ⟨n, hr, hn⟩ | ⟨a, -, haX, heq⟩
      · exact hM _ hr hbody hn
      · cases heq
        exact ⟨a, by simp, haX⟩
    · intro Y hYX hY
      apply Set.Subset.antisymm hYX
      intro a haX
      obtain ⟨a', ha', ha'Y⟩ := hY ([a], []) (Or.inr ⟨a, hch a haX, haX, rfl⟩) (by simp)
      rw [List.mem_singleton] at ha'
      exact ha' ▸ ha'Y

/-- **P8 / L9, the form used for the trappist encoding**: every atom has a choice rule ⟹
stable models = classical models. -/
theorem stable_iff_model {P : Set (Rule α)} (hall : ∀ a, Rule.choice a ∈ P) (X : Set α) :
    Stable P X ↔ Model P X := by
  rw [stable_iff (fun _ _ _ _ a _ => hall a)]
  exact ⟨fun h => h.1, fun h => ⟨h, fun a _ => hall a⟩⟩

end Biobalm.ASP
