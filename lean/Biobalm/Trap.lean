/-
  Biobalm/Trap.lean — P3 / L2 (percolation of trap spaces), P4 / L3 (intersections, minimal trap
  spaces, attractors inside trap spaces, least trap space around an attractor),
  P10 / L12 (source variables).
-/
import Biobalm.Percolation
import Biobalm.Dynamics

namespace Biobalm

set_option linter.unusedSectionVars false

open Relation

variable {ι : Type*} [DecidableEq ι]

/-! ## P3 / L2 -/

section L2

variable {f : Network ι} {P : ι → Prop}

/-- Fixing a free variable whose update function is constant keeps a trap space a trap space. -/
theorem IsTrap.update {R : Space ι} (hR : IsTrap f R) {i : ι} {b : Bool} (hi : R i = none)
    (hc : ConstOn (f i) R b) : IsTrap f (Function.update R i (some b)) := by
  rw [isTrap_iff] at hR ⊢
  intro j c hj
  by_cases hji : j = i
  · subst hji
    rw [Function.update_self] at hj
    cases hj
    exact hc.mono (update_sub _ hi)
  · rw [Function.update_of_ne hji] at hj
    exact (hR j c hj).mono (update_sub _ hi)

theorem PStep.isTrap {R R' : Space ι} (h : PStep f P R R') (hR : IsTrap f R) : IsTrap f R' := by
  obtain ⟨i, b, -, hi, hc, rfl⟩ := h
  exact hR.update hi hc

theorem PSteps.isTrap {R R' : Space ι} (h : PSteps f P R R') (hR : IsTrap f R) :
    IsTrap f R' := by
  induction h with
  | refl => exact hR
  | tail _ hs ih => exact hs.isTrap ih

/-- If the attractor `A` lies in `R` and `f i` is constant `b` on `R`, every state of `A` has
`x i = b`. -/
theorem IsAttractor.coord_eq_of_const {A : Set (State ι)} (hA : IsAttractor f A) {R : Space ι}
    (hAR : ∀ x ∈ A, x ∈ₛ R) {i : ι} {b : Bool} (hc : ConstOn (f i) R b) :
    ∀ y ∈ A, y i = b := by
  obtain ⟨x₀, hx₀⟩ := hA.1
  -- a state of `A` whose `i`-th coordinate is `b`
  have hz : ∃ z ∈ A, z i = b := by
    by_cases h0 : x₀ i = b
    · exact ⟨x₀, hx₀, h0⟩
    · have hf : f i x₀ = b := hc x₀ (hAR x₀ hx₀)
      have hs : Step f x₀ (Function.update x₀ i (f i x₀)) := ⟨i, by rw [hf]; exact Ne.symm h0, rfl⟩
      exact ⟨_, hA.trapSet x₀ hx₀ _ hs, by rw [Function.update_self, hf]⟩
  obtain ⟨z, hzA, hzi⟩ := hz
  intro y hy
  have hreach : Reach f z y := (hA.2 z hzA y).mpr hy
  have key : y ∈ A ∧ y i = b := by
    induction hreach with
    | refl => exact ⟨hzA, hzi⟩
    | tail _ hs ih =>
      rename_i u w _
      have ⟨huA, hui⟩ := ih ((hA.2 z hzA u).mp ‹_›)
      refine ⟨hy, ?_⟩
      obtain ⟨j, -, rfl⟩ := hs
      by_cases hji : i = j
      · subst hji
        rw [Function.update_self]
        exact hc u (hAR u huA)
      · rw [Function.update_of_ne hji]; exact hui
  exact key.2

theorem PStep.attractor_mem {R R' : Space ι} (h : PStep f P R R') {A : Set (State ι)}
    (hA : IsAttractor f A) (hAR : ∀ x ∈ A, x ∈ₛ R) : ∀ x ∈ A, x ∈ₛ R' := by
  obtain ⟨i, b, -, hi, hc, rfl⟩ := h
  intro x hx
  exact (mem_update_iff hi).mpr ⟨hA.coord_eq_of_const hAR hc x hx, hAR x hx⟩

theorem PStep.minTrap_sub {R R' : Space ι} (h : PStep f P R R') {M : Space ι}
    (hM : IsMinTrap f M) (hMR : M ⊑ R) : M ⊑ R' := by
  obtain ⟨i, b, -, hi, hc, rfl⟩ := h
  apply sub_update hMR
  have hcM : ConstOn (f i) M b := hc.mono hMR
  cases hMi : M i with
  | some c =>
    have := (isTrap_iff.mp hM.1 i c hMi).unique hcM
    rw [this]
  | none =>
    have htrap : IsTrap f (Function.update M i (some b)) := hM.1.update hMi hcM
    have := hM.2 _ htrap (update_sub b hMi)
    have h2 := congrFun this i
    rw [Function.update_self, hMi] at h2
    cases h2

variable [Fintype ι] (f) (P)

/-- **L2 (a).** Percolating a trap space gives a trap space (inside the given one:
`perc_sub` / `Perc_sub`). -/
theorem perc_isTrap {S : Space ι} (hS : IsTrap f S) : IsTrap f (perc f P S) :=
  PSteps.isTrap (perc_steps f P S) hS

variable {f}

/-- **L2 (b).** Every attractor inside a space `S` (in particular a trap space) lies inside its
percolation. -/
theorem IsAttractor.mem_perc {A : Set (State ι)} (hA : IsAttractor f A) {S : Space ι}
    (hAS : ∀ x ∈ A, x ∈ₛ S) : ∀ x ∈ A, x ∈ₛ perc f P S := by
  have : ∀ R, PSteps f P S R → ∀ x ∈ A, x ∈ₛ R := by
    intro R h
    induction h with
    | refl => exact hAS
    | tail _ hs ih => exact hs.attractor_mem hA ih
  exact this _ (perc_steps f P S)

/-- **L2 (c).** Every minimal trap space inside `S` lies inside the percolation of `S`. -/
theorem IsMinTrap.sub_perc {M : Space ι} (hM : IsMinTrap f M) {S : Space ι} (hMS : M ⊑ S) :
    M ⊑ perc f P S := by
  have : ∀ R, PSteps f P S R → M ⊑ R := by
    intro R h
    induction h with
    | refl => exact hMS
    | tail _ hs ih => exact hs.minTrap_sub hM ih
  exact this _ (perc_steps f P S)

variable (f)

/-- **P3 / L2**, assembled for ordinary percolation. -/
theorem L2_Perc {S : Space ι} (hS : IsTrap f S) :
    Perc f S ⊑ S ∧ IsTrap f (Perc f S) ∧
    (∀ A, IsAttractor f A → (∀ x ∈ A, x ∈ₛ S) → ∀ x ∈ A, x ∈ₛ Perc f S) ∧
    (∀ M, IsMinTrap f M → M ⊑ S → M ⊑ Perc f S) :=
  ⟨Perc_sub f S, perc_isTrap f _ hS, fun _ hA hAS => hA.mem_perc _ hAS,
    fun _ hM hMS => hM.sub_perc _ hMS⟩

/-- A minimal trap space is closed under percolation. -/
theorem IsMinTrap.perc_eq {M : Space ι} (hM : IsMinTrap f M) : perc f P M = M :=
  hM.2 _ (perc_isTrap f P hM.1) (perc_sub f P M)

end L2

/-! ## P4 / L3 -/

section L3

variable {f : Network ι}

/-- **L3 (a), semantic form.** A space whose states are exactly the common states of a family of
trap spaces is a trap space. -/
theorem isTrap_of_mem_iff_forall {𝒯 : Set (Space ι)} (h𝒯 : ∀ T ∈ 𝒯, IsTrap f T) {U : Space ι}
    (hU : ∀ x, x ∈ₛ U ↔ ∀ T ∈ 𝒯, x ∈ₛ T) : IsTrap f U := by
  intro x hx y hs
  rw [hU] at hx ⊢
  intro T hT
  exact h𝒯 T hT x (hx T hT) y hs

/-- Intersection of two spaces (meaningful when they share a state). -/
def Space.inter (S T : Space ι) : Space ι := fun i =>
  match S i with
  | some b => some b
  | none => T i

omit [DecidableEq ι] in
theorem mem_inter {S T : Space ι} (hcompat : ∃ z, z ∈ₛ S ∧ z ∈ₛ T) {x : State ι} :
    x ∈ₛ S.inter T ↔ x ∈ₛ S ∧ x ∈ₛ T := by
  obtain ⟨z, hzS, hzT⟩ := hcompat
  constructor
  · intro h
    have hS : x ∈ₛ S := fun i b hi => h i b (by simp [Space.inter, hi])
    refine ⟨hS, ?_⟩
    intro i b hi
    cases hSi : S i with
    | none => exact h i b (by simp [Space.inter, hSi, hi])
    | some c => rw [hS i c hSi, ← hzS i c hSi, hzT i b hi]
  · rintro ⟨hS, hT⟩ i b hi
    unfold Space.inter at hi
    cases hSi : S i with
    | none => rw [hSi] at hi; exact hT i b hi
    | some c => rw [hSi] at hi; cases hi; exact hS i _ hSi

/-- **L3 (a).** A non-empty intersection of two trap spaces is a trap space. -/
theorem IsTrap.inter {S T : Space ι} (hS : IsTrap f S) (hT : IsTrap f T)
    (hcompat : ∃ z, z ∈ₛ S ∧ z ∈ₛ T) : IsTrap f (S.inter T) := by
  intro x hx y hs
  rw [mem_inter hcompat] at hx ⊢
  exact ⟨hS x hx.1 y hs, hT x hx.2 y hs⟩

open Classical in
/-- Intersection of a family of spaces (meaningful when they share a state): fixes `i` to `b`
iff some member does. -/
noncomputable def Space.sInter (𝒯 : Set (Space ι)) : Space ι := fun i =>
  if h : ∃ b, ∃ T ∈ 𝒯, T i = some b then some (Classical.choose h) else none

omit [DecidableEq ι] in
theorem sInter_eq_some {𝒯 : Set (Space ι)} {z : State ι} (hz : ∀ T ∈ 𝒯, z ∈ₛ T) {i : ι}
    {b : Bool} : Space.sInter 𝒯 i = some b ↔ ∃ T ∈ 𝒯, T i = some b := by
  unfold Space.sInter
  constructor
  · intro h
    split_ifs at h with hex
    cases h
    exact Classical.choose_spec hex
  · rintro ⟨T, hT, hTi⟩
    have hex : ∃ b, ∃ T ∈ 𝒯, T i = some b := ⟨b, T, hT, hTi⟩
    rw [dif_pos hex]
    obtain ⟨T', hT', hTi'⟩ := Classical.choose_spec hex
    rw [← hz T' hT' i _ hTi', hz T hT i b hTi]

omit [DecidableEq ι] in
theorem mem_sInter {𝒯 : Set (Space ι)} {z : State ι} (hz : ∀ T ∈ 𝒯, z ∈ₛ T) {x : State ι} :
    x ∈ₛ Space.sInter 𝒯 ↔ ∀ T ∈ 𝒯, x ∈ₛ T := by
  constructor
  · intro h T hT i b hi
    exact h i b ((sInter_eq_some hz).mpr ⟨T, hT, hi⟩)
  · intro h i b hi
    obtain ⟨T, hT, hTi⟩ := (sInter_eq_some hz).mp hi
    exact h T hT i b hTi

omit [DecidableEq ι] in
theorem sInter_sub {𝒯 : Set (Space ι)} {z : State ι} (hz : ∀ T ∈ 𝒯, z ∈ₛ T) {T : Space ι}
    (hT : T ∈ 𝒯) : Space.sInter 𝒯 ⊑ T :=
  fun _ _ hi => (sInter_eq_some hz).mpr ⟨T, hT, hi⟩

/-- **L3 (a), family form.** A non-empty intersection of any family of trap spaces is a trap
space. -/
theorem isTrap_sInter {𝒯 : Set (Space ι)} (h𝒯 : ∀ T ∈ 𝒯, IsTrap f T) {z : State ι}
    (hz : ∀ T ∈ 𝒯, z ∈ₛ T) : IsTrap f (Space.sInter 𝒯) :=
  isTrap_of_mem_iff_forall h𝒯 (fun _ => mem_sInter hz)

/-- **L3 (b).** Every trap space contains a minimal trap space. -/
theorem IsTrap.exists_minTrap [Fintype ι] {S : Space ι} (hS : IsTrap f S) :
    ∃ M, IsMinTrap f M ∧ M ⊑ S := by
  induction' h : S.free using Nat.strong_induction_on with k ih generalizing S
  by_cases hmin : ∀ T, IsTrap f T → T ⊑ S → T = S
  · exact ⟨S, ⟨hS, hmin⟩, Sub.refl S⟩
  · push Not at hmin
    obtain ⟨T, hT, hTS, hne⟩ := hmin
    obtain ⟨M, hM, hMT⟩ := ih _ (h ▸ free_lt_of_sub_ne hTS hne) hT rfl
    exact ⟨M, hM, hMT.trans hTS⟩

/-- **L3 (c).** Every trap space contains an attractor. -/
theorem IsTrap.exists_attractor [Finite ι] {S : Space ι} (hS : IsTrap f S) :
    ∃ A, IsAttractor f A ∧ ∀ x ∈ A, x ∈ₛ S := by
  obtain ⟨x, hx⟩ := S.exists_mem
  obtain ⟨A, hA, hAx⟩ := exists_attractor_reach f x
  exact ⟨A, hA, fun y hy => hS.reach hx (hAx hy)⟩

/-- The least trap space containing a set of states: the intersection of all trap spaces that
contain it.  (NOT the smallest subspace containing `A`, which need not be a trap space.) -/
noncomputable def trapHull (f : Network ι) (A : Set (State ι)) : Space ι :=
  Space.sInter {T | IsTrap f T ∧ ∀ x ∈ A, x ∈ₛ T}

section TrapHull

variable {A : Set (State ι)} (hne : A.Nonempty)
include hne

theorem trapHull_isTrap : IsTrap f (trapHull f A) := by
  obtain ⟨z, hz⟩ := hne
  exact isTrap_sInter (fun T hT => hT.1) (z := z) (fun T hT => hT.2 z hz)

theorem mem_trapHull : ∀ x ∈ A, x ∈ₛ trapHull f A := by
  obtain ⟨z, hz⟩ := hne
  intro x hx
  exact (mem_sInter (z := z) (fun T hT => hT.2 z hz)).mpr (fun T hT => hT.2 x hx)

theorem trapHull_least {T : Space ι} (hT : IsTrap f T) (hAT : ∀ x ∈ A, x ∈ₛ T) :
    trapHull f A ⊑ T := by
  obtain ⟨z, hz⟩ := hne
  exact sInter_sub (z := z) (fun T hT => hT.2 z hz) ⟨hT, hAT⟩

end TrapHull

/-- **L3 (d).** For an attractor `A`, the trap spaces containing `A` have a least element … -/
theorem IsAttractor.exists_least_trap {A : Set (State ι)} (hA : IsAttractor f A) :
    ∃ L, (IsTrap f L ∧ ∀ x ∈ A, x ∈ₛ L) ∧
      ∀ T, IsTrap f T → (∀ x ∈ A, x ∈ₛ T) → L ⊑ T :=
  ⟨trapHull f A, ⟨trapHull_isTrap hA.1, mem_trapHull hA.1⟩, fun _ => trapHull_least hA.1⟩

/-- … and it is closed under percolation (`Perc L = L`). -/
theorem IsAttractor.perc_trapHull [Fintype ι] {A : Set (State ι)} (hA : IsAttractor f A)
    (P : ι → Prop) : perc f P (trapHull f A) = trapHull f A :=
  Sub.antisymm (perc_sub f P _)
    (trapHull_least hA.1 (perc_isTrap f P (trapHull_isTrap hA.1))
      (hA.mem_perc P (mem_trapHull hA.1)))

/-- It suffices to contain ONE state of the attractor. -/
theorem IsAttractor.trapHull_eq_singleton {A : Set (State ι)} (hA : IsAttractor f A)
    {x : State ι} (hx : x ∈ A) : trapHull f A = trapHull f {x} := by
  have hx1 : ({x} : Set (State ι)).Nonempty := Set.singleton_nonempty x
  apply Sub.antisymm
  · apply trapHull_least hA.1 (trapHull_isTrap hx1)
    intro y hy
    exact (trapHull_isTrap (f := f) hx1).reach (mem_trapHull hx1 x (Set.mem_singleton x))
      ((hA.2 x hx y).mpr hy)
  · apply trapHull_least hx1 (trapHull_isTrap hA.1)
    intro y hy
    rw [Set.mem_singleton_iff] at hy
    subst hy
    exact mem_trapHull hA.1 y hx

end L3

/-! ## P10 / L12 (source lemma) -/

section L12

variable {f : Network ι}

/-- `i` is a source (free input): its update function is the identity on its own value. -/
def IsSource (f : Network ι) (i : ι) : Prop := ∀ x, f i x = x i

/-- A source variable never changes along a trajectory. -/
theorem IsSource.reach_eq {i : ι} (hi : IsSource f i) {x y : State ι} (h : Reach f x y) :
    y i = x i := by
  induction h with
  | refl => rfl
  | tail _ hs ih =>
    obtain ⟨j, hne, rfl⟩ := hs
    by_cases hji : i = j
    · subst hji; exact absurd (hi _) hne
    · rw [Function.update_of_ne hji]; exact ih

/-- **L12 (a).** Every minimal trap space fixes every source variable. -/
theorem IsMinTrap.fixes_source {M : Space ι} (hM : IsMinTrap f M) {i : ι} (hi : IsSource f i) :
    ∃ b, M i = some b := by
  cases hMi : M i with
  | some b => exact ⟨b, rfl⟩
  | none =>
    exfalso
    have htrap : IsTrap f (Function.update M i (some true)) := by
      rw [isTrap_iff]
      intro j c hj
      by_cases hji : j = i
      · subst hji
        rw [Function.update_self] at hj
        cases hj
        intro x hx
        rw [hi x]
        exact ((mem_update_iff hMi).mp hx).1
      · rw [Function.update_of_ne hji] at hj
        exact (isTrap_iff.mp hM.1 j c hj).mono (update_sub _ hMi)
    have := congrFun (hM.2 _ htrap (update_sub _ hMi)) i
    rw [Function.update_self, hMi] at this
    cases this

/-- **L12 (b).** Every attractor fixes every source variable. -/
theorem IsAttractor.fixes_source {A : Set (State ι)} (hA : IsAttractor f A) {i : ι}
    (hi : IsSource f i) : ∃ b, ∀ x ∈ A, x i = b := by
  obtain ⟨z, hz⟩ := hA.1
  exact ⟨z i, fun x hx => hi.reach_eq ((hA.2 z hz x).mpr hx)⟩

end L12

end Biobalm
