/-
  Biobalm/Basic.lean — states, spaces, membership, subspace order, three-valued evaluation.

  Vocabulary of DESIGN.md section 2.  Everything is stated over an arbitrary finite index type
  `ι` of variables; the concrete instance used by the SMT side is `ι = Fin n`
  (`State (Fin n) = Fin n → Bool`, `Space (Fin n) = Fin n → Option Bool`).

  Headline result of this file:  P1 / L1.evalon_monotone  (`evalOn_mono`).
-/
import Mathlib.Data.Fintype.Basic
import Mathlib.Data.Fintype.Card
import Mathlib.Data.Set.Card
import Mathlib.Logic.Relation
import Mathlib.Logic.Function.Basic
import Mathlib.Tactic

namespace Biobalm

/-- A state: a total valuation of the variables. -/
abbrev State (ι : Type*) := ι → Bool
/-- A space (subcube): a partial valuation; `none` = free, `some b` = fixed to `b`. -/
abbrev Space (ι : Type*) := ι → Option Bool
/-- A Boolean network: one update function per variable. -/
abbrev Network (ι : Type*) := ι → State ι → Bool

variable {ι : Type*}

/-- `x ∈ₛ S`: the state `x` agrees with every fixed value of `S`. -/
def Mem (x : State ι) (S : Space ι) : Prop := ∀ i b, S i = some b → x i = b

/-- `S ⊑ T` (subspace): `S` fixes everything `T` fixes, with the same value. -/
def Sub (S T : Space ι) : Prop := ∀ i b, T i = some b → S i = some b

@[inherit_doc] scoped infix:50 " ∈ₛ " => Mem
@[inherit_doc] scoped infix:50 " ⊑ " => Sub

/-- The whole state space. -/
def Space.top : Space ι := fun _ => none

/-- State `x` overridden by the fixed values of `S` (`ov` in pyvc/theory.py). -/
def Space.fill (S : Space ι) (x : State ι) : State ι := fun i => (S i).getD (x i)

theorem Space.fill_mem (S : Space ι) (x : State ι) : S.fill x ∈ₛ S := by
  intro i b h; simp [Space.fill, h]

theorem Space.fill_free {S : Space ι} {i : ι} (h : S i = none) (x : State ι) :
    S.fill x i = x i := by simp [Space.fill, h]

theorem Space.fill_eq_self {S : Space ι} {x : State ι} (h : x ∈ₛ S) : S.fill x = x := by
  funext i
  cases hi : S i with
  | none => simp [Space.fill, hi]
  | some b => simp [Space.fill, hi, h i b hi]

/-- Spaces are never empty as sets of states. -/
theorem Space.exists_mem (S : Space ι) : ∃ x : State ι, x ∈ₛ S :=
  ⟨S.fill (fun _ => false), S.fill_mem _⟩

theorem mem_top (x : State ι) : x ∈ₛ (Space.top : Space ι) := by
  intro i b h; simp [Space.top] at h

theorem Sub.refl (S : Space ι) : S ⊑ S := fun _ _ h => h

theorem Sub.trans {S T U : Space ι} (h₁ : S ⊑ T) (h₂ : T ⊑ U) : S ⊑ U :=
  fun i b h => h₁ i b (h₂ i b h)

theorem Sub.antisymm {S T : Space ι} (h₁ : S ⊑ T) (h₂ : T ⊑ S) : S = T := by
  funext i
  cases hT : T i with
  | some b => exact h₁ i b hT
  | none =>
    cases hS : S i with
    | none => rfl
    | some b => rw [h₂ i b hS] at hT; cases hT

theorem sub_top (S : Space ι) : S ⊑ Space.top := by
  intro i b h; simp [Space.top] at h

/-- `S ⊑ T` implies inclusion of the state sets. -/
theorem Sub.mem {S T : Space ι} (h : S ⊑ T) {x : State ι} (hx : x ∈ₛ S) : x ∈ₛ T :=
  fun i b hT => hx i b (h i b hT)

/-- `⊑` is exactly inclusion of the state sets (because spaces are non-empty). -/
theorem sub_iff_forall_mem {S T : Space ι} : S ⊑ T ↔ ∀ x : State ι, x ∈ₛ S → x ∈ₛ T := by
  constructor
  · intro h x hx; exact h.mem hx
  · intro h i b hT
    have h1 := h _ (S.fill_mem (fun _ => b)) i b hT
    have h2 := h _ (S.fill_mem (fun _ => !b)) i b hT
    cases hS : S i with
    | none =>
      rw [Space.fill_free hS] at h2
      cases b <;> simp at h2
    | some c =>
      simp only [Space.fill, hS, Option.getD_some] at h1
      rw [h1]

/-- A fixed variable keeps its value in a subspace. -/
theorem Sub.free_of_free {S T : Space ι} (h : S ⊑ T) {i : ι} (hi : S i = none) : T i = none := by
  cases hT : T i with
  | none => rfl
  | some b => rw [h i b hT] at hi; cases hi

section Update
variable [DecidableEq ι]

theorem mem_update_iff {S : Space ι} {i : ι} {b : Bool} {x : State ι} (hi : S i = none) :
    x ∈ₛ Function.update S i (some b) ↔ x i = b ∧ x ∈ₛ S := by
  constructor
  · intro h
    refine ⟨h i b (by simp), ?_⟩
    intro j c hj
    have hji : j ≠ i := by rintro rfl; rw [hi] at hj; cases hj
    exact h j c (by rwa [Function.update_of_ne hji])
  · rintro ⟨h1, h2⟩ j c hj
    by_cases hji : j = i
    · subst hji
      rw [Function.update_self] at hj
      cases hj; exact h1
    · rw [Function.update_of_ne hji] at hj
      exact h2 j c hj

theorem update_sub {S : Space ι} {i : ι} (b : Bool) (hi : S i = none) :
    Function.update S i (some b) ⊑ S := by
  intro j c hj
  have hji : j ≠ i := by rintro rfl; rw [hi] at hj; cases hj
  rwa [Function.update_of_ne hji]

theorem sub_update {S T : Space ι} {i : ι} {b : Bool} (h : T ⊑ S) (hi : T i = some b) :
    T ⊑ Function.update S i (some b) := by
  intro j c hj
  by_cases hji : j = i
  · subst hji
    rw [Function.update_self] at hj
    cases hj; exact hi
  · rw [Function.update_of_ne hji] at hj
    exact h j c hj

end Update

/-! ### Constancy of a function on a space, three-valued evaluation -/

/-- `Const(N,v,S,b)` of DESIGN.md: `g` takes the value `b` on every state of `S`. -/
def ConstOn (g : State ι → Bool) (S : Space ι) (b : Bool) : Prop := ∀ x, x ∈ₛ S → g x = b

theorem ConstOn.unique {g : State ι → Bool} {S : Space ι} {b c : Bool}
    (hb : ConstOn g S b) (hc : ConstOn g S c) : b = c := by
  obtain ⟨x, hx⟩ := S.exists_mem
  rw [← hb x hx, ← hc x hx]

/-- Constancy is inherited by subspaces. -/
theorem ConstOn.mono {g : State ι → Bool} {S T : Space ι} {b : Bool}
    (h : ConstOn g S b) (hTS : T ⊑ S) : ConstOn g T b :=
  fun x hx => h x (hTS.mem hx)

open Classical in
/-- `EvalOn(f,S)`: `some b` iff `g` is constant `b` on the states of `S`, `none` otherwise. -/
noncomputable def evalOn (g : State ι → Bool) (S : Space ι) : Option Bool :=
  if ConstOn g S true then some true else if ConstOn g S false then some false else none

theorem evalOn_eq_some {g : State ι → Bool} {S : Space ι} {b : Bool} :
    evalOn g S = some b ↔ ConstOn g S b := by
  unfold evalOn
  constructor
  · intro h
    split_ifs at h with h1 h2
    · cases h; exact h1
    · cases h; exact h2
  · intro h
    cases b
    · have : ¬ ConstOn g S true := fun h' => by cases h'.unique h
      simp [this, h]
    · simp [h]

theorem evalOn_eq_none {g : State ι → Bool} {S : Space ι} :
    evalOn g S = none ↔ ∀ b, ¬ ConstOn g S b := by
  constructor
  · intro h b hb
    rw [evalOn_eq_some.mpr hb] at h; cases h
  · intro h
    cases he : evalOn g S with
    | none => rfl
    | some b => exact absurd (evalOn_eq_some.mp he) (h b)

/-- **P1 / L1.evalon_monotone.**  If `g` evaluates to the definite value `b` on `S` and `T ⊑ S`
(`T` fixes more), then `g` evaluates to `b` on `T`. -/
theorem evalOn_mono {g : State ι → Bool} {S T : Space ι} {b : Bool}
    (h : evalOn g S = some b) (hTS : T ⊑ S) : evalOn g T = some b :=
  evalOn_eq_some.mpr ((evalOn_eq_some.mp h).mono hTS)

/-- The form used by `lemma_evalon_monotone` in pyvc/theory.py:
`EvalOn(f,s) ≥ 0 ∧ t ⊑ s → EvalOn(f,t) = EvalOn(f,s)`. -/
theorem evalOn_mono' {g : State ι → Bool} {S T : Space ι}
    (h : (evalOn g S).isSome) (hTS : T ⊑ S) : evalOn g T = evalOn g S := by
  obtain ⟨b, hb⟩ := Option.isSome_iff_exists.mp h
  rw [hb]; exact evalOn_mono hb hTS

end Biobalm
