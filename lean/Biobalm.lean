import Biobalm.Basic
import Biobalm.Percolation
import Biobalm.Dynamics
import Biobalm.Trap
import Biobalm.Key
import Biobalm.Shannon
