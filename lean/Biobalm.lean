import Biobalm.Basic
import Biobalm.Percolation
import Biobalm.Dynamics
import Biobalm.Trap
