/-
  Biobalm — Lean 4 lemma library of the biobalm verification framework (DESIGN.md section 3).
  See STATUS.md for the table lemma id → theorem → file, and check.sh for the offline build, the
  audit of axioms and the `leanchecker` replay.
-/
import Biobalm.Basic
import Biobalm.Percolation
import Biobalm.Dynamics
import Biobalm.Trap
import Biobalm.Key
import Biobalm.Shannon
import Biobalm.ASP
import Biobalm.Petri
import Biobalm.Compose
import Biobalm.LDOI

/-! Sanity: the library is stated over an arbitrary finite variable type `ι`; the concrete
vocabulary of DESIGN.md (`State n = Fin n → Bool`, `Space n = Fin n → Option Bool`) is the
instance `ι = Fin n`. -/

namespace Biobalm

example {n : ℕ} : State (Fin n) = (Fin n → Bool) := rfl
example {n : ℕ} : Space (Fin n) = (Fin n → Option Bool) := rfl

example {n : ℕ} (f : Network (Fin n)) (S : Space (Fin n)) : Perc f (Perc f S) = Perc f S :=
  Perc_idem f S

example {n : ℕ} (f : Network (Fin n)) (S : Space (Fin n)) (hS : IsTrap f S) :
    ∃ A, IsAttractor f A ∧ ∀ x ∈ A, Mem x (Perc f S) := by
  obtain ⟨A, hA, hAS⟩ := hS.exists_attractor
  exact ⟨A, hA, hA.mem_perc _ hAS⟩

end Biobalm
