#!/usr/bin/env bash
# check.sh — offline build + audit of the Lean lemma library of the biobalm verification framework.
#
#   1. source scan : no `sorry` / `admit` / `axiom` declaration / `native_decide` / `unsafe` /
#                    `implemented_by` / `extern` / kernel-bypass option in any .lean file here
#   2. build       : `lake build` from scratch (build products under ./.lake are wiped first;
#                    pass --incremental to reuse them).  Mathlib is NOT fetched or rebuilt: the
#                    pre-compiled Mathlib v4.33.0 is part of the toolchain's library path.
#   3. axiom audit : `lake env lean Audit.lean` prints `#print axioms` for every headline theorem
#                    and fails unless each is a theorem depending only on
#                    propext / Classical.choice / Quot.sound
#   4. leanchecker : replays every compiled module of this library through the kernel
#                    (skip with --no-leanchecker)
#   5. prints one line `LEMMA <id> <theorem name> proved` per headline theorem
#
# Exit status 0 iff everything passed.  Writes only inside this directory (./.lake).
# Uses at most $LEAN_CHECK_CORES cores (default 6).

set -u
cd "$(dirname "$(readlink -f "$0")")" || exit 2

INCREMENTAL=0
RUN_LEANCHECKER=1
for a in "$@"; do
  case "$a" in
    --incremental) INCREMENTAL=1 ;;
    --no-leanchecker) RUN_LEANCHECKER=0 ;;
    -h|--help) sed -n '2,20p' "$0"; exit 0 ;;
    *) echo "unknown option $a" >&2; exit 2 ;;
  esac
done

CORES="${LEAN_CHECK_CORES:-6}"
if command -v taskset >/dev/null 2>&1; then
  NCPU=$(nproc 2>/dev/null || echo 1)
  [ "$CORES" -gt "$NCPU" ] && CORES="$NCPU"
  LIMIT=(taskset -c "0-$((CORES - 1))")
else
  LIMIT=()
fi
export LEAN_NUM_THREADS="$CORES"

fail() { echo "CHECK FAILED: $*" >&2; exit 1; }
T0=$(date +%s)

MODULES=(Biobalm.Basic Biobalm.Percolation Biobalm.Dynamics Biobalm.Trap Biobalm.Key
         Biobalm.Shannon Biobalm.ASP Biobalm.Petri Biobalm.Compose Biobalm.LDOI Biobalm)

echo "== [1/4] source scan"
mapfile -t SRCS < <(find . -path ./.lake -prune -o -name '*.lean' -print | sort)
[ "${#SRCS[@]}" -ge 11 ] || fail "expected at least 11 .lean files, found ${#SRCS[@]}"
for m in "${MODULES[@]}"; do
  [ -f "./${m//.//}.lean" ] || fail "missing source of module $m"
done
BAD=$(grep -nE 'sorry|\badmit\b|^[[:space:]]*((private|protected|noncomputable|unsafe)[[:space:]]+)*axiom[[:space:]]|native_decide|ofReduceBool|\bunsafe\b|implemented_by|@\[[^]]*extern|skipKernelTC|debug\.' "${SRCS[@]}" || true)
if [ -n "$BAD" ]; then echo "$BAD"; fail "forbidden construct in sources"; fi
echo "   ${#SRCS[@]} files clean"

echo "== [2/4] lake build (offline, $CORES cores)"
mkdir -p .lake
[ "$INCREMENTAL" = 1 ] || rm -rf .lake/build
BUILD_LOG=.lake/check-build.log
"${LIMIT[@]}" lake build >"$BUILD_LOG" 2>&1
RC=$?
grep -v '^trace:' "$BUILD_LOG"
[ $RC -eq 0 ] || fail "lake build exited with $RC"
grep -qiE "declaration uses .sorry.|error:" "$BUILD_LOG" && fail "build log mentions sorry/error"
for m in "${MODULES[@]}"; do
  [ -f ".lake/build/lib/lean/${m//.//}.olean" ] || fail "no .olean produced for $m"
done
T1=$(date +%s); echo "   build ok ($((T1 - T0)) s)"

echo "== [3/4] axiom audit (#print axioms)"
AUDIT_LOG=.lake/check-audit.log
"${LIMIT[@]}" lake env lean Audit.lean >"$AUDIT_LOG" 2>&1
RC=$?
grep -v '^LEMMA ' "$AUDIT_LOG"
[ $RC -eq 0 ] || fail "axiom audit exited with $RC"
# every `#print axioms` line must list only the three standard axioms (or none)
NONSTD=$(grep -E "depends on axioms" "$AUDIT_LOG" | sed -E 's/.*depends on axioms: \[(.*)\]/\1/' \
         | tr ',' '\n' | sed 's/^ *//; s/ *$//' | grep -vE '^(propext|Classical\.choice|Quot\.sound)$' || true)
[ -z "$NONSTD" ] || fail "non-standard axioms: $NONSTD"
grep -q "sorryAx" "$AUDIT_LOG" && fail "sorryAx in axiom audit"
WANT=$(grep -c '^#check_lemma ' Audit.lean)
WANTP=$(grep -c '^#print axioms ' Audit.lean)
GOT=$(grep -c '^LEMMA .* proved$' "$AUDIT_LOG")
GOTP=$(grep -cE "^'.*' (depends on axioms|does not depend on any axioms)" "$AUDIT_LOG")
[ "$WANT" -gt 0 ] && [ "$WANT" = "$GOT" ] || fail "expected $WANT LEMMA lines, got $GOT"
[ "$WANTP" = "$GOTP" ] || fail "expected $WANTP '#print axioms' answers, got $GOTP"
T2=$(date +%s); echo "   audit ok: $GOT headline theorems ($((T2 - T1)) s)"

if [ "$RUN_LEANCHECKER" = 1 ]; then
  echo "== [4/4] leanchecker (kernel replay of ${#MODULES[@]} modules)"
  command -v leanchecker >/dev/null 2>&1 || fail "leanchecker not found"
  LC_LOG=.lake/check-leanchecker.log
  : >"$LC_LOG"
  printf '%s\n' "${MODULES[@]}" | "${LIMIT[@]}" xargs -P "$CORES" -I{} \
    sh -c 'lake env leanchecker "$1" >>"$2" 2>&1 && echo "   replayed $1" || { echo "   FAILED $1"; exit 255; }' _ {} "$LC_LOG"
  RC=$?
  cat "$LC_LOG"
  [ $RC -eq 0 ] || fail "leanchecker failed"
  T3=$(date +%s); echo "   leanchecker ok ($((T3 - T2)) s)"
else
  echo "== [4/4] leanchecker skipped (--no-leanchecker)"
fi

echo "== result"
grep '^LEMMA ' "$AUDIT_LOG"
echo "ALL CHECKS PASSED ($(( $(date +%s) - T0 )) s)"
exit 0
