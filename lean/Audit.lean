/-
  Audit.lean — axiom audit of the headline theorems (run by check.sh via `lake env lean Audit.lean`).

  For every headline theorem this file
    * prints the output of `#print axioms`, and
    * runs `#check_lemma "<lemma id>" <theorem>`, which fails (non-zero exit of `lean`) unless the
      constant is a *theorem* whose transitive axioms are among
      `propext`, `Classical.choice`, `Quot.sound`, and otherwise prints the machine-readable line
      `LEMMA <lemma id> <theorem name> proved`.
-/
import Biobalm
import Lean

open Lean Elab Command

namespace Biobalm.Audit

def allowedAxioms : List Name := [``propext, ``Classical.choice, ``Quot.sound]

elab "#check_lemma " id:str thm:ident : command => do
  let n ← liftCoreM <| realizeGlobalConstNoOverloadWithInfo thm
  let env ← getEnv
  match env.find? n with
  | some (.thmInfo _) => pure ()
  | _ => throwError "{n} is not a theorem"
  let axs ← liftCoreM <| collectAxioms n
  let bad := axs.toList.filter (fun a => !allowedAxioms.contains a)
  unless bad.isEmpty do
    throwError "{n} depends on non-standard axioms: {bad}"
  IO.println s!"LEMMA {id.getString} {n} proved"

end Biobalm.Audit

open Biobalm

-- P1
#print axioms Biobalm.evalOn_mono
#check_lemma "L1.evalon_monotone" Biobalm.evalOn_mono
#print axioms Biobalm.evalOn_mono'
#check_lemma "L1.evalon_monotone.smt_form" Biobalm.evalOn_mono'
-- P2
#print axioms Biobalm.propOp_mono
#check_lemma "L1.propagation_monotone" Biobalm.propOp_mono
#print axioms Biobalm.perc_sub
#check_lemma "L1.perc_extends" Biobalm.perc_sub
#print axioms Biobalm.perc_idem
#check_lemma "L1.perc_idempotent" Biobalm.perc_idem
#print axioms Biobalm.perc_unique
#check_lemma "L1.perc_order_independent" Biobalm.perc_unique
#print axioms Biobalm.propOp_perc
#check_lemma "L1.perc_fixed_point" Biobalm.propOp_perc
#print axioms Biobalm.perc_least_prefixed
#check_lemma "L1.perc_least" Biobalm.perc_least_prefixed
#print axioms Biobalm.perc_sound
#check_lemma "L1.perc_sound" Biobalm.perc_sound
#print axioms Biobalm.perc_eq_of_round_fixed
#check_lemma "L1.perc_round_based" Biobalm.perc_eq_of_round_fixed
#print axioms Biobalm.strictLfp_extends
#check_lemma "L1.strict_lfp_extends" Biobalm.strictLfp_extends
#print axioms Biobalm.strictLfp_closed
#check_lemma "L1.strict_lfp_closed" Biobalm.strictLfp_closed
#print axioms Biobalm.strictLfp_least
#check_lemma "L1.strict_lfp_least" Biobalm.strictLfp_least
#print axioms Biobalm.strictLfp_sound
#check_lemma "L1.strict_lfp_sound" Biobalm.strictLfp_sound
#print axioms Biobalm.strictLfp_unique
#check_lemma "L1.strict_lfp_order_independent" Biobalm.strictLfp_unique
#print axioms Biobalm.strictResult_eq_some
#check_lemma "L1.strict_result" Biobalm.strictResult_eq_some
-- P3
#print axioms Biobalm.perc_isTrap
#check_lemma "L2.perc_trap" Biobalm.perc_isTrap
#print axioms Biobalm.IsAttractor.mem_perc
#check_lemma "L2.attractor_in_perc" Biobalm.IsAttractor.mem_perc
#print axioms Biobalm.IsMinTrap.sub_perc
#check_lemma "L2.mintrap_in_perc" Biobalm.IsMinTrap.sub_perc
#print axioms Biobalm.L2_Perc
#check_lemma "L2" Biobalm.L2_Perc
-- P4
#print axioms Biobalm.IsTrap.inter
#check_lemma "L3.inter_trap" Biobalm.IsTrap.inter
#print axioms Biobalm.isTrap_sInter
#check_lemma "L3.family_inter_trap" Biobalm.isTrap_sInter
#print axioms Biobalm.IsTrap.exists_minTrap
#check_lemma "L3.exists_mintrap" Biobalm.IsTrap.exists_minTrap
#print axioms Biobalm.IsTrap.exists_attractor
#check_lemma "L3.exists_attractor" Biobalm.IsTrap.exists_attractor
#print axioms Biobalm.IsAttractor.exists_least_trap
#check_lemma "L3.least_trap" Biobalm.IsAttractor.exists_least_trap
#print axioms Biobalm.IsAttractor.perc_trapHull
#check_lemma "L3.least_trap_perc_closed" Biobalm.IsAttractor.perc_trapHull
-- P5
#print axioms Biobalm.IsAttractor.eq_reach
#check_lemma "L8.attractor_eq_reach" Biobalm.IsAttractor.eq_reach
#print axioms Biobalm.mem_attractor_iff
#check_lemma "L8.mem_attractor_iff" Biobalm.mem_attractor_iff
#print axioms Biobalm.IsAttractor.mutual_reach
#check_lemma "L8.mutual_reach" Biobalm.IsAttractor.mutual_reach
-- P6
#print axioms Biobalm.digit_lor_shift
#check_lemma "L10.digit" Biobalm.digit_lor_shift
#print axioms Biobalm.keyOf_injective
#check_lemma "L10.key_injective" Biobalm.keyOf_injective
#print axioms Biobalm.keyFold_eq_keyOf
#check_lemma "L10.key_loop" Biobalm.keyFold_eq_keyOf
-- P7
#print axioms Biobalm.shannon
#check_lemma "L6.shannon" Biobalm.shannon
#print axioms Biobalm.SplitDNF.correct
#check_lemma "L6.split_dnf" Biobalm.SplitDNF.correct
#print axioms Biobalm.cube_implies_literal
#check_lemma "L6.implied_literal" Biobalm.cube_implies_literal
-- P8
#print axioms Biobalm.ASP.stable_iff
#check_lemma "L9.stable_iff" Biobalm.ASP.stable_iff
#print axioms Biobalm.ASP.stable_iff_model
#check_lemma "L9.stable_iff_model" Biobalm.ASP.stable_iff_model
-- P9
#print axioms Biobalm.siphon_iff_isTrap
#check_lemma "L4.siphon_iff_trap" Biobalm.siphon_iff_isTrap
#print axioms Biobalm.siphon_spaces_eq_trap_spaces
#check_lemma "L4.siphon_spaces" Biobalm.siphon_spaces_eq_trap_spaces
-- P10
#print axioms Biobalm.IsMinTrap.fixes_source
#check_lemma "L12.mintrap_fixes_source" Biobalm.IsMinTrap.fixes_source
#print axioms Biobalm.IsAttractor.fixes_source
#check_lemma "L12.attractor_fixes_source" Biobalm.IsAttractor.fixes_source
-- P11
#print axioms Biobalm.isTrap_sum_iff
#check_lemma "L14.trap_product" Biobalm.isTrap_sum_iff
#print axioms Biobalm.isMinTrap_sum_iff
#check_lemma "L14.mintrap_product" Biobalm.isMinTrap_sum_iff
#print axioms Biobalm.isAttractor_sum_iff
#check_lemma "L14.attractor_product" Biobalm.isAttractor_sum_iff
-- P12
#print axioms Biobalm.ldoi_theorem
#check_lemma "L11.ldoi" Biobalm.ldoi_theorem
