"""pyvc symbolic executor: real Python AST (extract.py) + sidecar contract -> verification conditions.

Loops are cut at invariants, calls are replaced by callee contracts (never bodies), every exit is
checked against the postcondition.  Each obligation is (path condition => goal) and is discharged
by SMT (solve.py).  Anything outside the modelled subset raises OutOfSubset: the function's
obligations are then reported *undecided*, never discharged and never refuted.
"""
from __future__ import annotations
import ast, itertools
import z3
from .vtypes import *
from . import extract


class Obl:
    """One proof obligation: under `pc` (list of z3 Bool) show `goal`."""
    __slots__ = ("name", "pc", "goal", "line", "kind", "expect_sat")

    def __init__(self, name, pc, goal, line=0, kind="post", expect_sat=False):
        self.name, self.pc, self.goal, self.line, self.kind = name, list(pc), goal, line, kind
        self.expect_sat = expect_sat  # cover obligations: pc must be satisfiable


class HeapObj:
    """A mutable object (SuccessionDiagram, ...) : named fields holding Vals. Identity = Python id."""

    def __init__(self, cls, fields):
        self.cls, self.fields = cls, dict(fields)

    def clone(self):
        return HeapObj(self.cls, self.fields)


class Ref(Val):
    """Reference to a heap object (ty = TRef(cls)); t = key into State.heap."""

    def __init__(self, ty, oid):
        self.ty, self.t = ty, oid


class TRef(Ty):
    def __init__(self, cls):
        self.cls = cls
        self.name = f"ref[{cls}]"

    def sort(self):
        raise OutOfSubset("heap references are not first-class SMT values")


class State:
    def __init__(self):
        self.env: dict[str, Val] = {}
        self.heap: dict[int, HeapObj] = {}
        self.pc: list = []
        self.old: dict = {}        # snapshot of params / heap at entry (for old(...))
        self.ghost: dict = {}      # ghost variables

    def clone(self):
        s = State()
        s.env = dict(self.env)
        s.heap = {k: v.clone() for k, v in self.heap.items()}
        s.pc = list(self.pc)
        s.old = self.old
        s.ghost = dict(self.ghost)
        return s

    def assume(self, c):
        if c is not None and not z3.is_true(c):
            self.pc.append(c)


# outcome kinds of executing a block
NEXT, RET, BRK, CONT, RAISE = "next", "return", "break", "continue", "raise"


class Engine:
    def __init__(self, fn: extract.Extracted, contract, registry, prop_prefix=""):
        if getattr(contract, "body_params", None):
            # the body is verified with its own parameter typing (call sites keep the call-site typing of `params`)
            import copy as _copy
            contract = _copy.copy(contract)
            contract.params = contract.body_params
        self.fn, self.c, self.reg = fn, contract, registry
        self.obls: list[Obl] = []
        self.prefix = prop_prefix + contract.short
        self.loops = {id(n): (i, fp) for i, n, fp in extract.loops_of(fn.node)}
        self.notes: list[str] = []
        self.used_lemmas: set[str] = set()
        self._forks = []

    # ------------------------------------------------------------------ obligations
    def oblige(self, st, name, goal, line=0, kind="post"):
        if isinstance(goal, bool):
            goal = z3.BoolVal(goal)
        self.obls.append(Obl(f"{self.prefix}.{name}", st.pc, goal, line, kind))

    def cover(self, st, name, line=0):
        self.obls.append(Obl(f"{self.prefix}.cover.{name}", st.pc, z3.BoolVal(True), line, "cover", expect_sat=True))

    # ------------------------------------------------------------------ entry point
    def run(self):
        st = State()
        self.c.bind_params(self, st)
        st.old = {"env": dict(st.env), "heap": {k: v.clone() for k, v in st.heap.items()}}
        for r in self.c.requires_terms(self, st):
            st.assume(r)
        self.cover(st, "requires", self.fn.lineno)
        self.c.assume_entry_lemmas(self, st)
        is_gen = any(isinstance(n, (ast.Yield, ast.YieldFrom)) for n in ast.walk(self.fn.node))
        if is_gen:
            st.env["__yield__"] = self.c.result_type.empty()
        body = self._apply_trusted_fragments(self.fn.node.body)
        outs = self.block(body, st)
        for kind, s, payload in outs:
            if kind == NEXT:
                kind, payload = RET, NONE
            if is_gen and kind == RET:
                payload = s.env["__yield__"]
            if kind == RET:
                nexit = getattr(self, "_nexit", 0)
                if nexit < 3:
                    self._nexit = nexit + 1
                    self.cover(s, f"exit{nexit}", self.fn.lineno)   # anti-vacuity: this exit's path condition must not be refutable
                rl = s.ghost.get("retline", self.fn.end_lineno)
                for nm, g in self.c.ensures_terms(self, s, payload):
                    self.oblige(s, f"post.{nm}", g, rl, kind="post")
                    s.assume(g)      # clauses are cumulative: later ones may use earlier ones (each is proved first)
            elif kind == RAISE:
                exc = payload
                clauses = self.c.raises_terms(self, s, exc)
                if clauses is None:
                    self.oblige(s, f"noraise.{exc}", False, kind="raises")
                else:
                    for nm, g in clauses:
                        self.oblige(s, f"raises.{exc}.{nm}", g, kind="raises")
            else:
                raise OutOfSubset(f"{kind} escapes function body")
        return self.obls

    # ------------------------------------------------------------------ trusted fragments
    def _apply_trusted_fragments(self, body):
        """A contract may declare a contiguous run of top-level statements as a TRUSTED FRAGMENT: it is not
        symbolically executed; its assigned locals are havocked and its declared postcondition assumed.  The
        fragment is pinned by the SHA-256 of its normalised AST: any edit makes the function undecided."""
        import hashlib
        frs = getattr(self.c, "trusted_fragments", None) or []
        if not frs:
            return body
        import copy as _copy
        body = _copy.deepcopy(list(body))
        for n in ast.walk(ast.Module(body=body, type_ignores=[])):
            pass
        # loop ordinals are keyed by node identity: recompute them on the copied tree (same order, same fingerprints)
        holder = ast.FunctionDef(name=self.fn.node.name, args=self.fn.node.args, body=body, decorator_list=[], lineno=self.fn.node.lineno)
        self.loops = {id(n): (i, fp) for i, n, fp in extract.loops_of(holder)}

        def replace_in(stmts, fr):
            texts = [ast.unparse(s).split("\n")[0] for s in stmts]
            if fr["first"] in texts:
                a = texts.index(fr["first"])
                later = [k for k, t in enumerate(texts) if t == fr["last"] and k >= a]
                if later:
                    b = max(later)
                    frag = stmts[a:b + 1]
                    sha = hashlib.sha256("\n".join(ast.dump(s, include_attributes=False) for s in frag).encode()).hexdigest()
                    self.notes.append(f"trusted fragment {fr['name']}: lines {frag[0].lineno}-{frag[-1].end_lineno} sha256 {sha}")
                    if fr.get("sha256") not in (None, sha):
                        raise OutOfSubset(f"trusted fragment `{fr['name']}` (lines {frag[0].lineno}-{frag[-1].end_lineno}) was edited: "
                                          f"sha256 {sha[:16]} != pinned {fr['sha256'][:16]}; its assumed postcondition no longer applies")
                    marker = ast.Pass()
                    marker._fragment = fr
                    marker.lineno = frag[0].lineno
                    stmts[a:b + 1] = [marker]
                    return True
            for s_ in stmts:
                for fld in ("body", "orelse", "finalbody"):
                    sub = getattr(s_, fld, None)
                    if isinstance(sub, list) and sub and not isinstance(s_, (ast.FunctionDef, ast.ClassDef)):
                        if replace_in(sub, fr):
                            return True
            return False

        for fr in frs:
            if not replace_in(body, fr):
                raise OutOfSubset(f"trusted fragment `{fr['name']}` not found (first/last statement changed)")
        # loops inside fragments disappear: keep the ordinals of the ORIGINAL function for the remaining loops
        orig = {fp_i: None for fp_i in ()}
        remaining = extract.loops_of(ast.FunctionDef(name="f", args=self.fn.node.args, body=body, decorator_list=[], lineno=0))
        original = extract.loops_of(self.fn.node)
        # map remaining loops (by order and fingerprint) onto original ordinals
        oi = 0
        newmap = {}
        for _, n, fp in remaining:
            while oi < len(original) and original[oi][2] != fp:
                oi += 1
            if oi >= len(original):
                raise OutOfSubset("cannot align loops after removing trusted fragments")
            newmap[id(n)] = (original[oi][0], fp)
            oi += 1
        self.loops = newmap
        return body

    def _exec_fragment(self, fr, st):
        for nm, ty in fr["assigns"].items():
            v = ty.fresh(nm)
            st.env[nm] = v
            st.assume(ty.wf(v.t))
        c = self.c.ctx(self, st)
        for g in fr["ensures"](c):
            st.assume(g)

    # ------------------------------------------------------------------ statements
    def block(self, stmts, st):
        """Returns list of (kind, state, payload)."""
        cur = [st]
        done = []
        for s in stmts:
            nxt = []
            for x in cur:
                for kind, s2, p in self.stmt(s, x):
                    if kind == NEXT:
                        nxt.append(s2)
                    else:
                        done.append((kind, s2, p))
            cur = self.merge_states(nxt)
            if not cur:
                break
        return [(NEXT, x, None) for x in cur] + done

    def merge_states(self, states):
        # keep paths separate (simple and precise); duplicates are rare because functions are small.
        if len(states) > 600:
            raise OutOfSubset("path explosion (>600 live paths)")
        return states

    def stmt(self, s, st):
        m = getattr(self, "s_" + type(s).__name__, None)
        if m is None:
            raise OutOfSubset(f"statement {type(s).__name__} at line {getattr(s, 'lineno', 0)}")
        return m(s, st)

    def s_Pass(self, s, st):
        fr = getattr(s, "_fragment", None)
        if fr is not None:
            self._exec_fragment(fr, st)
        return [(NEXT, st, None)]

    def s_Expr(self, s, st):
        outs = []
        for s2, v in self.ev_multi(s.value, st):
            outs.append((NEXT, s2, None) if not isinstance(v, _Raised) else (RAISE, s2, v.exc))
        return outs

    def s_Assign(self, s, st):
        outs = []
        for s2, v in self.ev_multi(s.value, st):
            if isinstance(v, _Raised):
                outs.append((RAISE, s2, v.exc))
                continue
            for t in s.targets:
                self.assign(t, v, s2)
            outs.append((NEXT, s2, None))
        return outs

    def s_AnnAssign(self, s, st):
        if s.value is None:
            return [(NEXT, st, None)]
        outs = []
        hint = self.c.type_of_annotation(ast.unparse(s.annotation))
        for s2, v in self.ev_multi(s.value, st):
            if isinstance(v, _Raised):
                outs.append((RAISE, s2, v.exc))
                continue
            if hint is not None:
                if isinstance(v.ty, THelper) and v.ty.kind not in ("pylist", "pytuple"):
                    pass        # helper values (views, enumerations of sets, ...) keep their Python-side representation
                else:
                    v = self.coerce(v, hint, s2)
            self.assign(s.target, v, s2)
            outs.append((NEXT, s2, None))
        return outs

    def s_AugAssign(self, s, st):
        cur = self.ev(s.target, st)
        rhs = self.ev(s.value, st)
        v = self.binop(s.op, cur, rhs, st, s)
        self.assign(s.target, v, st)
        return [(NEXT, st, None)]

    def s_Return(self, s, st):
        st.ghost["retline"] = s.lineno
        if s.value is None:
            return [(RET, st, NONE)]
        outs = []
        for s2, v in self.ev_multi(s.value, st):
            outs.append((RET, s2, v) if not isinstance(v, _Raised) else (RAISE, s2, v.exc))
        return outs

    def s_Raise(self, s, st):
        exc = "Exception"
        if s.exc is not None:
            e = s.exc
            if isinstance(e, ast.Call):
                e = e.func
            if isinstance(e, ast.Name):
                exc = e.id
                if exc in st.env and isinstance(st.env[exc], _ExcVal):
                    exc = st.env[exc].exc
        return [(RAISE, st, exc)]

    def s_Assert(self, s, st):
        c = self.truth(self.ev(s.test, st))
        if any(a in ast.unparse(s.test) for a in (getattr(self.c, "raising_asserts", None) or [])):
            # a run-time check that the contract declares as a possible exceptional outcome: both outcomes are explored
            fs = st.clone()
            fs.assume(z3.Not(c))
            st.assume(c)
            return [(RAISE, fs, "AssertionError"), (NEXT, st, None)]
        if self.c.assert_is_assumed(s.lineno, ast.unparse(s.test)):
            st.assume(c)
        else:
            self.oblige(st, f"assert@{ast.unparse(s.test)[:40]}", c, s.lineno, kind="assert")
            st.assume(c)
        return [(NEXT, st, None)]

    def s_With(self, s, st):
        """with <expr> as <name>: body   -- only for context managers with an assumed model (registry hook `with_enter`):
        entering binds the managed value, leaving does nothing observable"""
        if len(s.items) != 1:
            raise OutOfSubset("with-statement with several items")
        it = s.items[0]
        cm = self.ev(it.context_expr, st)
        v = self.reg._hook("with_enter", self, st, cm, s)
        if v is None:
            raise OutOfSubset(f"with-statement over {cm.ty}")
        if it.optional_vars is not None:
            self.assign(it.optional_vars, v, st)
        return self.block(s.body, st)

    def s_Break(self, s, st):
        return [(BRK, st, None)]

    def s_Continue(self, s, st):
        return [(CONT, st, None)]

    def s_FunctionDef(self, s, st):
        st.env[s.name] = _Closure(s)
        return [(NEXT, st, None)]

    def s_If(self, s, st):
        outs = []
        for s1, cv in self.ev_multi(s.test, st):
            if isinstance(cv, _Raised):
                outs.append((RAISE, s1, cv.exc))
                continue
            c = self.truth(cv)
            if z3.is_true(z3.simplify(c)):
                outs += self.block(s.body, s1)
                continue
            if z3.is_false(z3.simplify(c)):
                outs += self.block(s.orelse, s1)
                continue
            a, b = s1, s1.clone()
            base_len = len(s1.pc)
            a.assume(c)
            b.assume(z3.Not(c))
            self.narrow(s.test, a, True)
            self.narrow(s.test, b, False)
            per_branch = []
            for br, blk in ((a, s.body), (b, s.orelse)):
                n0 = len(self.obls)
                try:
                    per_branch.append(self.block(blk, br))
                except OutOfSubset:
                    # a construct outside the subset only matters if the branch can be taken at all
                    if self._feasible(br):
                        raise
                    del self.obls[n0:]
                    per_branch.append([])
                    self.notes.append(f"infeasible branch at line {s.lineno} skipped (contains constructs outside the subset)")
            merged = self._merge_branches(base_len, per_branch, c) if getattr(self.c, "merge_ifs", False) else None
            if merged is not None:
                outs.append((NEXT, merged, None))
            else:
                outs += per_branch[0] + per_branch[1]
        return outs

    def _merge_branches(self, base_len, per_branch, c):
        """Join of the two branches of an `if` when both fall through exactly once and differ only in values that have
        an SMT term of the same type (or in literal strings): one state with if-then-else values and the disjunction of
        the two path conditions.  Purely an optimisation of the path enumeration (opt-in: Contract.merge_ifs)."""
        if len(per_branch) != 2 or any(len(o) != 1 or o[0][0] != NEXT for o in per_branch):
            return None
        sa, sb = per_branch[0][0][1], per_branch[1][0][1]
        if set(sa.env) != set(sb.env) or set(sa.heap) != set(sb.heap) or set(sa.ghost) != set(sb.ghost):
            return None

        def join(x, y):
            if x is y:
                return x
            if isinstance(x, Ref) or isinstance(y, Ref):
                return x if (isinstance(x, Ref) and isinstance(y, Ref) and x.t == y.t) else None
            if isinstance(x, _StrLit) and isinstance(y, _StrLit):
                return x if x.s == y.s else _StrChoice(c, x, y)
            if not isinstance(x, Val) or not isinstance(y, Val):
                return None
            if x.t is None or y.t is None or x.ty != y.ty or not z3.is_expr(x.t) or not z3.is_expr(y.t):
                return None
            if z3.eq(x.t, y.t):
                return x
            return Val(x.ty, z3.If(c, x.t, y.t))
        env = {}
        for k in sa.env:
            j = join(sa.env[k], sb.env[k])
            if j is None:
                return None
            env[k] = j
        for k in sa.ghost:
            ga, gb = sa.ghost[k], sb.ghost[k]
            if ga is gb:
                continue
            if z3.is_expr(ga) and z3.is_expr(gb) and z3.eq(ga, gb):
                continue
            if isinstance(ga, (int, str)) and ga == gb:
                continue
            return None
        heap = {}
        for oid in sa.heap:
            ha, hb = sa.heap[oid], sb.heap[oid]
            if set(ha.fields) != set(hb.fields):
                return None
            h = ha.clone()
            for f in ha.fields:
                j = join(ha.fields[f], hb.fields[f])
                if j is None:
                    return None
                h.fields[f] = j
            heap[oid] = h
        m = sa.clone()
        m.env, m.heap = env, heap
        xa, xb = sa.pc[base_len:], sb.pc[base_len:]
        m.pc = list(sa.pc[:base_len]) + [z3.Or(z3.And(*xa) if xa else z3.BoolVal(True), z3.And(*xb) if xb else z3.BoolVal(True))]
        return m

    def _feasible(self, st):
        sol = z3.Solver()
        sol.set("timeout", 3000)
        sol.set("smt.mbqi", False)
        for ax in self.reg.axioms_for(self.c):
            sol.add(ax)
        for p in st.pc:
            sol.add(p)
        return sol.check() != z3.unsat

    def s_Try(self, s, st):
        if s.finalbody or s.orelse:
            raise OutOfSubset("try/finally or try/else")
        outs = []
        for kind, s2, p in self.block(s.body, st):
            if kind != RAISE:
                outs.append((kind, s2, p))
                continue
            handled = False
            for h in s.handlers:
                names = self._handler_names(h)
                if names is None or p in names or self._exc_subclass(p, names):
                    if h.name:
                        s2.env[h.name] = _ExcVal(p)
                    outs += self.block(h.body, s2)
                    handled = True
                    break
            if not handled:
                outs.append((kind, s2, p))
        return outs

    def _handler_names(self, h):
        if h.type is None:
            return None
        if isinstance(h.type, ast.Name):
            return [h.type.id]
        if isinstance(h.type, ast.Tuple):
            return [e.id for e in h.type.elts]
        raise OutOfSubset("except clause shape")

    _EXC_PARENTS = {"RuntimeError": ["Exception"], "KeyError": ["LookupError", "Exception"],
                    "IndexError": ["LookupError", "Exception"], "ValueError": ["Exception"],
                    "AssertionError": ["Exception"], "TimeoutError": ["OSError", "Exception"]}

    def _exc_subclass(self, exc, names):
        return any(p in names for p in self._EXC_PARENTS.get(exc, ["Exception"]))

    # ------------------------------------------------------------------ loops
    def _assigned_names(self, stmts):
        names = set()
        for n in ast.walk(ast.Module(body=list(stmts), type_ignores=[])):
            if isinstance(n, (ast.Yield, ast.YieldFrom)):
                names.add("__yield__")
            if isinstance(n, ast.Name) and isinstance(n.ctx, (ast.Store, ast.Del)):
                names.add(n.id)
            elif isinstance(n, (ast.Subscript, ast.Attribute)) and isinstance(n.ctx, ast.Store):
                b = n
                while isinstance(b, (ast.Subscript, ast.Attribute)):
                    b = b.value
                if isinstance(b, ast.Name):
                    names.add(b.id)
            elif isinstance(n, ast.Call) and isinstance(n.func, ast.Attribute):
                b = n.func.value
                while isinstance(b, (ast.Subscript, ast.Attribute)):
                    b = b.value
                if isinstance(b, ast.Name) and n.func.attr in _MUTATORS:
                    names.add(b.id)
            elif isinstance(n, ast.Call) and isinstance(n.func, ast.Name) and getattr(dict(self.c.params).get(n.func.id), "callback", False):
                names.update({n.func.id + "__args", n.func.id + "__rets"})      # ghost logs of a callback parameter
            elif isinstance(n, ast.Call) and isinstance(n.func, ast.Name):
                # calls to contracts that modify an argument
                cc = self.reg.lookup_function(n.func.id)
                if cc is not None:
                    for i, a in enumerate(n.args):
                        if cc.modifies_param(i, None) and isinstance(a, ast.Name):
                            names.add(a.id)
        return names

    def _mutated_in_place(self, stmts):
        names = set()
        for n in ast.walk(ast.Module(body=list(stmts), type_ignores=[])):
            if isinstance(n, (ast.Subscript, ast.Attribute)) and isinstance(n.ctx, (ast.Store, ast.Del)):
                b = n
                while isinstance(b, (ast.Subscript, ast.Attribute)):
                    b = b.value
                if isinstance(b, ast.Name):
                    names.add(b.id)
            elif isinstance(n, ast.Call) and isinstance(n.func, ast.Attribute) and n.func.attr in _MUTATORS:
                b = n.func.value
                while isinstance(b, (ast.Subscript, ast.Attribute)):
                    b = b.value
                if isinstance(b, ast.Name):
                    names.add(b.id)
        return names

    def _havoc(self, st, names, lc):
        for nm in sorted(names):
            if nm in st.env:
                v = st.env[nm]
                if isinstance(v, Ref) or isinstance(v, (_Closure, _ExcVal)):
                    continue
                ty = lc.local_type(nm, v.ty)
                if isinstance(ty, (TEmpty, type(TNoneLit))):
                    raise OutOfSubset(f"loop-modified variable `{nm}` has no type yet; add a type hint")
                nv = ty.fresh(nm)
                st.env[nm] = nv
                st.assume(ty.wf(nv.t))
        for oid, fields in lc.havoc_heap(self, st):
            self.havoc_obj(st, oid, fields)

    def havoc_obj(self, st, oid, fields=None):
        o = st.heap[oid]
        for f, v in list(o.fields.items()):
            if fields is not None and f not in fields:
                continue
            if isinstance(v, Ref):
                continue
            nv = v.ty.fresh(f)
            o.fields[f] = nv
            st.assume(v.ty.wf(nv.t))

    def loop_contract(self, node):
        ordn, fp = self.loops[id(node)]
        lc = self.c.loop(ordn)
        if lc is None:
            raise OutOfSubset(f"loop {ordn} `{fp}` has no invariant in the contract")
        if lc.fingerprint != fp and extract.normalise_fingerprint(lc.fingerprint) != fp:
            raise OutOfSubset(f"loop {ordn}: fingerprint drift: contract `{lc.fingerprint}` vs source `{fp}`")
        return ordn, lc

    def s_While(self, s, st):
        if s.orelse:
            raise OutOfSubset("while/else")
        ordn, lc = self.loop_contract(s)
        tag = f"inv[{ordn}]"
        # entry
        for nm, g in lc.invariant(self, st, None):
            self.oblige(st, f"{tag}.entry.{nm}", g, s.lineno, kind="inv")
        outs = []
        mod = self._assigned_names(s.body)
        # arbitrary iteration
        it = st.clone()
        self._havoc(it, mod, lc)
        for nm, g in lc.invariant(self, it, None):
            it.assume(g)
        it.ghost[f"head{ordn}"] = {k: v.clone() for k, v in it.heap.items()}
        it.ghost[f"headenv{ordn}"] = dict(it.env)
        ex = it.clone()
        cv = self.truth(self.ev(s.test, it))
        it.assume(cv)
        self.narrow(s.test, it, True)
        self.cover(it, f"loop{ordn}.body", s.lineno)
        var0 = lc.variant(self, it, None)
        for kind, s2, p in self.block(s.body, it):
            if kind in (NEXT, CONT):
                for nm, g in lc.invariant(self, s2, None):
                    self.oblige(s2, f"{tag}.preserve.{nm}", g, s.lineno, kind="inv")
                    s2.assume(g)
                if var0 is not None:
                    var1 = lc.variant(self, s2, None)
                    cont = self.truth(self.ev(s.test, s2.clone()))     # the variant must decrease only if the loop goes on
                    self.oblige(s2, f"dec[{ordn}]", z3.Implies(cont, _lex_decreases(var0, var1)), s.lineno, kind="dec")
            elif kind == BRK:
                outs.append((NEXT, s2, None))
            else:
                outs.append((kind, s2, p))
        # exit
        cv2 = self.truth(self.ev(s.test, ex))
        ex.assume(z3.Not(cv2))
        self.narrow(s.test, ex, False)
        outs.append((NEXT, ex, None))
        return outs

    def s_For(self, s, st):
        if s.orelse:
            raise OutOfSubset("for/else")
        ordn, lc = self.loop_contract(s)
        tag = f"inv[{ordn}]"
        coll = self.ev(s.iter, st)
        itr = self.make_iter(coll, st, s)
        st.ghost[f"entry{ordn}"] = {k: v.clone() for k, v in st.heap.items()}     # heap when the loop is entered
        st.ghost[f"entryenv{ordn}"] = dict(st.env)                                # locals when the loop is entered
        g0 = itr.start()
        cterm = getattr(getattr(itr, "coll", None), "t", None)
        g0["coll"] = cterm
        for nm, g in lc.invariant(self, st, g0):
            self.oblige(st, f"{tag}.entry.{nm}", g, s.lineno, kind="inv")
        outs = []
        mod = self._assigned_names(s.body) | _target_names(s.target)
        # the iterated collection must not be mutated IN PLACE by the body (rebinding the name is harmless:
        # the loop keeps iterating the original object, which is what `coll` denotes)
        if isinstance(s.iter, ast.Name) and s.iter.id in self._mutated_in_place(s.body):
            self.oblige(st, f"{tag}.iterated_collection_not_mutated", False, s.lineno, kind="inv")
        it = st.clone()
        self._havoc(it, mod, lc)
        gh = itr.arbitrary(it)
        gh["coll"] = cterm
        for nm, g in lc.invariant(self, it, gh):
            it.assume(g)
        it.ghost[f"head{ordn}"] = {k: v.clone() for k, v in it.heap.items()}
        it.ghost[f"headenv{ordn}"] = dict(it.env)
        ex = it.clone()
        elem = itr.pick(it, gh)           # assumes "not finished", returns current element
        it.ghost[f"loop{ordn}"] = gh      # visible to invariants of nested loops (c.outer(ordn))
        self.assign(s.target, elem, it)
        self.cover(it, f"loop{ordn}.body", s.lineno)
        gh1 = itr.advance(gh)
        gh1["coll"] = cterm
        for kind, s2, p in self.block(s.body, it):
            if kind in (NEXT, CONT):
                for nm, g in lc.invariant(self, s2, gh1):
                    self.oblige(s2, f"{tag}.preserve.{nm}", g, s.lineno, kind="inv")
                    s2.assume(g)
            elif kind == BRK:
                s2.ghost[f"loop{ordn}"] = gh
                outs.append((NEXT, s2, None))
            else:
                outs.append((kind, s2, p))
        itr.finished(ex, gh)
        ex.ghost[f"loop{ordn}"] = gh
        ex.ghost[f"exitenv{ordn}"] = dict(ex.env)        # locals when the loop is left normally (c.exit_local)
        outs.append((NEXT, ex, None))
        return outs

    # ------------------------------------------------------------------ iteration protocols
    def consume(self, coll, st):
        """a value returned by a generator function can be iterated once only: a second traversal (which would silently see nothing in
        Python) is outside the model"""
        if getattr(coll, "_one_shot", False) and getattr(coll, "t", None) is not None:
            key = coll.t.get_id()
            used = st.ghost.get("consumed_generators", frozenset())
            if key in used:
                raise OutOfSubset("a generator object is traversed a second time (it would be exhausted)")
            st.ghost["consumed_generators"] = used | {key}

    def make_iter(self, coll, st, node):
        if isinstance(coll, _IterSpec):
            return coll
        self.consume(coll, st)
        ty = coll.ty
        if ty == TSpace:
            return _SpaceKeysIter(coll)
        if isinstance(ty, TSet):
            return _SetIter(coll)
        if isinstance(ty, TList):
            return _ListIter(coll)
        if isinstance(ty, TDict):
            return _DictKeysIter(coll)
        if isinstance(ty, TEmpty) and ty.kind in ("list", "set", "dict"):
            return _EmptyIter()
        r = self.reg._hook("iterate", self, st, coll, node)
        if r is not None:
            return r
        raise OutOfSubset(f"iteration over {ty}")

    # ------------------------------------------------------------------ assignment
    def assign(self, target, v, st):
        if isinstance(target, ast.Name):
            if isinstance(v.ty, TEmpty) and v.ty.kind in ("list", "set", "dict") or v.ty == TNoneLit:
                # untyped literal: adopt the declared type of the local, or the type it already has
                want = self.c.local_types.get(target.id)
                cur = st.env.get(target.id)
                if want is None and cur is not None and isinstance(cur.ty, (TList, TSet, TDict, TOpt)) :
                    want = cur.ty
                if want is None and cur is not None and cur.ty == TSpace and v.ty != TNoneLit:
                    want = TSpace
                if want is None and v.ty != TNoneLit:
                    # `if p is None: p = {}` / `= []` on an Optional parameter: the literal has the parameter's element type
                    decl = dict(list(self.c.params) + list(self.c.captured)).get(target.id)
                    if isinstance(decl, TOpt):
                        want = decl.elem
                if want is not None:
                    try:
                        v = self.coerce(v, want, st)
                    except OutOfSubset:
                        pass
            st.env[target.id] = v
        elif isinstance(target, (ast.Tuple, ast.List)):
            parts = self.untuple(v, len(target.elts))
            for t, p in zip(target.elts, parts):
                self.assign(t, p, st)
        elif isinstance(target, ast.Subscript):
            base = self.ev(target.value, st)
            idx = self.ev_index(target.slice, st)
            nb = self.setitem(base, idx, v, st, target)
            if nb is not None:
                self.assign(target.value, nb, st)
        elif isinstance(target, ast.Attribute):
            base = self.ev(target.value, st)
            m = self.reg.model_for(base)
            if isinstance(base, Ref) or (m is not None and isinstance(base.ty, THelper) and base.ty.kind.startswith("module:")):
                m.setattr(self, st, base, target.attr, v)
            else:
                raise OutOfSubset(f"attribute store on {base.ty}")
        else:
            raise OutOfSubset(f"assignment target {type(target).__name__}")

    def untuple(self, v, n):
        if isinstance(v, _PyTuple):
            if len(v.items) != n:
                raise OutOfSubset("tuple arity")
            return v.items
        if isinstance(v.ty, TTuple):
            return [Val(e, v.ty.get(v.t, i)) for i, e in enumerate(v.ty.elems)]
        raise OutOfSubset(f"unpacking {v.ty}")

    def setitem(self, base, idx, v, st, node):
        ty = base.ty
        if isinstance(base, Ref):
            return self.reg.model_for(base).setitem(self, st, base, idx, v)
        if ty == TSpace or (isinstance(ty, TEmpty) and ty.kind == "dict" and idx.ty == TName and v.ty == TInt):
            b = base if ty == TSpace else TSpace.empty()
            return Val(TSpace, z3.Store(b.t, idx.t, v.t))
        if isinstance(ty, TEmpty) and ty.kind == "dict":
            dty = TDict(idx.ty, v.ty)
            base = dty.empty()
            ty = dty
        if isinstance(ty, TDict):
            v = self.coerce(v, ty.val, st)
            if isinstance(idx, _PyTuple):
                idx = self.coerce(idx, ty.key, st)        # a tuple key built in place: (a, b)
            return Val(ty, ty.mk(z3.Store(ty.dom(base.t), idx.t, True), z3.Store(ty.vals(base.t), idx.t, v.t)))
        if isinstance(ty, TList):
            i = idx.t
            self.oblige(st, "index_in_range", z3.And(i >= 0, i < ty.len(base.t)), node.lineno, kind="safety")
            return Val(ty, ty.mk(ty.len(base.t), z3.Store(ty.at(base.t), i, self.coerce(v, ty.elem, st).t)))
        m = self.reg.model_for(base)
        if m is not None:
            return m.setitem(self, st, base, idx, v)
        raise OutOfSubset(f"item store on {ty}")

    def coerce(self, v, ty, st):
        """Adapt literal-ish values (None, empty containers, int for Literal[0,1]) to an expected type."""
        if v.ty == ty:
            return v
        if isinstance(ty, TOpt):
            if v.ty == TNoneLit:
                return ty.none()
            inner = self.coerce(v, ty.elem, st)
            return Val(ty, ty.some(inner.t))
        if isinstance(v.ty, TEmpty):
            if ty == TSpace and v.ty.kind == "dict":
                return TSpace.empty()
            if isinstance(ty, (TList, TSet, TDict)):
                return ty.empty()
        r = self.reg._hook("coerce", self, st, v, ty)
        if r is not None:
            return r
        if isinstance(v, _StrLit) and ty == TInt:
            from . import theory as _T
            if v.s in _T.PROBLEM:
                return vint(_T.PROBLEM[v.s])
        if isinstance(v, _PyList) and isinstance(ty, TList):
            arr = z3.Const(fresh_name("lit"), z3.ArraySort(I, ty.elem.sort()))
            for i_, x in enumerate(v.items):
                arr = z3.Store(arr, i_, self.coerce(x, ty.elem, st).t)
            return Val(ty, ty.mk(z3.IntVal(len(v.items)), arr))
        if isinstance(v, _PyTuple) and isinstance(ty, TTuple):
            return Val(ty, ty.mk(*[self.coerce(x, e, st).t for x, e in zip(v.items, ty.elems)]))
        if isinstance(v.ty, TOpt) and v.ty.elem == ty:
            self.oblige(st, "optional_value_is_not_none", z3.Not(v.ty.is_none(v.t)), 0, kind="model")
            return Val(ty, v.ty.val(v.t))
        raise OutOfSubset(f"cannot use {v.ty} where {ty} is expected")

    # ------------------------------------------------------------------ narrowing (x is None tests)
    def narrow(self, test, st, truth):
        if isinstance(test, ast.UnaryOp) and isinstance(test.op, ast.Not):
            return self.narrow(test.operand, st, not truth)
        if isinstance(test, ast.BoolOp):
            if isinstance(test.op, ast.And) and truth:
                for v in test.values:
                    self.narrow(v, st, True)
            if isinstance(test.op, ast.Or) and not truth:
                for v in test.values:
                    self.narrow(v, st, False)
            return
        if isinstance(test, ast.Compare) and len(test.ops) == 1 and isinstance(test.left, ast.Name):
            rhs = test.comparators[0]
            if isinstance(rhs, ast.Constant) and rhs.value is None:
                isnot = isinstance(test.ops[0], ast.IsNot)
                if isinstance(test.ops[0], (ast.Is, ast.IsNot)):
                    known_not_none = (isnot == truth)
                    v = st.env.get(test.left.id)
                    if v is not None and isinstance(v.ty, TOpt):
                        if known_not_none:
                            st.env[test.left.id] = Val(v.ty.elem, v.ty.val(v.t))
                        else:
                            st.env[test.left.id] = NONE

    # ------------------------------------------------------------------ expressions
    def ev_multi(self, e, st):
        """Evaluate an expression that may contain contract calls with several outcomes
        (normal / raising). Returns list of (state, value-or-_Raised)."""
        self._forks = []
        try:
            v = self.ev(e, st)
            res = [(st, v)]
        except _RaiseSignal as r:
            res = [(st, _Raised(r.exc))]
        forks, self._forks = self._forks, []
        for fs, exc in forks:
            res.append((fs, _Raised(exc)))
        return res

    def ev(self, e, st) -> Val:
        m = getattr(self, "e_" + type(e).__name__, None)
        if m is None:
            raise OutOfSubset(f"expression {type(e).__name__} at line {getattr(e, 'lineno', 0)}")
        return m(e, st)

    def ev_index(self, sl, st):
        if isinstance(sl, ast.Tuple):
            return _PyTuple([self.ev(x, st) for x in sl.elts])
        if isinstance(sl, ast.Slice):
            return _Slice(self.ev(sl.lower, st) if sl.lower else None, self.ev(sl.upper, st) if sl.upper else None)
        return self.ev(sl, st)

    def e_Constant(self, e, st):
        v = e.value
        if v is None:
            return NONE
        if isinstance(v, bool):
            return vbool(v)
        if isinstance(v, int):
            return vint(v)
        if isinstance(v, str):
            return _StrLit(v)
        raise OutOfSubset(f"constant {v!r}")

    def e_JoinedStr(self, e, st):
        return self.reg.fstring(self, st, e)

    def e_Name(self, e, st):
        if e.id in st.env:
            return st.env[e.id]
        g = self.reg.global_value(self, st, e.id)
        if g is not None:
            return g
        raise OutOfSubset(f"unknown name `{e.id}` at line {e.lineno}")

    def e_Tuple(self, e, st):
        return _PyTuple([self.ev(x, st) for x in e.elts])

    def e_List(self, e, st):
        if not e.elts:
            return Val(TEmpty("list"), None)
        items = [self.ev(x, st) for x in e.elts]
        try:
            items = [x if not isinstance(x, _PyTuple) else self.tuple_val(x, st) for x in items]
        except OutOfSubset:
            return _PyList(items)      # components not typed yet (e.g. a None): typed when it meets a declared type
        if any(isinstance(x, (_StrLit, _StrChoice)) or isinstance(x.ty, THelper) for x in items):
            return _PyList(items)      # literal strings / helper values: only `in` tests and pattern-matched uses
        ty = TList(items[0].ty)
        arr = z3.Const(fresh_name("lit"), z3.ArraySort(I, items[0].ty.sort()))
        for i, x in enumerate(items):
            arr = z3.Store(arr, i, self.coerce(x, items[0].ty, st).t)
        return Val(ty, ty.mk(z3.IntVal(len(items)), arr))

    def tuple_val(self, pt, st):
        items = [x if not isinstance(x, _PyTuple) else self.tuple_val(x, st) for x in pt.items]
        for x in items:
            if isinstance(x.ty, (TEmpty, type(TNoneLit))):
                raise OutOfSubset("untyped component inside a stored tuple; add a type hint")
        ty = TTuple(*[x.ty for x in items])
        return Val(ty, ty.mk(*[x.t for x in items]))

    def e_Dict(self, e, st):
        if not e.keys:
            return Val(TEmpty("dict"), None)
        if all(k is None for k in e.keys):
            # {**a, **b, ...}: only for total records of one type (TypedDict with every key present): the last one wins
            vs = [self.ev(v, st) for v in e.values]
            r = self.reg._hook("dict_merge", self, st, vs, e)
            if r is not None:
                return r
            raise OutOfSubset("dict literal with ** unpacking")
        if any(k is None for k in e.keys):
            raise OutOfSubset("dict literal with ** unpacking")
        ks = [self.ev(k, st) for k in e.keys]
        vs = [self.ev(v, st) for v in e.values]
        if all(isinstance(k, _StrLit) for k in ks):
            return _PyRecord({k.s: v for k, v in zip(ks, vs)})
        if ks[0].ty == TName and vs[0].ty == TInt:
            t = TSpace.empty().t
            for k, v in zip(ks, vs):
                t = z3.Store(t, k.t, v.t)
            return Val(TSpace, t)
        r = self.reg._hook("dict_literal", self, st, ks, vs, e)
        if r is not None:
            return r
        raise OutOfSubset("dict literal")

    def e_Set(self, e, st):
        items = [self.ev(x, st) for x in e.elts]
        ty = TSet(items[0].ty)
        t = ty.empty().t
        for x in items:
            t = z3.Store(t, x.t, True)
        return Val(ty, t)

    def e_IfExp(self, e, st):
        c = self.truth(self.ev(e.test, st))
        sa, sb = st.clone(), st.clone()
        sa.assume(c)
        sb.assume(z3.Not(c))
        self.narrow(e.test, sa, True)
        self.narrow(e.test, sb, False)
        a, b = self.ev(e.body, sa), self.ev(e.orelse, sb)
        return self.ite(c, a, b, st)

    def ite(self, c, a, b, st):
        if z3.is_true(z3.simplify(c)):
            return a
        if z3.is_false(z3.simplify(c)):
            return b
        if a.ty == TNoneLit and b.ty != TNoneLit:
            a = self.coerce(a, TOpt(b.ty) if not isinstance(b.ty, TOpt) else b.ty, st)
        if b.ty == TNoneLit and a.ty != TNoneLit:
            b = self.coerce(b, TOpt(a.ty) if not isinstance(a.ty, TOpt) else a.ty, st)
        if isinstance(a.ty, TEmpty) and hasattr(b.ty, "empty") and not isinstance(b.ty, TEmpty):
            a = b.ty.empty()        # an empty literal takes the container type of the other branch
        if isinstance(b.ty, TEmpty) and hasattr(a.ty, "empty") and not isinstance(a.ty, TEmpty):
            b = a.ty.empty()
        if isinstance(a, _StrLit) and isinstance(b, _StrLit):
            return a if a.s == b.s else _StrChoice(c, a, b)
        if a.ty != b.ty:
            if isinstance(a.ty, TOpt) and a.ty.elem == b.ty:
                b = self.coerce(b, a.ty, st)
            elif isinstance(b.ty, TOpt) and b.ty.elem == a.ty:
                a = self.coerce(a, b.ty, st)
            elif isinstance(a, _StrLit) and isinstance(b, _StrLit):
                return _StrChoice(c, a, b)
            else:
                raise OutOfSubset(f"conditional expression of types {a.ty} / {b.ty}")
        return Val(a.ty, z3.If(c, a.t, b.t))

    def e_UnaryOp(self, e, st):
        v = self.ev(e.operand, st)
        if isinstance(e.op, ast.Not):
            return vbool(z3.Not(self.truth(v)))
        if isinstance(e.op, ast.USub) and v.ty == TInt:
            return vint(-v.t)
        raise OutOfSubset("unary op")

    def e_BoolOp(self, e, st):
        # short-circuit semantics: obligations raised while evaluating operand i are guarded by
        # "all earlier operands were true" (and) / "all earlier operands were false" (or)
        is_and = isinstance(e.op, ast.And)
        ts, guards = [], []
        for v in e.values:
            n0 = len(self.obls)
            sub = st
            if guards:
                sub = st.clone()
                for g in guards:
                    sub.assume(g)
                for prev in e.values[:len(ts)]:
                    self.narrow(prev, sub, is_and)
            base_len = len(sub.pc)
            t = self.truth(self.ev(v, sub))
            if sub is not st:
                # facts learned while evaluating this operand (callee postconditions) hold whenever it is evaluated at all
                g = z3.And(guards) if len(guards) > 1 else guards[0]
                for fact in sub.pc[base_len:]:
                    st.assume(z3.Implies(g, fact))
            ts.append(t)
            guards.append(t if is_and else z3.Not(t))
        return vbool(z3.And(ts) if is_and else z3.Or(ts))

    def e_BinOp(self, e, st):
        return self.binop(e.op, self.ev(e.left, st), self.ev(e.right, st), st, e)

    def binop(self, op, a, b, st, node):
        if a.ty == TInt and b.ty == TInt:
            if isinstance(op, ast.Add):
                return vint(a.t + b.t)
            if isinstance(op, ast.Sub):
                return vint(a.t - b.t)
            if isinstance(op, ast.Mult):
                return vint(a.t * b.t)
            if isinstance(op, ast.FloorDiv):
                self.oblige(st, "div_nonzero", b.t != 0, node.lineno, kind="safety")
                return vint(_floordiv(a.t, b.t))
            if isinstance(op, ast.Mod):
                self.oblige(st, "mod_nonzero", b.t != 0, node.lineno, kind="safety")
                return vint(_pymod(a.t, b.t))
            if isinstance(op, ast.Pow):
                sa, sb = z3.simplify(a.t), z3.simplify(b.t)
                if z3.is_int_value(sa) and z3.is_int_value(sb) and sb.as_long() >= 0:
                    return vint(sa.as_long() ** sb.as_long())
                return self.reg.int_pow(self, st, a, b, node)
            if isinstance(op, (ast.LShift, ast.BitOr, ast.BitAnd, ast.RShift)):
                return self.reg.int_bitop(self, st, op, a, b, node)
        if isinstance(op, ast.BitOr):
            if a.ty == TSpace and isinstance(b.ty, TEmpty) and b.ty.kind == "dict":
                return a
            if b.ty == TSpace and isinstance(a.ty, TEmpty) and a.ty.kind == "dict":
                return b
            if a.ty == TSpace and b.ty == TSpace:   # dict union: right operand wins
                from . import theory as _T
                return Val(TSpace, _T.union(a.t, b.t))
            if isinstance(a.ty, TSet) and a.ty == b.ty:
                k = z3.Const(fresh_name("k"), a.ty.elem.sort())
                return Val(a.ty, z3.Lambda([k], z3.Or(a.t[k], b.t[k])))
            if isinstance(a.ty, TSet) and isinstance(b.ty, TEmpty):
                return a
            if isinstance(b.ty, TSet) and isinstance(a.ty, TEmpty):
                return b
        if isinstance(op, ast.BitAnd) and isinstance(a.ty, TSet) and a.ty == b.ty:
            k = z3.Const(fresh_name("k"), a.ty.elem.sort())
            return Val(a.ty, z3.Lambda([k], z3.And(a.t[k], b.t[k])))
        if isinstance(op, ast.Sub) and isinstance(a.ty, TSet) and isinstance(b.ty, TEmpty):
            return a
        if isinstance(op, ast.Sub) and isinstance(a.ty, TSet) and a.ty == b.ty:
            k = z3.Const(fresh_name("k"), a.ty.elem.sort())
            return Val(a.ty, z3.Lambda([k], z3.And(a.t[k], z3.Not(b.t[k]))))
        if isinstance(op, ast.Add) and isinstance(a.ty, TList):
            if isinstance(b.ty, TEmpty):
                return a
            if a.ty == b.ty:
                return self.list_concat(a, b, st)
        if isinstance(op, ast.Add) and isinstance(a.ty, TEmpty) and isinstance(b.ty, TList):
            return b
        r = self.reg.binop(self, st, op, a, b, node)
        if r is not None:
            return r
        raise OutOfSubset(f"binary {type(op).__name__} on {a.ty}, {b.ty}")

    def list_concat(self, a, b, st=None):
        """a + b as a fresh list constant characterised pointwise (a closed-form Lambda term would leave quantified
        facts about its elements without usable E-matching patterns)"""
        ty = a.ty
        la, lb = ty.len(a.t), ty.len(b.t)
        if st is None:
            i = z3.Int(fresh_name("i"))
            return Val(ty, ty.mk(la + lb, z3.Lambda([i], z3.If(i < la, ty.at(a.t)[i], ty.at(b.t)[i - la]))))
        cat = ty.fresh("concat")
        i = z3.Int(fresh_name("i"))
        st.assume(ty.len(cat.t) == la + lb)
        st.assume(z3.ForAll([i], z3.Implies(z3.And(0 <= i, i < la), ty.at(cat.t)[i] == ty.at(a.t)[i]), patterns=[ty.at(cat.t)[i]]))
        st.assume(z3.ForAll([i], z3.Implies(z3.And(la <= i, i < la + lb), ty.at(cat.t)[i] == ty.at(b.t)[i - la]), patterns=[ty.at(cat.t)[i]]))
        self.reg._hook("concat_facts", self, st, ty, a.t, b.t, cat.t)
        return cat

    def e_Compare(self, e, st):
        left = self.ev(e.left, st)
        res = []
        for op, rc in zip(e.ops, e.comparators):
            right = self.ev(rc, st)
            res.append(self.compare(op, left, right, st, e))
            left = right
        return vbool(z3.And(res) if len(res) > 1 else res[0])

    def compare(self, op, a, b, st, node):
        if isinstance(op, (ast.Is, ast.IsNot)):
            if b.ty == TNoneLit:
                if a.ty == TNoneLit:
                    r = z3.BoolVal(True)
                elif isinstance(a.ty, TOpt):
                    r = a.ty.is_none(a.t)
                else:
                    r = z3.BoolVal(False)
                return r if isinstance(op, ast.Is) else z3.Not(r)
            raise OutOfSubset("`is` on non-None")
        if isinstance(op, (ast.In, ast.NotIn)):
            r = self.contains(b, a, st, node)
            return r if isinstance(op, ast.In) else z3.Not(r)
        if isinstance(a.ty, THelper) or isinstance(b.ty, THelper):
            r = self.reg.compare(self, st, op, a, b, node)
            if r is not None:
                return r
        if a.ty == TInt and b.ty == TInt:
            return {ast.Eq: lambda: a.t == b.t, ast.NotEq: lambda: a.t != b.t, ast.Lt: lambda: a.t < b.t,
                    ast.LtE: lambda: a.t <= b.t, ast.Gt: lambda: a.t > b.t, ast.GtE: lambda: a.t >= b.t}[type(op)]()
        if isinstance(op, (ast.Eq, ast.NotEq)):
            r = self.equals(a, b, st)
            return r if isinstance(op, ast.Eq) else z3.Not(r)
        if isinstance(op, (ast.LtE, ast.Lt)) and isinstance(a.ty, TSet) and a.ty == b.ty:
            k = z3.Const(fresh_name("k"), a.ty.elem.sort())
            sub = z3.ForAll([k], z3.Implies(a.t[k], b.t[k]))
            if isinstance(op, ast.LtE):
                return sub
            k2 = z3.Const(fresh_name("k"), a.ty.elem.sort())
            return z3.And(sub, z3.Exists([k2], z3.And(b.t[k2], z3.Not(a.t[k2]))))
        r = self.reg.compare(self, st, op, a, b, node)
        if r is not None:
            return r
        raise OutOfSubset(f"comparison {type(op).__name__} on {a.ty}, {b.ty}")

    def equals(self, a, b, st):
        r = self.reg.equals(self, st, a, b)
        if r is not None:
            return r
        if isinstance(a, _StrLit) and isinstance(b, _StrLit):
            return z3.BoolVal(a.s == b.s)
        from . import theory as _T0
        if a.ty == TInt and isinstance(b, _StrLit) and b.s in _T0.PROBLEM:      # enum-coded string parameter (problem kind)
            return a.t == _T0.PROBLEM[b.s]
        if b.ty == TInt and isinstance(a, _StrLit) and a.s in _T0.PROBLEM:
            return b.t == _T0.PROBLEM[a.s]
        if isinstance(a, _StrChoice) and isinstance(b, _StrLit):
            return z3.If(a.c, z3.BoolVal(a.a.s == b.s), z3.BoolVal(a.b.s == b.s))
        if a.ty == TBool and b.ty == TBool:
            return a.t == b.t
        if a.ty == TInt and b.ty == TInt:
            return a.t == b.t
        if a.ty == TBool and b.ty == TInt:
            return z3.If(a.t, 1, 0) == b.t
        if a.ty == TInt and b.ty == TBool:
            return a.t == z3.If(b.t, 1, 0)
        if a.ty == TSpace and b.ty == TSpace:
            from . import theory as _T
            return _T.space_eq(a.t, b.t)
        if a.ty == TSpace and isinstance(b.ty, TEmpty):
            k = z3.Const(fresh_name("k"), Name)
            return z3.ForAll([k], z3.Not(indom(a.t, k)))
        if isinstance(a.ty, TEmpty) and b.ty == TSpace:
            return self.equals(b, a, st)
        if isinstance(a.ty, TList) and isinstance(b.ty, TEmpty):
            return a.ty.len(a.t) == 0
        if isinstance(b.ty, TList) and isinstance(a.ty, TEmpty):
            return b.ty.len(b.t) == 0
        if isinstance(a.ty, TOpt) and isinstance(b.ty, TEmpty) and isinstance(a.ty.elem, TList):
            return z3.And(z3.Not(a.ty.is_none(a.t)), a.ty.elem.len(a.ty.val(a.t)) == 0)
        if isinstance(a.ty, TList) and a.ty == b.ty:
            i = z3.Int(fresh_name("i"))
            ea = Val(a.ty.elem, a.ty.at(a.t)[i])
            eb = Val(a.ty.elem, a.ty.at(b.t)[i])
            return z3.And(a.ty.len(a.t) == a.ty.len(b.t),
                          z3.ForAll([i], z3.Implies(z3.And(0 <= i, i < a.ty.len(a.t)), self.equals(ea, eb, st))))
        if isinstance(a.ty, TSet) and a.ty == b.ty:
            k = z3.Const(fresh_name("k"), a.ty.elem.sort())
            return z3.ForAll([k], a.t[k] == b.t[k])
        if a.ty == b.ty and isinstance(a.ty, (type(TName), TObj)):
            return a.t == b.t
        if a.ty == TNoneLit or b.ty == TNoneLit:
            raise OutOfSubset("== None (use `is`)")
        r = self.reg.equals(self, st, a, b)
        if r is not None:
            return r
        raise OutOfSubset(f"== on {a.ty}, {b.ty}")

    def contains(self, coll, x, st, node):
        ty = coll.ty
        r = self.reg.contains(self, st, coll, x, node)
        if r is not None:
            return r
        if ty == TSpace:
            return indom(coll.t, x.t)
        if isinstance(ty, TSet):
            if isinstance(x.ty, TOpt) and x.ty.elem == ty.elem:
                # `None in {names}` is False; otherwise membership of the wrapped value
                return z3.And(z3.Not(x.ty.is_none(x.t)), coll.t[x.ty.val(x.t)])
            return coll.t[self.coerce(x, ty.elem, st).t]
        if isinstance(ty, TDict):
            return ty.dom(coll.t)[x.t]
        if isinstance(ty, TList) and isinstance(x.ty, TOpt) and x.ty.elem == ty.elem:
            # `None in [ints]` is False; otherwise membership of the wrapped value
            inner = self.contains(coll, Val(x.ty.elem, x.ty.val(x.t)), st, node)
            return z3.And(z3.Not(x.ty.is_none(x.t)), inner)
        if isinstance(ty, TEmpty) and ty.kind in ("list", "set", "dict"):
            return z3.BoolVal(False)
        if isinstance(ty, TList):
            i = z3.Int(fresh_name("i"))
            xe = self.coerce(x, ty.elem, st)
            return z3.Exists([i], z3.And(0 <= i, i < ty.len(coll.t),
                                         self.equals(Val(ty.elem, ty.at(coll.t)[i]), xe, st)))
        if isinstance(ty, TEmpty):
            return z3.BoolVal(False)
        if isinstance(coll, _PyList):
            return z3.Or([self.equals(x, y, st) for y in coll.items])
        r = self.reg.contains(self, st, coll, x, node)
        if r is not None:
            return r
        raise OutOfSubset(f"`in` on {ty}")

    def truth(self, v):
        if v.ty == TBool:
            return v.t
        if v.ty == TInt:
            return v.t != 0
        if v.ty == TNoneLit:
            return z3.BoolVal(False)
        if isinstance(v.ty, TList):
            return v.ty.len(v.t) > 0
        if isinstance(v.ty, TEmpty):
            return z3.BoolVal(False)
        if isinstance(v.ty, TOpt):
            inner = self.truth(Val(v.ty.elem, v.ty.val(v.t))) if not isinstance(v.ty.elem, (TObj,)) else z3.BoolVal(True)
            return z3.And(z3.Not(v.ty.is_none(v.t)), inner)
        if v.ty == TSpace:
            k = z3.Const(fresh_name("k"), Name)
            return z3.Exists([k], indom(v.t, k))
        if isinstance(v.ty, TSet):
            k = z3.Const(fresh_name("k"), v.ty.elem.sort())
            return z3.Exists([k], v.t[k])
        raise OutOfSubset(f"truth value of {v.ty}")

    def e_Subscript(self, e, st):
        base = self.ev(e.value, st)
        idx = self.ev_index(e.slice, st)
        return self.getitem(base, idx, st, e)

    def getitem(self, base, idx, st, node):
        ty = base.ty
        if isinstance(base, Ref):
            return self.reg.model_for(base).getitem(self, st, base, idx, node)
        if ty == TSpace:
            self.oblige(st, f"key_present@{node.lineno}", indom(base.t, idx.t), node.lineno, kind="safety")
            return vint(base.t[idx.t])
        if isinstance(ty, TDict):
            self.oblige(st, f"key_present@{node.lineno}", ty.dom(base.t)[idx.t], node.lineno, kind="safety")
            return Val(ty.val, ty.vals(base.t)[idx.t])
        if isinstance(ty, TList):
            if isinstance(idx, _Slice):
                return self.list_slice(base, idx, st, node)
            i = idx.t
            n = ty.len(base.t)
            if z3.is_int_value(z3.simplify(i)) and z3.simplify(i).as_long() < 0:
                i = n + i
            self.oblige(st, f"index_in_range@{node.lineno}", z3.And(i >= 0, i < n), node.lineno, kind="safety")
            return Val(ty.elem, ty.at(base.t)[i])
        if isinstance(ty, TTuple) and z3.is_int_value(idx.t):
            k = idx.t.as_long()
            return Val(ty.elems[k], ty.get(base.t, k))
        if isinstance(ty, TTuple) and idx.ty == TBool and len(ty.elems) == 2 and ty.elems[0] == ty.elems[1]:
            return Val(ty.elems[0], z3.If(idx.t, ty.get(base.t, 1), ty.get(base.t, 0)))      # t[False] = t[0], t[True] = t[1]
        if isinstance(base, _PyTuple) and z3.is_int_value(idx.t):
            return base.items[idx.t.as_long()]
        if isinstance(base, _PyRecord):
            if not isinstance(idx, _StrLit):
                raise OutOfSubset("record subscript with a computed key")
            if idx.s not in base.items:
                self.oblige(st, f"key_present@{node.lineno}", False, node.lineno, kind="safety")
                raise OutOfSubset(f"record has no key {idx.s!r}")
            return base.items[idx.s]
        m = self.reg.model_for(base)
        if m is not None:
            return m.getitem(self, st, base, idx, node)
        raise OutOfSubset(f"subscript on {ty}")

    def list_slice(self, base, sl, st, node):
        ty = base.ty
        n = ty.len(base.t)

        def norm(v, default):
            if v is None:
                return default
            t = z3.simplify(v.t)
            if z3.is_int_value(t) and t.as_long() < 0:
                return z3.If(n + t < 0, 0, n + t)
            return z3.If(t > n, n, t)
        lo, hi = norm(sl.lo, z3.IntVal(0)), norm(sl.hi, n)
        i = z3.Int(fresh_name("i"))
        ln = z3.If(hi - lo < 0, 0, hi - lo)
        return Val(ty, ty.mk(ln, z3.Lambda([i], ty.at(base.t)[i + lo])))

    def e_Attribute(self, e, st):
        base = self.ev(e.value, st)
        if isinstance(base, Ref):
            return self.reg.model_for(base).getattr(self, st, base, e.attr, e)
        m = self.reg.model_for(base)
        if m is not None:
            return m.getattr(self, st, base, e.attr, e)
        raise OutOfSubset(f"attribute .{e.attr} on {base.ty}")

    def e_Yield(self, e, st):
        """generator: the yielded values form a ghost output list `__yield__` (typed by the contract's result_type)"""
        v = self.ev(e.value, st)
        ty = self.c.result_type
        if not isinstance(ty, TList):
            raise OutOfSubset("yield in a function whose contract has no list result type")
        cur = st.env.get("__yield__")
        if cur is None:
            cur = ty.empty()
        v = self.coerce(v, ty.elem, st)
        n = ty.len(cur.t)
        st.env["__yield__"] = Val(ty, ty.mk(n + 1, z3.Store(ty.at(cur.t), n, v.t)))
        return NONE

    def e_Lambda(self, e, st):
        return _Closure(e)

    def e_ListComp(self, e, st):
        return self.comprehension(e, st, "list")

    def e_SetComp(self, e, st):
        return self.comprehension(e, st, "set")

    def e_DictComp(self, e, st):
        return self.comprehension(e, st, "dict")

    def e_GeneratorExp(self, e, st):
        return _GenExp(e)

    def comprehension(self, e, st, kind):
        from . import comprehensions
        return comprehensions.evaluate(self, e, st, kind)

    # ------------------------------------------------------------------ calls
    def e_Call(self, e, st):
        from . import calls
        return calls.call(self, e, st)

    def fork_raise(self, st, exc):
        """Record an alternative outcome of the current expression: the call raises `exc`
        in a copy `st` of the state (already updated with the exceptional postcondition)."""
        self._forks.append((st, exc))


# ---------------------------------------------------------------------- helper value kinds
class _PyTuple(Val):
    """A Python tuple built in the function (not yet stored): list of component values."""

    def __init__(self, items):
        self.items = items
        self.ty = THelper("pytuple")
        self.t = None


class _Callback(Val):
    """A callable PARAMETER (e.g. on_solution): an unknown function.  Every call appends its argument to the ghost log
    `<name>.args` and returns an arbitrary Boolean which is appended to the ghost log `<name>.rets`; the contract of the
    function under verification speaks about these logs (which arguments, in which order, stopping after the first False)."""

    def __init__(self, name, arg_ty):
        self.name, self.arg_ty = name, arg_ty
        self.ty = THelper("callback")
        self.t = None

    def call(self, eng, st, args, node):
        if len(args) != 1:
            raise OutOfSubset("callback with several arguments")
        lt, bt = TList(self.arg_ty), TList(TBool)
        a = eng.coerce(args[0], self.arg_ty, st)
        la, lr = st.env[self.name + "__args"].t, st.env[self.name + "__rets"].t     # ghost logs live in the environment (havocked by loops)
        r = z3.Bool(fresh_name(self.name + ".ret"))
        n = lt.len(la)
        st.env[self.name + "__args"] = Val(lt, lt.mk(n + 1, z3.Store(lt.at(la), n, a.t)))
        st.env[self.name + "__rets"] = Val(bt, bt.mk(n + 1, z3.Store(bt.at(lr), n, r)))
        return vbool(r)

    @staticmethod
    def param(arg_ty):
        """parameter declaration for contracts: binds the callback and its two empty ghost logs"""
        from .contract import CustomParam

        def make(eng, st, name):
            lt, bt = TList(arg_ty), TList(TBool)
            st.env[name + "__args"] = lt.empty()
            st.env[name + "__rets"] = bt.empty()
            return _Callback(name, arg_ty)
        p = CustomParam(make)
        p.callback = True
        return p


class _PyRecord(Val):
    """A dict literal whose keys are all string literals (a TypedDict record): key -> value, Python side."""

    def __init__(self, items):
        self.items = dict(items)
        self.ty = THelper("record")
        self.t = None


class _PyList(Val):
    """A literal list of heterogeneous/opaque items used only for `in` tests (e.g. ['min','max'])."""

    def __init__(self, items):
        self.items = items
        self.ty = THelper("pylist")
        self.t = None


class _StrLit(Val):
    def __init__(self, s):
        self.s = s
        self.ty = TStrOpaque
        self.t = None


class _StrChoice(Val):
    def __init__(self, c, a, b):
        self.c, self.a, self.b = c, a, b
        self.ty = TStrOpaque
        self.t = None


class _Slice(Val):
    def __init__(self, lo, hi):
        self.lo, self.hi = lo, hi
        self.ty = THelper("slice")
        self.t = None


class _Closure(Val):
    def __init__(self, node):
        self.node = node
        self.ty = THelper("closure")
        self.t = None


class _GenExp(Val):
    def __init__(self, node):
        self.node = node
        self.ty = THelper("genexp")
        self.t = None


class _ExcVal(Val):
    def __init__(self, exc):
        self.exc = exc
        self.ty = THelper("exception")
        self.t = None


class _Raised:
    def __init__(self, exc):
        self.exc = exc


class _RaiseSignal(Exception):
    def __init__(self, exc):
        self.exc = exc


class _IterSpec(Val):
    """Value that knows how to be iterated (range, enumerate, zip, items(), ...)."""
    ty = THelper("iterable")
    t = None

    def __init__(self):
        pass


_MUTATORS = {"append", "add", "remove", "pop", "update", "extend", "discard", "clear", "sort", "insert",
             "add_node", "add_edge", "remove_node", "remove_edge"}


def _target_names(t):
    return {n.id for n in ast.walk(t) if isinstance(n, ast.Name)}


def _floordiv(a, b):
    # Python floor division; SMT-LIB `div` is floor division for a positive divisor
    return z3.If(b > 0, a / b, (-a) / (-b))


def _pymod(a, b):
    return a - b * _floordiv(a, b)


def _lex_decreases(v0, v1):
    """v0, v1: lists of Int terms; lexicographic strict decrease with all components bounded below by 0."""
    if not isinstance(v0, (list, tuple)):
        v0, v1 = [v0], [v1]
    disj = []
    for i in range(len(v0)):
        eqs = [v1[j] == v0[j] for j in range(i)]
        disj.append(z3.And(eqs + [v1[i] < v0[i], v0[i] >= 0]))
    return z3.Or(disj)


# ---------------------------------------------------------------------- iterators
class _SpaceKeysIter(_IterSpec):
    """for k in space  (keys; arbitrary order, each key once)."""

    def __init__(self, coll, items=False):
        self.coll, self.items = coll, items

    def start(self):
        return {"visited": z3.K(Name, z3.BoolVal(False))}

    def arbitrary(self, st):
        vis = z3.Const(fresh_name("visited"), z3.ArraySort(Name, B))
        k = z3.Const(fresh_name("kq"), Name)
        st.assume(z3.ForAll([k], z3.Implies(vis[k], indom(self.coll.t, k))))
        return {"visited": vis}

    def pick(self, st, gh):
        k = z3.Const(fresh_name("key"), Name)
        st.assume(indom(self.coll.t, k))
        st.assume(z3.Not(gh["visited"][k]))
        gh["cur"] = k
        if self.items:
            return _PyTuple([Val(TName, k), vint(self.coll.t[k])])
        return Val(TName, k)

    def advance(self, gh):
        return {"visited": z3.Store(gh["visited"], gh["cur"], True)}

    def finished(self, st, gh):
        k = z3.Const(fresh_name("kq"), Name)
        st.assume(z3.ForAll([k], gh["visited"][k] == indom(self.coll.t, k)))


class _SetIter(_IterSpec):
    def __init__(self, coll):
        self.coll = coll
        self.es = coll.ty.elem.sort()

    def start(self):
        return {"visited": z3.K(self.es, z3.BoolVal(False))}

    def arbitrary(self, st):
        vis = z3.Const(fresh_name("visited"), z3.ArraySort(self.es, B))
        k = z3.Const(fresh_name("kq"), self.es)
        st.assume(z3.ForAll([k], z3.Implies(vis[k], self.coll.t[k])))
        return {"visited": vis}

    def pick(self, st, gh):
        k = z3.Const(fresh_name("elem"), self.es)
        st.assume(self.coll.t[k])
        st.assume(z3.Not(gh["visited"][k]))
        gh["cur"] = k
        return Val(self.coll.ty.elem, k)

    def advance(self, gh):
        return {"visited": z3.Store(gh["visited"], gh["cur"], True)}

    def finished(self, st, gh):
        k = z3.Const(fresh_name("kq"), self.es)
        st.assume(z3.ForAll([k], gh["visited"][k] == self.coll.t[k]))


class _DictKeysIter(_IterSpec):
    def __init__(self, coll, items=False):
        self.coll, self.items = coll, items
        self.ks = coll.ty.key.sort()
        self.dom = coll.ty.dom(coll.t)

    def start(self):
        return {"visited": z3.K(self.ks, z3.BoolVal(False))}

    def arbitrary(self, st):
        vis = z3.Const(fresh_name("visited"), z3.ArraySort(self.ks, B))
        k = z3.Const(fresh_name("kq"), self.ks)
        st.assume(z3.ForAll([k], z3.Implies(vis[k], self.dom[k])))
        return {"visited": vis}

    def pick(self, st, gh):
        k = z3.Const(fresh_name("key"), self.ks)
        st.assume(self.dom[k])
        st.assume(z3.Not(gh["visited"][k]))
        gh["cur"] = k
        kv = Val(self.coll.ty.key, k)
        if self.items:
            return _PyTuple([kv, Val(self.coll.ty.val, self.coll.ty.vals(self.coll.t)[k])])
        return kv

    def advance(self, gh):
        return {"visited": z3.Store(gh["visited"], gh["cur"], True)}

    def finished(self, st, gh):
        k = z3.Const(fresh_name("kq"), self.ks)
        st.assume(z3.ForAll([k], gh["visited"][k] == self.dom[k]))


class _ListIter(_IterSpec):
    def __init__(self, coll, enumerate_from=None):
        self.coll = coll
        self.enum = enumerate_from

    def start(self):
        return {"i": z3.IntVal(0)}

    def arbitrary(self, st):
        i = z3.Int(fresh_name("idx"))
        st.assume(z3.And(0 <= i, i <= self.coll.ty.len(self.coll.t)))
        return {"i": i}

    def pick(self, st, gh):
        ty = self.coll.ty
        st.assume(gh["i"] < ty.len(self.coll.t))
        e = Val(ty.elem, ty.at(self.coll.t)[gh["i"]])
        if self.enum is not None:
            return _PyTuple([vint(gh["i"] + self.enum), e])
        return e

    def advance(self, gh):
        return {"i": gh["i"] + 1}

    def finished(self, st, gh):
        st.assume(gh["i"] == self.coll.ty.len(self.coll.t))


class _RangeIter(_IterSpec):
    def __init__(self, lo, hi):
        self.lo, self.hi = lo, hi

    def start(self):
        return {"i": self.lo}

    def arbitrary(self, st):
        i = z3.Int(fresh_name("idx"))
        st.assume(z3.And(self.lo <= i, z3.Or(i <= self.hi, i == self.lo)))
        return {"i": i}

    def pick(self, st, gh):
        st.assume(gh["i"] < self.hi)
        return vint(gh["i"])

    def advance(self, gh):
        return {"i": gh["i"] + 1}

    def finished(self, st, gh):
        st.assume(gh["i"] >= self.hi)


class _EmptyIter(_IterSpec):
    def start(self):
        return {}

    def arbitrary(self, st):
        return {}

    def pick(self, st, gh):
        st.assume(z3.BoolVal(False))
        return NONE

    def advance(self, gh):
        return {}

    def finished(self, st, gh):
        pass
