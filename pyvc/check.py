"""./check <property> [--tier quick|thorough] [--replay <file>] [--record]

Decides one property on /repo's current working tree:
  1. generates the verification conditions of every function under contract that carries the
     property (real source, re-read now) and discharges them with SMT          -> proof part
  2. runs the vacuity / soundness guards (DESIGN.md 1.9)
  3. runs the bounded stand-in of the property (executable contracts vs brute-force oracle on the
     real code; labelled bounded, never counted as proved)                     -> bounded part
  4. writes evidence/<id>.json and prints VIOLATION / KNOWN-FINDING / UNDECIDED lines.
Exit: 0 held, 1 violation, 2 undecided, 3 checker crash.
"""
from __future__ import annotations
import argparse, json, os, sys, time, subprocess, hashlib, tempfile, shutil, traceback

VERIF = os.path.dirname(os.path.dirname(os.path.abspath(__file__)))
sys.path.insert(0, VERIF)
from pyvc import run as R, extract           # noqa: E402

EXPECTED = os.path.join(VERIF, "contracts", "expected_obligations.json")
KNOWN = os.path.join(VERIF, "known_findings.json")


def canary():
    """The checker must be able to refute: a deliberately false postcondition on the real
    is_subspace and `assert False` semantics. Returns list of problems (empty = healthy)."""
    import z3
    from pyvc.engine import Engine
    from pyvc.contract import Contract
    from pyvc import solve
    from pyvc.vtypes import TSpace, TBool
    reg = R.build_registry()
    real = reg.contracts["biobalm.space_utils.is_subspace"]
    bad = Contract("biobalm.space_utils.is_subspace", params=real.params, result_type=TBool,
                   ensures=[("canary_false_post", lambda c: c.result == z3.BoolVal(True))], loops=real.loops)
    for lc in bad.loops.values():
        pass
    problems = []
    try:
        eng = Engine(extract.extract("biobalm.space_utils.is_subspace"), bad, reg)
        obls = [o for o in eng.run() if "canary_false_post" in o.name]
        sts = [solve.check(o, timeout_ms=5000)["status"] for o in obls]
        if "refuted" not in sts:
            problems.append(f"canary: false postcondition was not refuted ({sts})")
    finally:
        for lc in real.loops.values():
            lc.contract = real
    # axioms alone must not be contradictory
    s = z3.Solver()
    s.set("timeout", 5000)
    for a in reg.axioms_for(real):
        s.add(a)
    if s.check() == z3.unsat:
        problems.append("axiom set is inconsistent")
    return problems


def load_known():
    try:
        return json.load(open(KNOWN))["findings"]
    except Exception:
        return []


def main():
    ap = argparse.ArgumentParser()
    ap.add_argument("prop")
    ap.add_argument("--tier", default=os.environ.get("VERIF_TIER", "quick"))
    ap.add_argument("--replay")
    ap.add_argument("--record", action="store_true", help="record obligation counts of the current tree as expected")
    ap.add_argument("--no-bounded", action="store_true")
    ap.add_argument("--jobs", type=int, default=int(os.environ.get("VERIF_JOBS", "16")))
    a = ap.parse_args()
    seed = int(os.environ.get("VERIF_SEED", "1"))
    pid = a.prop
    t0 = time.time()
    if a.replay:
        return replay(pid, a.replay)
    try:
        rc = decide(pid, a.tier, seed, a.jobs, a.record, a.no_bounded, t0)
    except SystemExit:
        raise
    except Exception:
        traceback.print_exc()
        print(f"CHECKER-CRASH property={pid}")
        sys.exit(3)
    sys.exit(rc)


def decide(pid, tier, seed, jobs, record, no_bounded, t0):
    from contracts import properties as P
    meta = P.PROPERTIES.get(pid)
    if meta is None:
        print(f"property {pid} is not claimed (see MANIFEST.json not_applicable)")
        return 3
    reg = R.build_registry()
    fns = sorted(q for q, c in reg.contracts.items() if pid in c.properties and not c.trusted)
    from contracts import sd_inv
    if any("succession_diagram" in f or "_sd_algorithms" in f or "petri_net_translation" in f for f in fns):
        fns += ["schema:" + n for n in sd_inv.schema_lemmas()]     # lemmas proved by SMT on every run
    timeout_ms = 10000 if tier == "quick" else 60000
    results = R.run(fns, jobs=jobs, timeout_ms=timeout_ms) if fns else []
    crash = [r for r in results if r["status"] == "crash"]
    obls = [(r["function"], o) for r in results for o in r["obligations"]]
    proof_obls = [(f, o) for f, o in obls if o["kind"] != "cover"]
    covers = [(f, o) for f, o in obls if o["kind"] == "cover"]
    discharged = [(f, o) for f, o in proof_obls if o["status"] == "discharged"]
    # obligations of kind "model" are applicability conditions of OUR models (an Optional used where the model needs a value, a
    # duplicate-free argument of sorted(), debug printing off): when one is not provable the function is outside what the model
    # covers -- undecided, never a violation of the property
    refuted = [(f, o) for f, o in proof_obls if o["status"] in ("refuted", "failed") and o["kind"] != "model"]
    unknown = [(f, o) for f, o in proof_obls if o["status"] == "unknown" or (o["status"] in ("refuted", "failed") and o["kind"] == "model")]
    vacuous = [(f, o) for f, o in covers if o["status"] == "vacuous"]
    undecided_fns = [r for r in results if r["status"] in ("out_of_subset", "missing")]

    # ---- guards
    guard_problems = canary()
    counts = {r["function"]: len([o for o in r["obligations"] if o["kind"] != "cover"]) for r in results}
    expected = {}
    if os.path.exists(EXPECTED):
        expected = json.load(open(EXPECTED))
    if record:
        expected.setdefault(pid, {})
        expected[pid] = {f: n for f, n in counts.items()}
        json.dump(expected, open(EXPECTED, "w"), indent=1, sort_keys=True)
    exp = expected.get(pid, {})
    for f in fns:
        r = next(x for x in results if x["function"] == f)
        if r["status"] == "ok" and counts.get(f, 0) == 0:
            guard_problems.append(f"{f}: zero obligations generated")
    bounded_only = not fns

    # ---- static frame obligation: no function of the property's modules writes module-level state (pyvc/framecheck.py)
    from pyvc import framecheck
    anchor_files = []
    try:
        for l in open(os.path.join(VERIF, "properties.jsonl")):
            pj = json.loads(l)
            if pj["id"] == pid:
                anchor_files = [f for f in pj.get("anchors", {}).get("files", []) if f.endswith(".py")]
    except Exception:
        pass
    # state kept between calls anywhere in the package can reach any operation: every module of the package is scanned
    import glob as _glob
    all_files = [os.path.relpath(f, extract.REPO) for f in _glob.glob(os.path.join(extract.REPO, "biobalm", "**", "*.py"), recursive=True)]
    frame = framecheck.check_files(extract.REPO, anchor_files + all_files)

    # ---- Lean lemma library (thorough tier): rebuilt offline and audited; a failure is a problem of the machinery, not a violation
    lean = run_lean() if tier == "thorough" else {"ran": False, "note": "the Lean library is rebuilt and audited by the thorough tier (lean/check.sh)"}
    if lean.get("ran") and not lean.get("passed"):
        guard_problems.append("Lean lemma library did not build / audit cleanly: " + lean.get("tail", "")[-300:])

    # ---- bounded stand-in
    bounded = None
    if not no_bounded and os.path.exists(os.path.join(VERIF, "bounded", "props", f"{pid}.py")):
        bounded = run_bounded(pid, tier, seed, jobs)

    # ---- verdict
    known = [k for k in load_known() if k["state"] == "known" and k["property"] == pid]
    lines, violations, known_hits = [], 0, []
    os.makedirs(os.path.join(VERIF, "replays", pid), exist_ok=True)
    failing_inputs = [f for f in (bounded or {}).get("failures", [])]
    unmatched_inputs = []
    for f in failing_inputs:
        hit = next((k for k in known if k.get("match", {}).get("kind") == f.get("kind")), None)
        if hit is not None:
            known_hits.append((hit, f))
        else:
            unmatched_inputs.append(f)
    for fn, o in refuted:
        path = os.path.join(VERIF, "replays", pid, hashlib.sha1(o["name"].encode()).hexdigest()[:12] + ".json")
        rep = {"property": pid, "obligation": o["name"], "function": fn, "line": o["line"], "kind": o["kind"],
               "solver": o["solver"], "status": o["status"], "solver_reason": o.get("reason"),
               "verdict": ("sat: counter-model found for path condition and negated goal" if o["status"] == "refuted" else
                           "obligation not provable: the solver saturated quantifier instantiation without a proof (reason: %s); candidate counter-model attached" % o.get("reason")),
               "counter_model": o.get("model"), "smt2": o.get("smt2"),
               "failing_input": unmatched_inputs[0] if unmatched_inputs else None,
               "note": "counter-model is over the specification vocabulary (uninterpreted network semantics); "
                       "a concrete failing input, when found by the bounded search on the real code, is under failing_input"}
        json.dump(rep, open(path, "w"), indent=1)
        suffix = "" if unmatched_inputs else " no-failing-input-found"
        lines.append(f"VIOLATION property={pid} replay={path}{suffix}")
        violations += 1
    if not refuted:
        for f in unmatched_inputs[:5]:
            lines.append(f"VIOLATION property={pid} replay={os.path.join(VERIF, f['replay']) if not os.path.isabs(f['replay']) else f['replay']}")
            violations += 1
    seen_known = set()
    for hit, f in known_hits:
        if hit["id"] in seen_known:
            continue
        seen_known.add(hit["id"])
        lines.append(f"KNOWN-FINDING: property={pid} {hit['id']} {hit['what']}")
    undecided = len(unknown) + len(undecided_fns)
    for fn, o in unknown:
        lines.append(f"UNDECIDED property={pid} obligation={o['name']} reason={o.get('reason', 'unknown')}")
    for r in undecided_fns:
        lines.append(f"UNDECIDED property={pid} function={r['function']} reason={r['status']}: {r.get('reason', '')[:200]}")
    for w in frame["writes"]:
        undecided += 1
        lines.append(f"UNDECIDED property={pid} frame.no_module_state {w['file']}:{w['line']} {w['function']} {w['how']} `{w['name']}`: "
                     "the contracts read functions as relations on their arguments; state kept between calls is not accounted for")
    # a vacuous cover is an error for preconditions and exits; a loop body may legitimately be unreachable on SOME of the
    # paths that reach the loop (e.g. an empty list on that path) but not on all of them
    by_name = {}
    for fn, o in covers:
        by_name.setdefault(o["name"], []).append(o["status"])
    for nm, sts in by_name.items():
        if ("cover.requires" in nm and "vacuous" in sts) or ("cover.loop" in nm and all(x == "vacuous" for x in sts)):
            guard_problems.append(f"vacuous path condition: {nm}")
    for r in crash:
        guard_problems.append(f"engine crash in {r['function']}: {r.get('reason', '')[-400:]}")
    if bounded is not None and bounded.get("harness_error"):
        guard_problems.append("bounded harness error: " + str(bounded.get("harness_error"))[:400])

    # ---- evidence
    ev = evidence(pid, tier, seed, meta, reg, fns, results, proof_obls, discharged, refuted, unknown, covers,
                  undecided_fns, bounded, violations, guard_problems, known_hits, time.time() - t0)
    ev["coverage"]["lean_library"] = lean
    ev["coverage"]["frame_no_module_state"] = {"files_scanned": frame["files"], "writes_found": frame["writes"],
                                               "meaning": "syntactic frame obligation: no function of these modules rebinds a global or mutates a module-level object (aliases not tracked)"}
    evdir = os.environ.get("VERIF_EVIDENCE_DIR", os.path.join(VERIF, "evidence"))   # (redirected only by tools/seeded_matrix.py)
    os.makedirs(evdir, exist_ok=True)
    json.dump(ev, open(os.path.join(evdir, f"{pid}.json"), "w"), indent=1)

    for l in lines:
        print(l)
    print(f"{pid}: functions={len(fns)} obligations={len(proof_obls)} discharged={len(discharged)} refuted={len(refuted)} "
          f"undecided={undecided} bounded_evals={(bounded or {}).get('evaluations', 0)} bounded_failures={len(failing_inputs)} "
          f"wall={time.time() - t0:.1f}s")
    if guard_problems:
        for g in guard_problems:
            print("GUARD:", g)
    if violations:
        return 1
    if guard_problems:
        return 3
    if undecided:
        return 2
    return 0


def run_lean():
    """lean/check.sh under a lock (thorough checks of several properties may run at the same time): source scan for sorry/axiom,
    offline lake build, #print axioms audit, leanchecker replay.  Returns what it printed about each headline theorem."""
    import fcntl
    sh = os.path.join(VERIF, "lean", "check.sh")
    if not os.path.exists(sh):
        return {"ran": False, "note": "lean/check.sh missing"}
    os.makedirs(os.path.join(VERIF, "lean", ".lake"), exist_ok=True)
    t = time.time()
    with open(os.path.join(VERIF, "lean", ".lake", "check.lock"), "w") as lock:
        fcntl.flock(lock, fcntl.LOCK_EX)
        stamp = os.path.join(VERIF, "lean", ".lake", "check.ok")
        srcs = [os.path.join(dp, f) for dp, _, fs in os.walk(os.path.join(VERIF, "lean")) if ".lake" not in dp for f in fs if f.endswith((".lean", ".toml", ".sh"))]
        newest = max(os.path.getmtime(f) for f in srcs)
        if os.path.exists(stamp) and os.path.getmtime(stamp) > newest and time.time() - os.path.getmtime(stamp) < 6 * 3600:
            out = open(stamp).read()       # audited by another thorough check of this session: same sources, same result
            rc = 0
        else:
            try:
                p = subprocess.run([sh], cwd=os.path.join(VERIF, "lean"), capture_output=True, text=True, timeout=1800)
                out, rc = p.stdout + p.stderr, p.returncode
            except subprocess.TimeoutExpired:
                out, rc = "lean/check.sh timed out after 1800 s", 2
            if rc == 0:
                open(stamp, "w").write(out)
    lemmas = [l.strip() for l in out.splitlines() if l.startswith("LEMMA ")]
    return {"ran": True, "passed": rc == 0 and "ALL CHECKS PASSED" in out, "headline_theorems": len(lemmas), "lemmas": lemmas,
            "seconds": round(time.time() - t, 1), "tail": out[-600:] if rc != 0 else ""}


def run_bounded(pid, tier, seed, jobs):
    budget = {"quick": 40, "thorough": 600}.get(tier, 40)
    out = tempfile.NamedTemporaryFile(suffix=".json", delete=False).name
    cmd = ["/venv/bin/python", os.path.join(VERIF, "bounded", "run.py"), pid, "--seed", str(seed), "--budget", str(budget),
           "--jobs", str(jobs), "--tier", tier, "--out", out]
    env = dict(os.environ)
    env["PYTHONPATH"] = extract.REPO
    env["PYVC_REPO"] = extract.REPO
    try:
        p = subprocess.run(cmd, cwd=VERIF, env=env, capture_output=True, text=True, timeout=budget * 4 + 300)
        if p.returncode == 3 or not os.path.getsize(out):
            return {"harness_error": (p.stdout + p.stderr)[-1500:], "failures": [], "evaluations": 0}
        res = json.load(open(out))
        res["returncode"] = p.returncode
        return res
    except subprocess.TimeoutExpired:
        return {"harness_error": "bounded run timed out", "failures": [], "evaluations": 0}
    finally:
        if os.path.exists(out):
            os.unlink(out)


def evidence(pid, tier, seed, meta, reg, fns, results, proof_obls, discharged, refuted, unknown, covers,
             undecided_fns, bounded, violations, guard_problems, known_hits, wall):
    from pyvc import theory as T, externals_aeon
    trusted = set()
    lemmas = {}
    for r in results:
        for l in r.get("lemmas_used", []):
            lemmas[l] = _lemma_text(l)
    for q, c in reg.contracts.items():
        if c.trusted and pid in c.properties:
            trusted.add(f"assumed contract (not verified against a body): {q} — {c.note}")
    for k, v in reg.trusted_externals().items():
        trusted.add(f"dependency: {k}: {v}")
    for l, txt in lemmas.items():
        trusted.add(f"lemma instance {l}: {txt}")
    for t in meta.get("trusted", []):
        trusted.add(t)
    trusted.add("pyvc front end (our AST->SMT encoding; Python semantics assumed as listed in pyvc/vtypes.py) and z3 5.1.0")
    backends = {}
    for f, o in proof_obls:
        b = backends.setdefault(o["solver"], {"obligations": 0, "seconds": 0.0})
        b["obligations"] += 1
        b["seconds"] = round(b["seconds"] + o["seconds"], 3)
    samples = [{"obligation": o["name"], "function": f, "status": o["status"], "line": o["line"], "seconds": o["seconds"]}
               for f, o in proof_obls[:8]]
    cov = {
        "obligations": len(proof_obls),
        "discharged": len(discharged),
        "checker_cmd": f"./check {pid} --tier {tier}",
        "trusted_base": sorted(trusted),
        "refuted": len(refuted),
        "undecided": len(unknown) + len(undecided_fns),
        "undecided_detail": [o["name"] for f, o in unknown] + [f"{r['function']}: {r['status']} {r.get('reason', '')[:160]}" for r in undecided_fns],
        "cover_obligations": {"total": len(covers), "witnessed": sum(1 for f, o in covers if o["status"] == "covered"),
                              "not_refuted": sum(1 for f, o in covers if o["status"] == "cover-not-refuted"),
                              "vacuous": sum(1 for f, o in covers if o["status"] == "vacuous")},
        "functions_under_contract": [r.get("source", {"function": r["function"]}) | {"obligations": len([o for o in r["obligations"] if o["kind"] != "cover"]),
                                                                                   "discharged": len([o for o in r["obligations"] if o["status"] == "discharged"]),
                                                                                   "seconds": r["seconds"], "status": r["status"]} for r in results],
        "backends": backends,
        "lemmas": lemmas,
        "excluded_clauses": meta.get("excluded", []),
        "samples": samples,
        "guards": {"canary_refuted_and_axioms_consistent": not [g for g in guard_problems if "canary" in g or "axiom" in g],
                   "problems": guard_problems},
        "known_findings_reproduced": [h["id"] for h, f in known_hits],
        "explanation": meta.get("decided_by", ""),
        "decided_only_by_the_bounded_stand_in": meta.get("bounded", ""),
    }
    if bounded is not None:
        cov["bounded"] = {"label": "BOUNDED stand-in, not counted as proved", "bound": bounded.get("bound"),
                          "evaluations": bounded.get("evaluations", 0), "distinct_nontrivial": bounded.get("distinct_nontrivial", 0),
                          "rule": bounded.get("rule"), "failures": len(bounded.get("failures", [])),
                          "skipped_timeouts": bounded.get("skipped_timeouts", 0), "wall_s": bounded.get("wall_s"),
                          "samples": bounded.get("samples", [])[:3]}
        cov["evaluations"] = bounded.get("evaluations", 0)
        cov["distinct_nontrivial"] = bounded.get("distinct_nontrivial", 0)
        cov["rule"] = "bounded part only: " + str(bounded.get("rule"))
    level = "proof" if fns else "exploration"
    if not fns:
        cov["samples"] = (bounded or {}).get("samples", [])[:5] or [{"note": "no case evaluated"}]
        cov["explanation"] = "NO function carrying this property is under contract yet: this run is the BOUNDED stand-in only (not a proof). " + cov["explanation"]
    return {"property_id": pid, "tier": tier, "seed": seed, "level": level, "coverage": cov,
            "assumptions": sorted(trusted), "wall_s": round(wall, 2), "violations": violations}


def _lemma_text(name):
    from pyvc import theory as T
    import re
    return T.LEMMAS.get(name) or T.LEMMAS.get(re.sub(r"\(.*\)$", "", name)) or "instance stated in the contract file (DESIGN.md section 3)"


def replay(pid, path):
    rep = json.load(open(path))
    if "obligation" in rep:
        print(f"replay of refuted obligation {rep['obligation']} (function {rep['function']}, line {rep['line']})")
        print("solver verdict at the time:", rep["verdict"])
        res = R.verify_function(rep["function"], timeout_ms=20000)
        cur = [o for o in res["obligations"] if o["name"] == rep["obligation"]]
        print("re-generated from the current tree:", [(o["status"]) for o in cur] or res["status"])
        fi = rep.get("failing_input")
        if fi:
            print("failing input found by the bounded search on the real code:", json.dumps(fi)[:600])
            return replay_bounded(pid, fi.get("replay"))
        print("no-failing-input-found: the replay file carries the solver's counter-model")
        sys.exit(1 if any(o["status"] == "refuted" for o in cur) else 0)
    return replay_bounded(pid, path)


def replay_bounded(pid, path):
    env = dict(os.environ)
    env["PYTHONPATH"] = extract.REPO
    p = subprocess.run(["/venv/bin/python", os.path.join(VERIF, "bounded", "run.py"), pid, "--replay", path], cwd=VERIF, env=env)
    sys.exit(p.returncode)


if __name__ == "__main__":
    main()
