"""Mechanical extraction of the functions under contract from /repo's *current* working tree.

Run on every check.  Nothing under /verif holds a copy of repository code: the verified text is
re-read from REPO (default /repo) each time, normalised, hashed, and handed to the symbolic executor.

What the normalisation DROPS (DESIGN.md 1.3) -- each item is sound to drop for the stated reason:
  * docstrings and bare string expressions                       (no effect)
  * parameter / return annotations (variable annotations are kept as type hints for the engine)
  * `cast(T, e)`                     -> `e`                      (identity at run time)
  * `if <...>config["debug"]<...>:` and `if DEBUG:` statements   (contracts require debug == False;
     an `elif`/`else` attached to such a test is kept as the taken branch)
  * `<e> and sd.config["debug"]`-style conjunctions inside tests are replaced by False
"""
from __future__ import annotations
import ast, hashlib, os, copy

REPO = os.environ.get("PYVC_REPO", "/repo")


def _is_debug_test(e: ast.expr) -> bool:
    """True if the test is (a conjunction containing) config["debug"] or the module flag DEBUG."""
    if isinstance(e, ast.Name) and e.id == "DEBUG":
        return True
    if isinstance(e, ast.Subscript):
        v = e.value
        if isinstance(e.slice, ast.Constant) and e.slice.value == "debug":
            if isinstance(v, ast.Attribute) and v.attr == "config":
                return True
    if isinstance(e, ast.BoolOp) and isinstance(e.op, ast.And):
        return any(_is_debug_test(v) for v in e.values)
    return False


class _Normalise(ast.NodeTransformer):
    def _strip_doc(self, node):
        self.generic_visit(node)
        body = [s for s in node.body
                if not (isinstance(s, ast.Expr) and isinstance(s.value, ast.Constant) and isinstance(s.value.value, str))]
        node.body = body or [ast.Pass()]
        return node

    def visit_FunctionDef(self, node):
        node = self._strip_doc(node)
        node.returns = None
        for a in node.args.args + node.args.kwonlyargs + node.args.posonlyargs:
            a.annotation = None
        return node

    visit_ClassDef = _strip_doc
    visit_Module = _strip_doc

    def visit_Expr(self, node):
        if isinstance(node.value, ast.Constant) and isinstance(node.value.value, str):
            return None
        return self.generic_visit(node)

    def visit_AnnAssign(self, node):
        # the annotation is kept: the engine uses it as a type hint for empty literals
        self.generic_visit(node)
        if node.value is None:
            return None
        return node

    def visit_Call(self, node):
        self.generic_visit(node)
        if isinstance(node.func, ast.Name) and node.func.id == "cast" and len(node.args) == 2:
            return node.args[1]
        return node

    def visit_If(self, node):
        if _is_debug_test(node.test):
            # debug == False: the orelse is what executes
            out = []
            for s in node.orelse:
                r = self.visit(s)
                if r is None:
                    continue
                out.extend(r if isinstance(r, list) else [r])
            return out or None
        self.generic_visit(node)
        if not node.body:
            node.body = [ast.Pass()]
        return node


def _fix_empty_bodies(tree):
    for n in ast.walk(tree):
        for fld in ("body", "orelse", "finalbody"):
            b = getattr(n, fld, None)
            if isinstance(b, list) and fld == "body" and not b and isinstance(
                    n, (ast.If, ast.For, ast.While, ast.With, ast.FunctionDef, ast.Try, ast.ExceptHandler)):
                n.body = [ast.Pass()]
    return tree


class Extracted:
    def __init__(self, qualname, path, node, raw_src, lineno, end_lineno):
        self.qualname = qualname
        self.path = path
        self.node = node            # normalised ast.FunctionDef
        self.lineno = lineno
        self.end_lineno = end_lineno
        self.raw_sha256 = hashlib.sha256(raw_src.encode()).hexdigest()
        self.norm_sha256 = hashlib.sha256(ast.dump(node, include_attributes=False).encode()).hexdigest()

    def describe(self):
        return {"function": self.qualname, "file": os.path.relpath(self.path, REPO),
                "lines": [self.lineno, self.end_lineno], "sha256_source": self.raw_sha256,
                "sha256_normalised_ast": self.norm_sha256}


_cache: dict[str, tuple[str, ast.Module]] = {}


def _module(path):
    if path not in _cache:
        src = open(path).read()
        _cache[path] = (src, ast.parse(src))
    return _cache[path]


def module_path(modname: str) -> str:
    return os.path.join(REPO, *modname.split(".")) + ".py"


def extract(qualname: str) -> Extracted:
    """qualname: 'biobalm.space_utils.intersect', 'biobalm.succession_diagram.SuccessionDiagram._ensure_node',
    nested defs: 'biobalm.trappist_core.trappist.save_result'."""
    qualname = qualname.split("#")[0]      # `name#variant`: a second contract of the same function (another parameter typing)
    parts = qualname.split(".")
    # longest prefix that is a module file
    for i in range(len(parts), 0, -1):
        p = module_path(".".join(parts[:i]))
        if os.path.isfile(p):
            path, rest = p, parts[i:]
            break
    else:
        raise KeyError(f"no module for {qualname}")
    src, tree = _module(path)
    node: ast.AST = tree
    for name in rest:
        found = None
        for child in ast.walk(node) if isinstance(node, ast.FunctionDef) else ast.iter_child_nodes(node):
            if isinstance(child, (ast.FunctionDef, ast.ClassDef)) and child.name == name and child is not node:
                found = child
                break
        if found is None:
            raise KeyError(f"{qualname}: `{name}` not found in {path}")
        node = found
    if not isinstance(node, ast.FunctionDef):
        raise KeyError(f"{qualname} is not a function")
    raw = ast.get_source_segment(src, node) or ""
    norm = _Normalise().visit(copy.deepcopy(node))
    norm = _fix_empty_bodies(norm)
    ast.fix_missing_locations(norm)
    return Extracted(qualname, path, norm, raw, node.lineno, node.end_lineno)


def loops_of(fn: ast.FunctionDef):
    """Loops of a function in source order (pre-order), excluding nested function definitions.
    Returns list of (ordinal, node, fingerprint)."""
    out = []

    def walk(stmts):
        for s in stmts:
            if isinstance(s, (ast.FunctionDef, ast.ClassDef)):
                continue
            if isinstance(s, (ast.For, ast.While)):
                out.append(s)
            for fld in ("body", "orelse", "finalbody"):
                b = getattr(s, fld, None)
                if isinstance(b, list):
                    walk(b)
            if isinstance(s, ast.Try):
                for h in s.handlers:
                    walk(h.body)
            if isinstance(s, ast.With):
                pass
    walk(fn.body)
    return [(i, n, fingerprint(n)) for i, n in enumerate(out)]


class _NormTest(ast.NodeTransformer):
    """equivalent spellings of the same loop header get the same fingerprint: `len(x) > 0` / `len(x) != 0` / `len(x) >= 1` = `x`,
    `len(x) == 0` = `not x` (x a container), `d.keys()` as an iterable = `d`"""

    def visit_Compare(self, n):
        self.generic_visit(n)
        if len(n.ops) == 1 and isinstance(n.left, ast.Call) and isinstance(n.left.func, ast.Name) and n.left.func.id == "len" \
                and len(n.left.args) == 1 and isinstance(n.comparators[0], ast.Constant):
            k, op, x = n.comparators[0].value, n.ops[0], n.left.args[0]
            if (isinstance(op, ast.Gt) and k == 0) or (isinstance(op, ast.NotEq) and k == 0) or (isinstance(op, ast.GtE) and k == 1):
                return x
            if (isinstance(op, ast.Eq) and k == 0) or (isinstance(op, ast.Lt) and k == 1):
                return ast.UnaryOp(op=ast.Not(), operand=x)
        return n


def _norm_iter(it):
    if isinstance(it, ast.Call) and isinstance(it.func, ast.Attribute) and it.func.attr == "keys" and not it.args and not it.keywords:
        return it.func.value
    return it


def fingerprint(loop) -> str:
    import copy
    if isinstance(loop, ast.For):
        t = loop.target
        tt = ", ".join(ast.unparse(x) for x in t.elts) if isinstance(t, ast.Tuple) else ast.unparse(t)
        return f"for {tt} in {ast.unparse(_norm_iter(loop.iter))}"
    test = ast.fix_missing_locations(_NormTest().visit(copy.deepcopy(loop.test)))
    return f"while {ast.unparse(test)}"


def normalise_fingerprint(text: str) -> str:
    """the normal form of a hand-written loop header (contracts quote the header of the loop they annotate)"""
    try:
        node = ast.parse(text + ":\n    pass").body[0]
    except SyntaxError:
        return text
    return fingerprint(node) if isinstance(node, (ast.For, ast.While)) else text


if __name__ == "__main__":
    import sys
    e = extract(sys.argv[1])
    print(e.describe())
    print(ast.unparse(e.node))
    for i, n, fp in loops_of(e.node):
        print(i, fp)
