"""Developer helper: dump the SMT-LIB text of obligations of one function.
   python3-vt -m pyvc.debug <qualname> <substring of obligation name> [outdir]"""
import sys, os
from . import run as R, extract, solve
from .engine import Engine
import z3

def main():
    q, pat = sys.argv[1], sys.argv[2]
    outdir = sys.argv[3] if len(sys.argv) > 3 else "/tmp/pyvc_debug"
    os.makedirs(outdir, exist_ok=True)
    reg = R.build_registry()
    c = reg.contracts[q]
    eng = Engine(extract.extract(q), c, reg)
    obls = eng.run()
    n = 0
    for i, o in enumerate(obls):
        if pat in o.name:
            s = z3.Solver()
            for a in reg.axioms_for(c): s.add(a)
            for p in o.pc: s.add(p)
            s.add(z3.Not(o.goal))
            path = os.path.join(outdir, f"{i}_{o.name.replace('/', '_')[:80]}.smt2")
            open(path, "w").write(s.to_smt2())
            print(path, len(o.pc), "assumptions")
            n += 1
    print(n, "dumped of", len(obls))
main()
