"""Real strings (SMT String theory) for the few functions whose property is about the text itself
(variable_to_place / place_to_variable round trip). Everywhere else names are the uninterpreted sort Name."""
from __future__ import annotations
import ast
import z3
from .vtypes import *
from . import engine as E
from .registry import ObjModel


class _TStr(Ty):
    name = "str"

    def sort(self):
        return z3.StringSort()


TStr = _TStr()


def lit(v):
    if isinstance(v, E._StrLit):
        return Val(TStr, z3.StringVal(v.s))
    return v


class StrModel(ObjModel):
    def method(self, eng, st, v, meth, args, kw, node, recv_expr=None):
        if meth == "startswith":
            p = lit(args[0])
            return vbool(z3.PrefixOf(p.t, v.t))
        raise OutOfSubset(f"str.{meth}")

    def getitem(self, eng, st, v, idx, node):
        if isinstance(idx, E._Slice) and idx.hi is None and idx.lo is not None:
            lo = idx.lo.t
            return Val(TStr, z3.SubString(v.t, lo, z3.Length(v.t) - lo))
        raise OutOfSubset("string subscript")


def install(reg):
    reg.add_model(lambda v: v.ty == TStr, StrModel())

    def fstring(eng, st, node):
        parts = []
        for p in node.values:
            if isinstance(p, ast.Constant) and isinstance(p.value, str):
                parts.append(z3.StringVal(p.value))
            elif isinstance(p, ast.FormattedValue) and p.format_spec is None and p.conversion == -1:
                try:
                    v = eng.ev(p.value, st)
                except OutOfSubset:
                    return None
                if v.ty != TStr:
                    return None
                parts.append(v.t)
            else:
                return None
        if not any(True for p in node.values if isinstance(p, ast.FormattedValue)):
            return None
        return Val(TStr, z3.Concat(*parts) if len(parts) > 1 else parts[0])
    reg.add_hook("fstring", fstring)

    def equals(eng, st, a, b):
        if a.ty == TStr or b.ty == TStr:
            a, b = lit(a), lit(b)
            if a.ty == TStr and b.ty == TStr:
                return a.t == b.t
        return None
    reg.add_hook("equals", equals)
