"""Discharge obligations with z3 (python API = z3 5.1.0 wheel; optional cross-check by the
/usr/bin/z3 4.8.12 and cvc5 CLIs on the exported SMT-LIB text in the thorough tier)."""
from __future__ import annotations
import time, subprocess, tempfile, os
import z3

DISCHARGED, REFUTED, UNKNOWN, COVERED, VACUOUS, FAILED = "discharged", "refuted", "unknown", "covered", "vacuous", "failed"


def _mk(obl, axioms, timeout_ms, ematching_only, variant=0, rlimit=None):
    """variant 0: the obligation as generated.  variant k > 0: the same formulas translated into a FRESH z3 context (term numbering
    and therefore instantiation order change) with another random seed - used to retry queries that ran out of time, because
    E-matching search is sensitive to such incidental details (an unstable query must not decide the verdict either way)."""
    if variant == 0:
        s = z3.Solver()
        tr = lambda f: f
    else:
        ctx = z3.Context()
        s = z3.Solver(ctx=ctx)
        tr = lambda f: f.translate(ctx)
        s.set("smt.random_seed", 7919 * variant)
    s.set("timeout", timeout_ms)
    if rlimit is not None:
        s.set("rlimit", rlimit)
    if ematching_only:
        s.set("smt.mbqi", False)      # Boogie/Dafny style: pure E-matching; cannot answer sat
    for a in axioms:
        s.add(tr(a))
    for p in obl.pc:
        s.add(tr(p) if z3.is_expr(p) else p)
    if not obl.expect_sat:
        g = obl.goal if z3.is_expr(obl.goal) else z3.BoolVal(bool(obl.goal))
        s.add(tr(z3.Not(g)))
    return s


def _hard_check(s, hard_timeout_s, want_model):
    """s.check() in a forked child with a hard wall-clock limit (z3's own timeout is not always honoured:
    some phases do not poll the cancel flag). Returns (result string, reason, model text or None)."""
    import select, pickle, signal
    r_fd, w_fd = os.pipe()
    pid = os.fork()
    if pid == 0:
        try:
            os.close(r_fd)
            r = s.check()
            res = {"r": str(r), "reason": s.reason_unknown() if r == z3.unknown else "", "model": None}
            if want_model and r != z3.unsat:
                try:
                    res["model"] = _model_text(s.model())
                except Exception as ex:
                    res["model"] = f"<model unavailable: {ex}>"
            with os.fdopen(w_fd, "wb") as f:
                pickle.dump(res, f)
        finally:
            os._exit(0)
    os.close(w_fd)
    out = None
    try:
        ready, _, _ = select.select([r_fd], [], [], hard_timeout_s)
        if ready:
            with os.fdopen(r_fd, "rb") as f:
                r_fd = None
                out = pickle.load(f)
    except Exception:
        out = None
    finally:
        if r_fd is not None:
            os.close(r_fd)
        try:
            os.kill(pid, signal.SIGKILL)
        except ProcessLookupError:
            pass
        os.waitpid(pid, 0)
    if out is None:
        return "unknown", "timeout (hard limit: solver did not return)", None
    return out["r"], out["reason"], out["model"]


def _is_budget(reason):
    return any(w in reason for w in ("timeout", "canceled", "resource", "memory", "interrupted", "rlimit", "max. resource"))


def check(obl, axioms=(), timeout_ms=10000, want_smt2=False):
    """Budgets are z3 RESOURCE limits (rlimit: a deterministic count of solver steps), not seconds, so that verdicts do not depend on
    how busy the machine is; wall-clock limits are only a generous backstop (z3 does not always honour its own timeout, hence the
    hard kill).  R = timeout_ms * 2500 steps (about timeout_ms of solver time on this machine when idle).
      A  E-matching only (Boogie/Dafny style; never answers sat), budget R/2  - almost every proof is found here in well under a second
      B  model-based quantifier instantiation (can also answer sat),  budget R
      D  E-matching only in two fresh contexts with other seeds, budget R/2 each (only a proof is accepted from a retry)"""
    t0 = time.time()
    retried = 0
    R = int(timeout_ms) * 2500
    wall_ms = int(timeout_ms) * 6
    hard = wall_ms / 1000.0 + 5
    if obl.expect_sat:
        s = _mk(obl, axioms, min(timeout_ms, 3000), False)
        r, reason, model = _hard_check(s, 8, False)
    else:
        s = _mk(obl, axioms, wall_ms, True, rlimit=R // 2)
        r, reason, model = _hard_check(s, hard, True)
        if r != "unsat":
            r1, reason1, model1, s1 = r, reason, model, s
            s = _mk(obl, axioms, wall_ms, False, rlimit=R)
            r, reason, model = _hard_check(s, hard, True)
            if r == "unknown" and _is_budget(reason) and not _is_budget(reason1):
                # E-matching saturated without a proof (pass A) and model-based instantiation ran out of budget (pass B): report the
                # saturation verdict of pass A
                r, reason, model, s = r1, reason1, model1, s1
            elif r == "unknown" and _is_budget(reason) and _is_budget(reason1):
                for variant in (1, 2):
                    s2 = _mk(obl, axioms, wall_ms, True, variant=variant, rlimit=R // 2)
                    r2, reason2, _ = _hard_check(s2, hard, False)
                    if r2 == "unsat":
                        r, reason, model = r2, reason2, None
                        retried = variant
                        break
    dt = time.time() - t0
    out = {"name": obl.name, "kind": obl.kind, "line": obl.line, "seconds": round(dt, 3), "solver": "z3-5.1.0(api)"}
    if retried:
        out["retried_in_fresh_context"] = retried
    if obl.expect_sat:
        # anti-vacuity: a path condition that is *refutable* makes everything behind it vacuous.
        # sat = witnessed reachable; unknown = not refutable within the budget (quantified formulas
        # rarely get a model): both are accepted, only unsat is an error.
        out["status"] = COVERED if r == "sat" else (VACUOUS if r == "unsat" else "cover-not-refuted")
    elif r == "unsat":
        out["status"] = DISCHARGED
    elif r == "sat":
        out["status"] = REFUTED
        out["model"] = model
    else:
        out["reason"] = reason
        if _is_budget(reason):
            out["status"] = UNKNOWN            # budget exhausted: undecided
        else:
            # The solver stopped without a proof and without exhausting its budget ("incomplete
            # quantifiers / theory"): instantiation saturated and a candidate counter-model exists.
            # This is what deductive verifiers report as a failed obligation (Boogie/Dafny convention);
            # the candidate model is attached but is not guaranteed to be a real model.
            out["status"] = FAILED
            out["model"] = "CANDIDATE (not guaranteed): \n" + (model or "<none>")
    if want_smt2 or out["status"] in (REFUTED, UNKNOWN, FAILED):
        try:
            out["smt2"] = s.to_smt2()
        except Exception:
            out["smt2"] = None
    return out


def _model_text(m, limit=6000):
    lines = []
    for d in m.decls():
        try:
            lines.append(f"{d.name()} = {m[d]}")
        except Exception:
            pass
    txt = "\n".join(sorted(lines))
    return txt[:limit]


def cross_check_cli(smt2: str, solver: str, timeout_s=60):
    """Run an external solver binary on SMT-LIB text. Returns 'unsat' | 'sat' | 'unknown' | 'error:<..>'."""
    with tempfile.NamedTemporaryFile("w", suffix=".smt2", delete=False) as f:
        f.write(smt2)
        path = f.name
    try:
        if solver == "z3-4.8.12":
            cmd = ["/usr/bin/z3", f"-T:{timeout_s}", path]
        elif solver == "cvc5-1.0.3":
            cmd = ["/usr/bin/cvc5", f"--tlimit={timeout_s * 1000}", path]
        else:
            raise ValueError(solver)
        p = subprocess.run(cmd, capture_output=True, text=True, timeout=timeout_s + 10)
        out = (p.stdout or "").strip().splitlines()
        for l in out:
            if l.strip() in ("sat", "unsat", "unknown"):
                return l.strip()
        return "error:" + ((p.stdout + p.stderr).strip()[:200])
    except subprocess.TimeoutExpired:
        return "unknown"
    finally:
        os.unlink(path)
