"""Heap model of biobalm.succession_diagram.SuccessionDiagram (DESIGN.md section 5).

The object is a record of ghost *views* (z3 terms), one per piece of state the methods touch:

  K                     number of nodes (= dag.number_of_nodes(), ids are 0..K-1)
  space[i]              NodeData.space                      expanded[i], skipped[i], depth[i], parent[i]
  cand[i], seeds[i]     Optional[list[Space]]               sets[i]   Optional[list[VertexSet]]
  ppn[i], pbn[i], pnfvs[i]   Optional percolated Petri net / network / NFVS
  edge[i][j]            dag.has_edge(i, j)                  motifs[i][j]  edge attribute all_motifs (list)
  motif0[i][j]          edge attribute motif (first motif)
  succsig[i]            GHOST: abstract signature of the successor set of i (changes whenever an edge
                        leaving i is added); attractor caches are valid relative to it (I-cache)
  index                 node_indices : dict[int, int]        (space key -> id)
  net, sym, pn, nfvs    network / symbolic / petri_net / nfvs objects;  cfg_* configuration integers

networkx assumptions (DESIGN.md section 4): add_node / add_edge / has_edge / successors /
predecessors / out_degree / number_of_nodes / nodes[...] / edges[...] behave as documented; node
attribute dictionaries are the NodeData records.
"""
from __future__ import annotations
import z3
from .vtypes import *
from . import engine as E
from . import theory as T
from .registry import ObjModel
from .externals_aeon import TGraph, TNetObj

TPN = TObj("PetriNet")
TVSet = TObj("VertexSet")
TSuccSig = TObj("SuccSig")
OptLS = TOpt(TList(TSpace))
OptLV = TOpt(TList(TVSet))
OptPN = TOpt(TPN)
OptBN = TOpt(TNetObj)
OptLN = TOpt(TList(TName))
LS = TList(TSpace)
LI = TList(TInt)
LV = TList(TVSet)

A = z3.ArraySort


class TArr(Ty):
    """Array-valued field Int -> T (a node attribute over all nodes)."""

    def __init__(self, elem, depth=1):
        self.elem, self.depth = elem, depth
        self.name = f"arr{depth}[{elem.name}]"

    def sort(self):
        s = self.elem.sort()
        for _ in range(self.depth):
            s = A(I, s)
        return s


NODE_FIELDS = {
    "space": TSpace, "expanded": TBool, "depth": TInt, "skipped": TBool, "parent_node": TOpt(TInt),
    "attractor_candidates": OptLS, "attractor_seeds": OptLS, "attractor_sets": OptLV,
    "percolated_petri_net": OptPN, "percolated_network": OptBN, "percolated_nfvs": OptLN,
}
FIELD_OF = {"space": "space", "expanded": "expanded", "depth": "depth", "skipped": "skipped", "parent_node": "parent",
            "attractor_candidates": "cand", "attractor_seeds": "seeds", "attractor_sets": "sets",
            "percolated_petri_net": "ppn", "percolated_network": "pbn", "percolated_nfvs": "pnfvs"}
CONFIG_KEYS = ["max_motifs_per_node", "nfvs_size_threshold", "pint_goal_size_limit", "attractor_candidates_limit",
               "retained_set_optimization_threshold", "minimum_simulation_budget"]

# configuration records (TypedDict SuccessionDiagramConfiguration, every key present) as an opaque sort with one getter per key
TConfig = TObj("Config")
cfg_get = {k: z3.Function("cfg_" + k, TConfig.sort(), I) for k in CONFIG_KEYS}
cfg_debug = z3.Function("cfg_debug", TConfig.sort(), B)
DefaultCfg = z3.Const("default_config", TConfig.sort())
DEFAULTS = {"max_motifs_per_node": 100_000, "nfvs_size_threshold": 2_000, "pint_goal_size_limit": 8_192,
            "attractor_candidates_limit": 100_000, "retained_set_optimization_threshold": 1_000, "minimum_simulation_budget": 1_000}
DAG_FIELDS = ("K", "space", "expanded", "skipped", "parent", "cand", "seeds", "sets", "ppn", "pbn", "pnfvs",
              "edge", "motifs", "motif0", "succsig", "depth")


def fresh_dag_value(name):
    """a networkx DiGraph value carrying NodeData / edge attributes, independent of any diagram (pickled state)"""
    f = {"K": TInt.fresh(name + ".K")}
    for key, ty in NODE_FIELDS.items():
        f[FIELD_OF[key]] = TArr(ty).fresh(f"{name}.{FIELD_OF[key]}")
    f["edge"] = TArr(TBool, 2).fresh(name + ".edge")
    f["motifs"] = TArr(LS, 2).fresh(name + ".motifs")
    f["motif0"] = TArr(TSpace, 2).fresh(name + ".motif0")
    f["succsig"] = TArr(TSuccSig).fresh(name + ".succsig")
    return _V("dagval", None, f)


addsucc3 = z3.Function("addsucc3", TSuccSig.sort(), T.SpaceS, T.SpaceS, TSuccSig.sort())   # (sig, motif, child space)
nosucc = z3.Const("nosucc", TSuccSig.sort())


def fresh_fields(eng, st, name):
    f = {"K": TInt.fresh(name + ".K")}
    for key, ty in NODE_FIELDS.items():
        f[FIELD_OF[key]] = TArr(ty).fresh(f"{name}.{FIELD_OF[key]}")
    f["edge"] = TArr(TBool, 2).fresh(name + ".edge")
    f["motifs"] = TArr(LS, 2).fresh(name + ".motifs")
    f["motif0"] = TArr(TSpace, 2).fresh(name + ".motif0")
    f["succsig"] = TArr(TSuccSig).fresh(name + ".succsig")
    f["index"] = TDict(TInt, TInt).fresh(name + ".index")
    f["net"] = TNetObj.fresh(name + ".network")
    f["sym"] = TGraph.fresh(name + ".symbolic")
    f["pn"] = TPN.fresh(name + ".petri_net")
    f["nfvs"] = OptLN.fresh(name + ".nfvs")
    f["tok"] = TInt.fresh(name + ".history_token")   # GHOST: abstract state token, advanced only by operations whose effect is assumed as an uninterpreted function of (token, arguments)
    f["cfg_debug"] = vbool(False)       # contracts are for debug == False (debug branches are not extracted)
    for k in CONFIG_KEYS:
        f["cfg_" + k] = TInt.fresh(f"{name}.cfg.{k}")
    return f


class View:
    """Namespace of z3 terms of one SD heap object (used by contracts: c.self.expanded[i] ...)."""

    def __init__(self, ho):
        for k, v in ho.fields.items():
            object.__setattr__(self, k, v.t)
        object.__setattr__(self, "_ho", ho)


class _V(Val):
    """Python-side helper view values (never stored in SMT)."""
    t = None

    def __init__(self, kind, sd, *a):
        self.kind, self.sd, self.a = kind, sd, a
        self.ty = THelper("view:" + kind)


def _fld(st, sd, name):
    return st.heap[sd.t].fields[name]


def _setfld(st, sd, name, val):
    st.heap[sd.t].fields[name] = val


def _valid_id(eng, st, sd, i, node, what):
    K = _fld(st, sd, "K").t
    eng.oblige(st, f"valid_node_id@{node.lineno if node is not None else 0}.{what}", z3.And(0 <= i, i < K),
               node.lineno if node is not None else 0, kind="safety")


class SDModel(ObjModel):
    cls = "SD"

    # --- matching
    @staticmethod
    def pred(v):
        return (isinstance(v, E.Ref) and v.ty.cls == "SD") or (isinstance(v, _V))

    def view(self, ho):
        return View(ho)

    # --- attribute access
    def getattr(self, eng, st, v, attr, node):
        if isinstance(v, E.Ref):
            if attr == "dag":
                return _V("dag", v)
            if attr == "node_indices":
                return _fld(st, v, "index")
            if attr == "config":
                return _V("config", v)
            if attr == "network":
                return _fld(st, v, "net")
            if attr == "symbolic":
                return _fld(st, v, "sym")
            if attr == "petri_net":
                return _fld(st, v, "pn")
            if attr == "nfvs":
                return _fld(st, v, "nfvs")
        elif v.kind == "dag":
            if attr == "nodes":
                return _V("nodes", v.sd)
            if attr == "edges":
                return _V("edges", v.sd)
        raise OutOfSubset(f"SuccessionDiagram attribute .{attr} on {getattr(v, 'kind', 'sd')}")

    def setattr(self, eng, st, v, attr, val):
        if isinstance(v, E.Ref):
            m = {"node_indices": ("index", TDict(TInt, TInt)), "nfvs": ("nfvs", OptLN), "network": ("net", TNetObj),
                 "symbolic": ("sym", TGraph), "petri_net": ("pn", TPN)}
            if attr in m:
                f, ty = m[attr]
                _setfld(st, v, f, eng.coerce(val, ty, st))
                return
            if attr == "config":
                if val.ty != TConfig:
                    raise OutOfSubset("self.config = <not a configuration record>")
                # every contract of the diagram is stated for debug == False (debug printing is not extracted)
                eng.oblige(st, "config.debug_is_off", z3.Not(cfg_debug(val.t)), 0, kind="model")
                for k in CONFIG_KEYS:
                    _setfld(st, v, "cfg_" + k, vint(cfg_get[k](val.t)))
                return
            if attr == "dag":
                if isinstance(val, _V) and val.kind == "dagval":
                    for f in DAG_FIELDS:
                        _setfld(st, v, f, val.a[0][f])
                    return
                if val.ty == TPN and z3.eq(val.t, T.EmptyPN):
                    # a new, empty nx.DiGraph(): no nodes, no edges (node/edge attributes of absent ids are irrelevant)
                    _setfld(st, v, "K", vint(0))
                    e = _fld(st, v, "edge")
                    _setfld(st, v, "edge", Val(e.ty, z3.K(I, z3.K(I, z3.BoolVal(False)))))
                    return
                raise OutOfSubset("self.dag = <graph shared with another object>")
        raise OutOfSubset(f"attribute store .{attr}")

    # --- subscripts
    def getitem(self, eng, st, v, idx, node):
        if isinstance(v, E.Ref):
            raise OutOfSubset("subscript on a SuccessionDiagram")
        sd = v.sd
        if v.kind == "config":
            key = idx.s if isinstance(idx, E._StrLit) else None
            if key == "debug":
                return vbool(False)
            if key in CONFIG_KEYS:
                return _fld(st, sd, "cfg_" + key)
            raise OutOfSubset(f"config key {key}")
        if v.kind == "nodes":
            _valid_id(eng, st, sd, idx.t, node, "nodes")
            return _V("node", sd, idx.t)
        if v.kind == "node":
            key = idx.s if isinstance(idx, E._StrLit) else None
            if key not in NODE_FIELDS:
                raise OutOfSubset(f"node attribute {key}")
            arr = _fld(st, sd, FIELD_OF[key])
            return Val(NODE_FIELDS[key], arr.t[v.a[0]])
        if v.kind == "edges":
            p, c = [x.t for x in eng.untuple(idx, 2)]
            eng.oblige(st, f"edge_exists@{node.lineno}", _fld(st, sd, "edge").t[p][c], node.lineno, kind="safety")
            return _V("edge", sd, p, c)
        if v.kind == "edge":
            key = idx.s if isinstance(idx, E._StrLit) else None
            p, c = v.a
            if key == "all_motifs":
                return Val(LS, _fld(st, sd, "motifs").t[p][c])
            if key == "motif":
                return Val(TSpace, _fld(st, sd, "motif0").t[p][c])
            raise OutOfSubset(f"edge attribute {key}")
        raise OutOfSubset(f"subscript on view {v.kind}")

    def setitem(self, eng, st, v, idx, val):
        if isinstance(v, E.Ref):
            raise OutOfSubset("item store on a SuccessionDiagram")
        sd = v.sd
        if v.kind == "node":
            key = idx.s if isinstance(idx, E._StrLit) else None
            if key not in NODE_FIELDS:
                raise OutOfSubset(f"node attribute {key}")
            ty = NODE_FIELDS[key]
            if key == "skipped" and val.ty == TNoneLit:
                val = vbool(False)
            val = eng.coerce(val, ty, st)
            fname = FIELD_OF[key]
            arr = _fld(st, sd, fname)
            _setfld(st, sd, fname, Val(arr.ty, z3.Store(arr.t, v.a[0], val.t)))
            return None
        if v.kind == "edge":
            key = idx.s if isinstance(idx, E._StrLit) else None
            p, c = v.a
            if key == "all_motifs":
                # only "append one motif" is modelled: new list = old list + [m]; ghost signature extended by m
                arr = _fld(st, sd, "motifs")
                val = eng.coerce(val, LS, st)
                old = arr.t[p][c]
                n = LS.len(old)
                a = z3.Int(fresh_name("a"))
                eng.oblige(st, "all_motifs.only_appended", z3.And(LS.len(val.t) == n + 1, z3.ForAll(
                    [a], z3.Implies(z3.And(0 <= a, a < n), LS.at(val.t)[a] == LS.at(old)[a]))), 0, kind="model")
                _setfld(st, sd, "motifs", Val(arr.ty, z3.Store(arr.t, p, z3.Store(arr.t[p], c, val.t))))
                sig = _fld(st, sd, "succsig")
                sp = _fld(st, sd, "space").t
                _setfld(st, sd, "succsig", Val(sig.ty, z3.Store(sig.t, p, addsucc3(sig.t[p], LS.at(val.t)[n], sp[c]))))
                return None
        if v.kind in ("nodes", "edges"):
            return None    # write-back of a node/edge reference: no-op
        raise OutOfSubset(f"item store on view {v.kind}")

    # --- methods of networkx objects reached through the diagram
    def method(self, eng, st, v, meth, args, kw, node, recv_expr=None):
        if isinstance(v, E.Ref):
            raise OutOfSubset(f"SuccessionDiagram.{meth} has no contract")
        sd = v.sd
        K = _fld(st, sd, "K").t
        edge = _fld(st, sd, "edge").t
        if v.kind == "dag":
            if meth == "number_of_nodes":
                return vint(K)
            if meth == "has_edge":
                return vbool(edge[args[0].t][args[1].t])
            if meth == "out_degree":
                i = args[0].t
                j = z3.Int(fresh_name("j"))
                deg = z3.Int(fresh_name("outdeg"))
                st.assume(deg >= 0)
                st.assume((deg == 0) == z3.Not(z3.Exists([j], z3.And(0 <= j, j < K, edge[i][j]))))
                return vint(deg)
            if meth in ("successors", "predecessors"):
                i = args[0].t
                _valid_id(eng, st, sd, i, node, meth)
                res = LI.fresh(meth)
                a, b = z3.Int(fresh_name("a")), z3.Int(fresh_name("b"))
                n = LI.len(res.t)
                rel = (lambda j: edge[i][j]) if meth == "successors" else (lambda j: edge[j][i])
                pos = z3.Function(fresh_name("pos"), I, I)
                st.assume(n >= 0)
                st.assume(z3.ForAll([a], z3.Implies(z3.And(0 <= a, a < n),
                                                    z3.And(0 <= LI.at(res.t)[a], LI.at(res.t)[a] < K, rel(LI.at(res.t)[a]),
                                                           pos(LI.at(res.t)[a]) == a))))
                st.assume(z3.ForAll([b], z3.Implies(z3.And(0 <= b, b < K, rel(b)),
                                                    z3.And(0 <= pos(b), pos(b) < n, LI.at(res.t)[pos(b)] == b))))
                return res
            if meth == "nodes":
                return E._RangeIter(z3.IntVal(0), K)      # ids are 0..K-1 (I-ids); iteration order = insertion order
            if meth == "add_node":
                i = args[0].t
                eng.oblige(st, f"add_node.fresh_id@{node.lineno}", i == K, node.lineno, kind="safety")
                for key in NODE_FIELDS:
                    if key not in kw:
                        raise OutOfSubset(f"add_node without attribute {key}")
                for key, ty in NODE_FIELDS.items():
                    val = kw[key]
                    if key == "skipped" and val.ty == TNoneLit:
                        val = vbool(False)
                    val = eng.coerce(val, ty, st)
                    arr = _fld(st, sd, FIELD_OF[key])
                    _setfld(st, sd, FIELD_OF[key], Val(arr.ty, z3.Store(arr.t, i, val.t)))
                # a new node has no edges in either direction; successor signature = empty
                e = _fld(st, sd, "edge")
                ne = TArr(TBool, 2).fresh("edge")
                a, b = z3.Int(fresh_name("a")), z3.Int(fresh_name("b"))
                st.assume(z3.ForAll([a, b], ne.t[a][b] == z3.If(z3.Or(a == i, b == i), False, e.t[a][b])))
                _setfld(st, sd, "edge", ne)
                sig = _fld(st, sd, "succsig")
                _setfld(st, sd, "succsig", Val(sig.ty, z3.Store(sig.t, i, nosucc)))
                _setfld(st, sd, "K", vint(K + 1))
                return NONE
            if meth == "add_edge":
                p, c = args[0].t, args[1].t
                _valid_id(eng, st, sd, p, node, "add_edge.parent")
                _valid_id(eng, st, sd, c, node, "add_edge.child")
                e = _fld(st, sd, "edge")
                _setfld(st, sd, "edge", Val(e.ty, z3.Store(e.t, p, z3.Store(e.t[p], c, True))))
                mo = _fld(st, sd, "motifs")
                am = eng.coerce(kw["all_motifs"], LS, st)
                _setfld(st, sd, "motifs", Val(mo.ty, z3.Store(mo.t, p, z3.Store(mo.t[p], c, am.t))))
                m0 = _fld(st, sd, "motif0")
                mv = eng.coerce(kw["motif"], TSpace, st)
                _setfld(st, sd, "motif0", Val(m0.ty, z3.Store(m0.t, p, z3.Store(m0.t[p], c, mv.t))))
                sig = _fld(st, sd, "succsig")
                sp = _fld(st, sd, "space").t
                _setfld(st, sd, "succsig", Val(sig.ty, z3.Store(sig.t, p, addsucc3(sig.t[p], mv.t, sp[c]))))
                return NONE
        if v.kind == "nodes":
            # self.dag.nodes()  -> iterable of ids
            return E._RangeIter(z3.IntVal(0), K)
        raise OutOfSubset(f"method .{meth}() on view {v.kind}")


class ListOfEdgeMotifs:
    pass


def install(reg):
    m = SDModel()
    reg.add_model(SDModel.pred, m)
    reg.class_fields["SD"] = fresh_fields

    def size_of(eng, st, v, node):
        if isinstance(v, E.Ref) and v.ty.cls == "SD":
            c = reg.lookup_method("SD", "__len__")
            return vint(_fld(st, v, "K").t)
        if v.ty == TSpace:
            return vint(T.card(v.t))
        return None
    reg.add_hook("size_of", size_of)

    def edge_motif_append(eng, st, v, meth, args, kw, node, recv_expr):
        return None


def _sorted_hook(eng, st, v, kw, node):
    """sorted(list[int]) / sorted(list[int], reverse=True) / sorted(spaces, key=lambda s: space_unique_key(s, net))"""
    import ast
    rev = False
    if "reverse" in kw:
        rv = kw["reverse"]
        if not (isinstance(rv, ast.Constant) and isinstance(rv.value, bool)):
            raise OutOfSubset("sorted(reverse=<non-literal>)")
        rev = rv.value
    if isinstance(v.ty, TEmpty):
        return v
    if isinstance(v.ty, TSet) and v.ty.elem == TInt and "key" not in kw:
        # sorted(set of ints): ascending list of exactly the elements
        res = LI.fresh("sorted")
        a, b = z3.Int(fresh_name("a")), z3.Int(fresh_name("b"))
        n = LI.len(res.t)
        pos = z3.Function(fresh_name("spos"), I, I)
        st.assume(n >= 0)
        st.assume(z3.ForAll([a], z3.Implies(z3.And(0 <= a, a < n), z3.And(v.t[LI.at(res.t)[a]], pos(LI.at(res.t)[a]) == a))))
        st.assume(z3.ForAll([b], z3.Implies(v.t[b], z3.And(0 <= pos(b), pos(b) < n, LI.at(res.t)[pos(b)] == b))))
        st.assume(z3.ForAll([a, b], z3.Implies(z3.And(0 <= a, a < b, b < n),
                                               (LI.at(res.t)[a] > LI.at(res.t)[b]) if rev else (LI.at(res.t)[a] < LI.at(res.t)[b]))))
        return res
    if v.ty == LI and "key" not in kw:
        res = LI.fresh("sorted")
        a, b = z3.Int(fresh_name("a")), z3.Int(fresh_name("b"))
        n = LI.len(res.t)
        perm = z3.Function(fresh_name("perm"), I, I)      # position in the input of the a-th output element
        inv = z3.Function(fresh_name("perminv"), I, I)
        st.assume(n == LI.len(v.t))
        st.assume(z3.ForAll([a], z3.Implies(z3.And(0 <= a, a < n), z3.And(0 <= perm(a), perm(a) < n, LI.at(res.t)[a] == LI.at(v.t)[perm(a)], inv(perm(a)) == a))))
        st.assume(z3.ForAll([b], z3.Implies(z3.And(0 <= b, b < n), z3.And(0 <= inv(b), inv(b) < n, perm(inv(b)) == b,
                                                                          LI.at(res.t)[inv(b)] == LI.at(v.t)[b]))))
        st.assume(z3.ForAll([a, b], z3.Implies(z3.And(0 <= a, a < b, b < n),
                                               (LI.at(res.t)[a] >= LI.at(res.t)[b]) if rev else (LI.at(res.t)[a] <= LI.at(res.t)[b]))))
        return res
    if v.ty == LS and "key" in kw and not rev:
        kf = kw["key"]
        if (isinstance(kf, ast.Lambda) and isinstance(kf.body, ast.Call) and isinstance(kf.body.func, ast.Name)
                and kf.body.func.id == "space_unique_key" and len(kf.body.args) == 2
                and isinstance(kf.body.args[0], ast.Name) and kf.body.args[0].id == kf.args.args[0].arg):
            netv = eng.ev(kf.body.args[1], st)
            if netv.ty != TNetObj:
                raise OutOfSubset("sort key network")
            from .externals_aeon import bn_net_of
            Nn = bn_net_of(netv.t)
            a = z3.Int(fresh_name("a"))
            # the key function raises IndexError on unknown variable names
            eng.oblige(st, f"sorted.key_defined@{node.lineno}", z3.ForAll([a], z3.Implies(
                z3.And(0 <= a, a < LS.len(v.t)), T.dom_within(LS.at(v.t)[a], Nn))), node.lineno, kind="safety")
            r = T.SortByKey(Nn, v.t)
            st.assume(LS.len(r) == LS.len(v.t))
            return Val(LS, r)
    return None


_install0 = install


def install(reg):
    _install0(reg)
    reg.add_hook("sorted", _sorted_hook)


_install_s1 = install


def install(reg):
    _install_s1(reg)

    def contains(eng, st, coll, x, node):
        if isinstance(coll, _V) and coll.kind == "nodes":
            K = _fld(st, coll.sd, "K").t
            return z3.And(0 <= x.t, x.t < K)
        return None
    reg.add_hook("contains", contains)

    def digraph(eng, st, node):
        if node.args or node.keywords:
            raise OutOfSubset("nx.DiGraph(<args>)")
        return Val(TPN, T.EmptyPN)
    reg.module_calls[("nx", "DiGraph")] = digraph


_install_s2 = install


def install(reg):
    _install_s2(reg)

    def coerce(eng, st, v, ty):
        # a BooleanNetwork passed where the solver expects a Petri net: trappist_async translates it (network_to_petrinet)
        if v.ty == TNetObj and ty == TPN:
            return Val(TPN, T.PNOfNet(v.t))
        return None
    reg.add_hook("coerce", coerce)


# ---------------------------------------------------------------------- configuration records, state records
class ConfigModel(ObjModel):
    def getitem(self, eng, st, v, idx, node):
        key = idx.s if isinstance(idx, E._StrLit) else None
        if key == "debug":
            return vbool(cfg_debug(v.t))
        if key in CONFIG_KEYS:
            return vint(cfg_get[key](v.t))
        raise OutOfSubset(f"config key {key}")


def default_cfg_facts():
    return z3.And(z3.Not(cfg_debug(DefaultCfg)), *[cfg_get[k](DefaultCfg) == DEFAULTS[k] for k in CONFIG_KEYS])


_install_s3 = install


def install(reg):
    _install_s3(reg)
    reg.add_model(lambda v: v.ty == TConfig, ConfigModel())

    def default_config(eng, st, node):
        # SuccessionDiagram.default_config(): the literal record of the class (values re-read from the source by the
        # contract of default_config, see contracts/succession_diagram.py)
        c = reg.contracts.get("biobalm.succession_diagram.SuccessionDiagram.default_config")
        if c is None:
            raise OutOfSubset("default_config without contract")
        st.assume(default_cfg_facts())
        return Val(TConfig, DefaultCfg)
    reg.module_calls[("SuccessionDiagram", "default_config")] = default_config

    def dict_merge(eng, st, vs, node):
        if vs and all(v.ty == TConfig for v in vs):
            return vs[-1]       # total records of the same TypedDict: every key is taken from the last operand
        return None
    reg.add_hook("dict_merge", dict_merge)
