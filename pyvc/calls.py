"""Call handling of the symbolic executor: builtins with their mathematical meaning, container
methods, and — for every biobalm function or dependency — replacement of the call by the callee's
contract (assert precondition, havoc frame, assume postcondition)."""
from __future__ import annotations
import ast
import z3
from .vtypes import *
from . import engine as E
from .contract import Ctx, OldCtx, HeapParam


def call(eng, e: ast.Call, st):
    f = e.func
    if any(isinstance(a, ast.Starred) for a in e.args):
        raise OutOfSubset("star-args")
    if isinstance(f, ast.Name):
        name = f.id
        if name in st.env and isinstance(st.env[name], E._Closure):
            return call_closure(eng, st.env[name], e, st)
        if name in st.env and isinstance(st.env[name], E._Callback):
            return st.env[name].call(eng, st, [eng.ev(a, st) for a in e.args], e)
        b = _BUILTINS.get(name)
        if b is not None and name not in st.env:
            return b(eng, e, st)
        c = eng.reg.lookup_function(name)
        if c is not None:
            args = [eng.ev(a, st) for a in e.args]
            kw = {k.arg: eng.ev(k.value, st) for k in e.keywords}
            return apply_contract(eng, st, c, args, kw, e, arg_exprs=e.args, kw_exprs={k.arg: k.value for k in e.keywords})
        r = eng.reg.call_global(eng, st, name, e)
        if r is not None:
            return r
        raise OutOfSubset(f"call to unknown function `{name}` at line {e.lineno}")
    if isinstance(f, ast.Attribute):
        # module-qualified function (copy.copy, nx.descendants, ...)
        if isinstance(f.value, ast.Name) and f.value.id not in st.env:
            r = eng.reg.call_module(eng, st, f.value.id, f.attr, e)
            if r is not None:
                return r
        recv = eng.ev(f.value, st)
        return call_method(eng, st, recv, f.attr, e, f.value)
    raise OutOfSubset(f"call of {type(f).__name__}")


def call_closure(eng, clo, e, st):
    """A nested def / lambda called directly: only verified-by-contract closures are supported."""
    node = clo.node
    if isinstance(node, ast.FunctionDef):
        c = eng.reg.lookup_nested(eng.c.qualname, node.name)
        if c is not None:
            args = [eng.ev(a, st) for a in e.args]
            kw = {k.arg: eng.ev(k.value, st) for k in e.keywords}
            # captured variables are passed by name from the caller's environment
            for nm, _ in c.captured:
                kw[nm] = st.env[nm]
            return apply_contract(eng, st, c, args, kw, e, arg_exprs=e.args,
                                  kw_exprs={nm: ast.Name(id=nm, ctx=ast.Load()) for nm, _ in c.captured})
    raise OutOfSubset("call of a local closure without contract")


# ---------------------------------------------------------------------------- contract application
class _HeapState:
    """a state view with another heap (the entry heap), for evaluating a measure at function entry"""

    def __init__(self, st, heap):
        self.heap, self.env, self.pc, self.ghost, self.old = heap, st.env, st.pc, st.ghost, st.old


def apply_contract(eng, st, c, args, kw, node, arg_exprs=(), kw_exprs=None, recv=None, recv_expr=None):
    kw_exprs = kw_exprs or {}
    names = [p[0] for p in c.params]
    argmap, exprmap = {}, {}
    pos = list(args)
    pexprs = list(arg_exprs)
    if recv is not None:
        pos = [recv] + pos
        pexprs = [recv_expr] + pexprs
    for nm, v, ex in zip(names, pos, pexprs + [None] * len(pos)):
        argmap[nm], exprmap[nm] = v, ex
    for k, v in kw.items():
        if k not in names and k not in [x[0] for x in c.captured]:
            raise OutOfSubset(f"{c.qualname}: unexpected keyword {k}")
        argmap[k], exprmap[k] = v, kw_exprs.get(k)
    for (nm, ty) in c.params:
        if nm not in argmap:
            if nm not in c.defaults:
                raise OutOfSubset(f"{c.qualname}: missing argument {nm}")
            d = c.defaults[nm]
            argmap[nm] = d if isinstance(d, Val) else _const(d)
        if ty is not None and not isinstance(ty, HeapParam) and c.custom_apply is None:
            argmap[nm] = eng.coerce(argmap[nm], ty, st)
    if c.custom_apply is not None:
        return c.custom_apply(eng, st, c, argmap, exprmap, node)
    pre_heap = {k: v.clone() for k, v in st.heap.items()}
    pre_env = dict(argmap)
    ctx = Ctx(eng, st, argmap)
    where = f"{c.short}@{node.lineno}"
    for i, r in enumerate(c.requires):
        eng.oblige(st, f"pre[{i}]@{where}", r(ctx), node.lineno, kind="pre")
    if c.qualname == eng.c.qualname and getattr(c, "rec_variant", None) is not None and st.old:
        # recursive call: the declared measure, evaluated on the arguments of the call, is smaller than at entry and bounded below
        m_call, m_entry = c.rec_variant(ctx), c.rec_variant(Ctx(eng, _HeapState(st, st.old["heap"]), dict(st.old["env"])))
        eng.oblige(st, f"dec.recursion@{node.lineno}", z3.And(m_call < m_entry, m_call >= 0), node.lineno, kind="dec")
    # exceptional outcomes
    for exc, spec in c.may_raise.items():
        fs = st.clone()
        fctx = Ctx(eng, fs, dict(argmap), old=OldCtx(eng, pre_heap, pre_env))
        cond = spec.get("when") or spec.get("only_when")
        if cond is not None:
            fs.assume(cond(fctx))
        _havoc_frame(eng, fs, c, argmap, exprmap, spec.get("modifies", {}))
        fctx = Ctx(eng, fs, _rebind(fs, argmap, exprmap, eng), old=OldCtx(eng, pre_heap, pre_env))
        for nm, f in c.raises.get(exc, []):
            fs.assume(f(fctx))
        eng.fork_raise(fs, exc)
    if c.may_raise and all(s.get("always") for s in c.may_raise.values()):
        raise E._RaiseSignal(next(iter(c.may_raise)))
    # normal outcome
    nc = None
    for exc, spec in c.may_raise.items():
        ncond = spec.get("only_when")
        if ncond is not None:
            st.assume(z3.Not(ncond(ctx)))
    if c.pure is not None:
        res = c.pure(ctx)
        if not isinstance(res, Val):
            res = Val(c.result_type, res)
        return res
    if getattr(eng, "_comp_depth", 0) > 0:
        cp = getattr(c, "pure_in_comprehension", None)
        if cp is None:
            raise OutOfSubset(f"call of {c.short} inside a comprehension: the contract has no functional (pure) view")
        res = cp(ctx, eng, st)
        return res if isinstance(res, Val) else Val(c.result_type, res)
    newvals = _havoc_frame(eng, st, c, argmap, exprmap, c.modifies)
    env2 = dict(argmap)
    env2.update(newvals)
    res = None
    rterm = None
    if c.result_type is not None:
        if isinstance(c.result_type, HeapParam):
            res = eng.reg.fresh_param(eng, st, "ret", c.result_type)
            rterm = res
        else:
            res = c.result_type.fresh("ret")
            st.assume(c.result_type.wf(res.t))
            rterm = res.t
    post = Ctx(eng, st, env2, result=rterm, old=OldCtx(eng, pre_heap, pre_env))
    object.__setattr__(post, "_result_val", res)
    for nm, f in c.ensures:
        if nm.startswith("step."):
            continue          # internal proof step of the callee's own verification (mentions its locals)
        try:
            g = f(post)
        except (AttributeError, KeyError):
            continue          # the clause speaks about a local of the callee: not available to (and not assumed by) the caller
        st.assume(g)
    if res is not None and _is_generator(c) and not isinstance(res, E.Ref):
        res = OneShotVal(res.ty, res.t)          # the caller holds a generator object, not a list
    return res if res is not None else NONE


def _is_generator(c):
    """does the function behind the contract contain `yield` (read from the current source, cached per contract)"""
    g = getattr(c, "_is_gen_cached", None)
    if g is None:
        g = bool(getattr(c, "generator", False))
        if not g and c.qualname.startswith("biobalm."):
            try:
                from . import extract
                fn = extract.extract(c.qualname)
                g = any(isinstance(n, (ast.Yield, ast.YieldFrom)) for n in ast.walk(fn.node))
            except Exception:
                g = False
        c._is_gen_cached = g
    return g


def _rebind(st, argmap, exprmap, eng):
    return dict(argmap)


def _havoc_frame(eng, st, c, argmap, exprmap, modifies):
    """Havoc what the callee may modify. Heap params: listed fields (True = all).
    Value params: a fresh value is bound to the caller's argument expression."""
    newvals = {}
    for nm, what in modifies.items():
        v = argmap.get(nm)
        if v is None:
            continue
        if isinstance(v, E.Ref):
            eng.havoc_obj(st, v.t, None if what is True else what)
        else:
            nv = v.ty.fresh(nm)
            st.assume(v.ty.wf(nv.t))
            ex = exprmap.get(nm)
            if ex is None:
                raise OutOfSubset(f"{c.qualname} modifies `{nm}` but the argument is not an lvalue")
            eng.assign(ex, nv, st)
            newvals[nm] = nv
    return newvals


def _const(d):
    if d is None:
        return NONE
    if isinstance(d, bool):
        return vbool(d)
    if isinstance(d, int):
        return vint(d)
    if isinstance(d, str):
        return E._StrLit(d)
    raise OutOfSubset(f"default {d!r}")


# ---------------------------------------------------------------------------- methods
def call_method(eng, st, recv, meth, e, recv_expr):
    if isinstance(recv.ty, TOpt) and not isinstance(recv, E.Ref):
        # method call on an Optional value: Python raises AttributeError on None, so "not None" is an obligation
        eng.oblige(st, f"receiver_not_none@{e.lineno}", z3.Not(recv.ty.is_none(recv.t)), e.lineno, kind="safety")
        recv = Val(recv.ty.elem, recv.ty.val(recv.t))
        unwrapped = True
    else:
        unwrapped = False
    args = [eng.ev(a, st) for a in e.args]
    kw = {k.arg: eng.ev(k.value, st) for k in e.keywords}
    if isinstance(recv, E.Ref):
        c = eng.reg.lookup_method(recv.ty.cls, meth)
        if c is not None:
            return apply_contract(eng, st, c, args, kw, e, arg_exprs=e.args,
                                  kw_exprs={k.arg: k.value for k in e.keywords}, recv=recv, recv_expr=recv_expr)
        return eng.reg.model_for(recv).method(eng, st, recv, meth, args, kw, e)
    ty = recv.ty
    h = _METHODS.get((type(ty).__name__, meth))
    if h is None and isinstance(ty, TEmpty):
        h = _METHODS.get(("TEmpty:" + ty.kind, meth))
    if h is not None:
        ret, new_self = h(eng, st, recv, args, kw, e)
        if new_self is not None:
            eng.assign(recv_expr, new_self, st)
        return ret
    m = eng.reg.model_for(recv)
    if m is not None:
        return m.method(eng, st, recv, meth, args, kw, e, recv_expr)
    raise OutOfSubset(f"method .{meth}() on {ty} at line {e.lineno}")


def _m_space_items(eng, st, r, a, kw, e):
    return E._SpaceKeysIter(r, items=True) if False else _ItemsView(r), None


class _ItemsView(E._SpaceKeysIter):
    """space.items(): iterable of (key, value); also supports `<=` against another items view / set union."""

    def __init__(self, coll):
        super().__init__(coll, items=True)
        self.space = coll


def _m_space_keys(eng, st, r, a, kw, e):
    return E._SpaceKeysIter(r), None


def _m_space_copy(eng, st, r, a, kw, e):
    return r, None


def _m_space_update(eng, st, r, a, kw, e):
    o = eng.coerce(a[0], TSpace, st)
    from . import theory as _T
    return NONE, Val(TSpace, _T.union(r.t, o.t))


def _m_list_append(eng, st, r, a, kw, e):
    x = a[0]
    if isinstance(x, E._PyTuple):
        x = eng.coerce(x, r.ty.elem, st) if isinstance(r.ty, TList) else eng.tuple_val(x, st)
    if isinstance(r.ty, TEmpty):
        ty = TList(x.ty)
        r = ty.empty()
    ty = r.ty
    x = eng.coerce(x, ty.elem, st)
    n = ty.len(r.t)
    return NONE, Val(ty, ty.mk(n + 1, z3.Store(ty.at(r.t), n, x.t)))


def _m_list_pop(eng, st, r, a, kw, e):
    ty = r.ty
    if a:
        raise OutOfSubset("list.pop(i)")
    n = ty.len(r.t)
    eng.oblige(st, f"pop_nonempty@{e.lineno}", n > 0, e.lineno, kind="safety")
    new = Val(ty, ty.mk(n - 1, ty.at(r.t)))
    from . import theory as _T
    for f in _T.pop_facts(ty, r.t, new.t):
        st.assume(f)
    return Val(ty.elem, ty.at(r.t)[n - 1]), new


def _m_list_remove(eng, st, r, a, kw, e):
    """list.remove(x): one occurrence of x disappears, every other element stays (order irrelevant for the uses in scope)"""
    ty = r.ty
    x = eng.coerce(a[0], ty.elem, st)
    new = ty.fresh("removed")
    st.assume(ty.len(new.t) == ty.len(r.t) - 1)
    facts = eng.reg._hook("list_remove_facts", eng, st, ty, r.t, new.t, x.t, e)
    if facts is None:
        raise OutOfSubset(f"list.remove on {ty}")
    return NONE, new


def _m_set_add(eng, st, r, a, kw, e):
    x = a[0]
    if isinstance(r.ty, TEmpty):
        r = TSet(x.ty).empty()
    x = eng.coerce(x, r.ty.elem, st)
    return NONE, Val(r.ty, z3.Store(r.t, x.t, True))


def _m_set_remove(eng, st, r, a, kw, e):
    x = eng.coerce(a[0], r.ty.elem, st)
    eng.oblige(st, f"remove_present@{e.lineno}", r.t[x.t], e.lineno, kind="safety")
    return NONE, Val(r.ty, z3.Store(r.t, x.t, False))


def _m_set_discard(eng, st, r, a, kw, e):
    if isinstance(a[0].ty, TOpt) and a[0].ty.elem == r.ty.elem:
        # discard(None) on a set of non-None elements is a no-op
        o = a[0]
        return NONE, Val(r.ty, z3.If(o.ty.is_none(o.t), r.t, z3.Store(r.t, o.ty.val(o.t), False)))
    if a[0].ty == TNoneLit:
        return NONE, r
    x = eng.coerce(a[0], r.ty.elem, st)
    return NONE, Val(r.ty, z3.Store(r.t, x.t, False))


def _m_dict_get(eng, st, r, a, kw, e):
    """d.get(k) / d.get(k, default): Optional value (None when absent and no default is given)"""
    k = eng.coerce(a[0], r.ty.key, st)
    present = r.ty.dom(r.t)[k.t]
    val = r.ty.vals(r.t)[k.t]
    if len(a) == 1:
        ot = TOpt(r.ty.val)
        return Val(ot, z3.If(present, ot.some(val), ot.none().t)), None
    d = eng.coerce(a[1], r.ty.val, st)
    return Val(r.ty.val, z3.If(present, val, d.t)), None


def _m_set_union(eng, st, r, a, kw, e):
    o = a[0]
    if isinstance(o.ty, TEmpty):
        return r, None
    k = z3.Const(fresh_name("k"), r.ty.elem.sort())
    return Val(r.ty, z3.Lambda([k], z3.Or(r.t[k], o.t[k]))), None


def _m_dict_items(eng, st, r, a, kw, e):
    return E._DictKeysIter(r, items=True), None


def _m_dict_keys(eng, st, r, a, kw, e):
    return E._DictKeysIter(r), None


def _m_copy(eng, st, r, a, kw, e):
    return r, None


_METHODS = {
    ("_TSpace", "items"): _m_space_items,
    ("_TSpace", "keys"): _m_space_keys,
    ("_TSpace", "copy"): _m_space_copy,
    ("_TSpace", "update"): _m_space_update,
    ("TList", "append"): _m_list_append,
    ("TEmpty:list", "append"): _m_list_append,
    ("TList", "pop"): _m_list_pop,
    ("TList", "remove"): _m_list_remove,
    ("TList", "copy"): _m_copy,
    ("TSet", "add"): _m_set_add,
    ("TEmpty:set", "add"): _m_set_add,
    ("TSet", "remove"): _m_set_remove,
    ("TSet", "discard"): _m_set_discard,
    ("TSet", "union"): _m_set_union,
    ("TSet", "copy"): _m_copy,
    ("TDict", "items"): _m_dict_items,
    ("TDict", "get"): _m_dict_get,
    ("TDict", "keys"): _m_dict_keys,
    ("TDict", "copy"): _m_copy,
}


# ---------------------------------------------------------------------------- builtins
def _b_len(eng, e, st):
    v = eng.ev(e.args[0], st)
    ty = v.ty
    if isinstance(ty, TList):
        return vint(ty.len(v.t))
    if isinstance(ty, TEmpty):
        return vint(0)
    r = eng.reg.size_of(eng, st, v, e)
    if r is not None:
        return r
    raise OutOfSubset(f"len() of {ty}")


def _b_set(eng, e, st):
    if not e.args:
        return Val(TEmpty("set"), None)
    v = eng.ev(e.args[0], st)
    if isinstance(v.ty, TSet):
        return v
    if isinstance(v.ty, TEmpty):
        return Val(TEmpty("set"), None)
    if v.ty == TSpace:   # set(space) = key set
        k = z3.Const(fresh_name("k"), Name)
        return Val(TSet(TName), z3.Lambda([k], indom(v.t, k)))
    if isinstance(v.ty, TList):
        ty = v.ty
        k = z3.Const(fresh_name("k"), ty.elem.sort())
        i = z3.Int(fresh_name("i"))
        return Val(TSet(ty.elem), z3.Lambda([k], z3.Exists([i], z3.And(0 <= i, i < ty.len(v.t), ty.at(v.t)[i] == k))))
    if isinstance(v, E._SpaceKeysIter) and not v.items:
        k = z3.Const(fresh_name("k"), Name)
        return Val(TSet(TName), z3.Lambda([k], indom(v.coll.t, k)))
    r = eng.reg.to_set(eng, st, v, e)
    if r is not None:
        return r
    raise OutOfSubset(f"set() of {v.ty}")


def _b_list(eng, e, st):
    if not e.args:
        return Val(TEmpty("list"), None)
    v = eng.ev(e.args[0], st)
    if isinstance(v.ty, TList):
        return v
    r = eng.reg.to_list(eng, st, v, e)
    if r is not None:
        return r
    raise OutOfSubset(f"list() of {v.ty}")


def _b_copy(eng, e, st):
    return eng.ev(e.args[0], st)


def _b_range(eng, e, st):
    a = [eng.ev(x, st) for x in e.args]
    if len(a) == 1:
        return E._RangeIter(z3.IntVal(0), a[0].t)
    if len(a) == 2:
        return E._RangeIter(a[0].t, a[1].t)
    raise OutOfSubset("range with step")


def _b_enumerate(eng, e, st):
    v = eng.ev(e.args[0], st)
    if isinstance(v.ty, TList):
        return E._ListIter(v, enumerate_from=z3.IntVal(0))
    r = eng.reg.enumerate(eng, st, v, e)
    if r is not None:
        return r
    raise OutOfSubset(f"enumerate of {v.ty}")


def _b_int(eng, e, st):
    v = eng.ev(e.args[0], st)
    if v.ty == TInt:
        return v
    if v.ty == TBool:
        return vint(z3.If(v.t, 1, 0))
    r = eng.reg.to_int(eng, st, v, e)
    if r is not None:
        return r
    raise OutOfSubset(f"int() of {v.ty}")


def _b_bool(eng, e, st):
    return vbool(eng.truth(eng.ev(e.args[0], st)))


def _b_str(eng, e, st):
    v = eng.ev(e.args[0], st)
    if v.ty == TName or (isinstance(v.ty, TObj) and v.ty.name == "PNode"):
        return v
    return E._StrLit("<str>")


def _b_max(eng, e, st):
    a = [eng.ev(x, st) for x in e.args]
    if len(a) == 2 and a[0].ty == TInt and a[1].ty == TInt:
        return vint(z3.If(a[0].t >= a[1].t, a[0].t, a[1].t))
    raise OutOfSubset("max()")


def _b_min(eng, e, st):
    a = [eng.ev(x, st) for x in e.args]
    if len(a) == 2 and a[0].ty == TInt and a[1].ty == TInt:
        return vint(z3.If(a[0].t <= a[1].t, a[0].t, a[1].t))
    raise OutOfSubset("min()")


def _b_print(eng, e, st):
    return NONE


def _b_isinstance(eng, e, st):
    v = eng.ev(e.args[0], st)
    r = eng.reg.isinstance(eng, st, v, e.args[1])
    if r is not None:
        return r
    raise OutOfSubset("isinstance")


def _b_sorted(eng, e, st):
    v = eng.ev(e.args[0], st)
    kw = {k.arg: k.value for k in e.keywords}
    r = eng.reg.sorted(eng, st, v, kw, e)
    if r is not None:
        return r
    raise OutOfSubset(f"sorted() of {v.ty}")


def _b_anyall(which):
    def f(eng, e, st):
        g = e.args[0]
        if isinstance(g, ast.GeneratorExp) or isinstance(g, ast.ListComp):
            from . import comprehensions
            return comprehensions.quantify(eng, g, st, which)
        raise OutOfSubset(f"{which}() of a non-generator")
    return f


_BUILTINS = {
    "len": _b_len, "set": _b_set, "list": _b_list, "copy": _b_copy, "range": _b_range,
    "enumerate": _b_enumerate, "int": _b_int, "bool": _b_bool, "str": _b_str, "max": _b_max, "min": _b_min,
    "print": _b_print, "isinstance": _b_isinstance, "sorted": _b_sorted,
    "any": _b_anyall("any"), "all": _b_anyall("all"),
}
