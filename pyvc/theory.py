"""Specification vocabulary (DESIGN.md section 2): sorts, opaque spec functions, and the lemma
instances contracts may use.  Spec functions are *uninterpreted* for the code-level VCs; what is
known about them comes only from (a) definitional axioms listed in AXIOMS (kept tiny, quantifier
patterns chosen so that queries stay fast) and (b) explicit lemma instances requested by a
contract (`use lemma`), each of which is an instance of a named lemma of DESIGN.md section 3
(proved in /verif/lean where stated, cited otherwise; see LEMMAS for the status of each).
"""
from __future__ import annotations
import z3
from .vtypes import *

State = z3.ArraySort(Name, B)          # total valuation of all names (only vars(N) matter)
SpaceS = z3.ArraySort(Name, I)

Net = z3.DeclareSort("Net")            # semantics of a Boolean network: vars(N), upd(N, v, x)
Bdd = z3.DeclareSort("Bdd")            # a Boolean function over states

isvar = z3.Function("isvar", Net, Name, B)
upd = z3.Function("upd", Net, Name, State, B)
sem = z3.Function("sem", Bdd, State, B)
updbdd = z3.Function("updbdd", Net, Name, Bdd)     # the BDD AEON builds for the update function of v

# --- space / state helpers (macros, not uninterpreted)


_KB = z3.Const("k!b", Name)   # fixed bound-variable name: equal macros yield syntactically equal formulas


def ov(x, s):
    """state x overridden by the fixed values of space s"""
    k = z3.Const(fresh_name("k"), Name)
    return z3.Lambda([k], z3.If(s[k] >= 0, s[k] == 1, x[k]))


def in_space(x, s):
    k = z3.Const(fresh_name("k"), Name)
    return z3.ForAll([k], z3.Implies(s[k] >= 0, x[k] == (s[k] == 1)))


def subspace(a, b):
    """a ⊑ b : a fixes everything b fixes, to the same value"""
    return z3.ForAll([_KB], z3.Implies(b[_KB] >= 0, a[_KB] == b[_KB]))


_KU = z3.Const("k!u", Name)


DictUnion = z3.Function("dict_union", z3.ArraySort(Name, I), z3.ArraySort(Name, I), z3.ArraySort(Name, I))
_ua, _ub = z3.Const("a!u", z3.ArraySort(Name, I)), z3.Const("b!u", z3.ArraySort(Name, I))
AX_UNION = [z3.ForAll([_ua, _ub, _KU], DictUnion(_ua, _ub)[_KU] == z3.If(_ub[_KU] >= 0, _ub[_KU], _ua[_KU]),
                      patterns=[DictUnion(_ua, _ub)[_KU]])]


def union(a, b):
    """dict union a | b (values of b win): an uninterpreted function with its pointwise definition as an axiom, so that
    congruence (equal arguments => equal unions) and pointwise reasoning are both available"""
    return DictUnion(a, b)


def extends(big, small):
    """as partial maps: big ⊇ small"""
    return subspace(big, small)


def space_eq(a, b):
    """dict equality of two spaces (the formula Python's == on BooleanSpace denotes)"""
    return z3.ForAll([_KB], z3.If(a[_KB] >= 0, a[_KB], -1) == z3.If(b[_KB] >= 0, b[_KB], -1))


def space_eq_is_identity(a, b):
    """well-formed spaces that are equal as dicts are the same value (extensionality of the representation)"""
    return z3.Implies(z3.And(space_eq(a, b), wf_space(a), wf_space(b)), a == b)


def wf_space(s):
    return z3.ForAll([_KB], z3.And(s[_KB] >= -1, s[_KB] <= 1))


def dom_within(s, N):
    return z3.ForAll([_KB], z3.Implies(s[_KB] >= 0, isvar(N, _KB)))


# --- three-valued evaluation of a function on a space (opaque; defined by two axioms)
EvalOn = z3.Function("EvalOn", Bdd, SpaceS, I)      # 1 / 0 / -1 (undetermined)

_f, _s = z3.Const("f!ax", Bdd), z3.Const("s!ax", SpaceS)
AX_EVALON_RANGE = z3.ForAll([_f, _s], z3.And(EvalOn(_f, _s) >= -1, EvalOn(_f, _s) <= 1), patterns=[EvalOn(_f, _s)])
# Meaning (not given to the solver; this is what the assumed AEON contracts and the Lean lemmas refer to):
#   EvalOn(f,s) = 1 iff f is true on every state of s ; = 0 iff f is false on every state of s ; else -1.

# --- percolation (least fixed point of value propagation that keeps the given values): opaque
Perc = z3.Function("Perc", Net, SpaceS, SpaceS)
PercStrictLFP = z3.Function("PercStrictLFP", Net, SpaceS, SpaceS)   # closure of `space` under propagation of non-constant functions


def nonconst(N, v):
    """v is a variable whose update BDD is neither constant true nor constant false"""
    e = z3.K(Name, z3.IntVal(-1))
    return z3.And(isvar(N, v), EvalOn(updbdd(N, v), e) == -1)


# ------------------------------------------------------------------ lemma instances
LEMMAS = {
    "L1.evalon_monotone": "EvalOn(f, s) = b >= 0 and t ⊑ s (t fixes more)  ==>  EvalOn(f, t) = b   [Lean: Biobalm/Percolation.lean evalOn_mono]",
    "L1.strict_lfp_extends": "PercStrictLFP(N,S) ⊇ S as partial maps   [definition of the LFP; Lean: strictLfp_extends]",
    "L1.strict_lfp_closed": "v non-constant, EvalOn(updbdd v, LFP) = b >= 0, not (v in dom S and S[v] != b)  ==>  LFP[v] = b   [Lean: strictLfp_closed]",
    "L1.strict_lfp_least": "S ⊆ T, T closed under strict propagation from S, T only assigns forced values ==> LFP ⊆ T   [Lean: strictLfp_least]",
    "L1.strict_lfp_sound": "v in dom LFP \\ dom S ==> v non-constant and EvalOn(updbdd v, LFP) = LFP[v]   [Lean: strictLfp_sound]",
}


def lemma_evalon_monotone(f, s, t):
    """instance of L1.evalon_monotone"""
    return z3.Implies(z3.And(EvalOn(f, s) >= 0, subspace(t, s)), EvalOn(f, t) == EvalOn(f, s))


def lemma_evalon_monotone_all(N, s, t):
    """L1.evalon_monotone for the update function of every variable: t ⊑ s ==> for all v ..."""
    v = z3.Const("v!m", Name)
    return z3.Implies(subspace(t, s),
                      z3.ForAll([v], z3.Implies(EvalOn(updbdd(N, v), s) >= 0,
                                                EvalOn(updbdd(N, v), t) == EvalOn(updbdd(N, v), s)),
                                patterns=[EvalOn(updbdd(N, v), s)]))


# ====================================================================== succession-diagram vocabulary
SpaceSet = z3.ArraySort(SpaceS, B)
card = z3.Function("card", SpaceS, I)                  # number of fixed variables of a space (len(dict))
nvars = z3.Function("nvars", Net, I)                   # network.variable_count()
SKey = z3.Function("SKey", Net, SpaceS, I)             # space_unique_key(space, network)
IsTrap = z3.Function("IsTrap", Net, SpaceS, B)
MaxTrapSet = z3.Function("MaxTrapSet", Net, SpaceS, B, SpaceSet)   # maximal trap spaces strictly inside S (root flag: fixing all sources)
MinTrapSet = z3.Function("MinTrapSet", Net, SpaceS, SpaceSet)      # minimal trap spaces inside S
ListSpace = TList(TSpace)
SortedEnum = z3.Function("SortedEnum", Net, SpaceSet, ListSpace.sort())   # the elements of a finite set of spaces in ascending SKey order
SortByKey = z3.Function("SortByKey", Net, ListSpace.sort(), ListSpace.sort())

AX_CARD = z3.ForAll([_s], card(_s) >= 0, patterns=[card(_s)])

LEMMAS.update({
    "def.array_extensionality": "two arrays are equal or differ at some index   [valid in the SMT theory of arrays; used as an instantiation hint only]",
    "L10.key_injective": "SKey(N,a) = SKey(N,b), a and b well-formed spaces over vars(N)  ==>  a = b   [Lean: Biobalm/Key.lean key_injective; base-4 digit lemma]",
    "L10.sorted_enum_unique": "l enumerates the finite set X without repetition  ==>  SortByKey(N,l) = SortedEnum(N,X)   [consequence of key_injective: a strict total order has a unique sorted enumeration]",
    "L2.perc_trap": "IsTrap(N,M) ==> IsTrap(N,Perc(N,M)) and Perc(N,M) ⊑ M and Perc(N,Perc(N,M)) = Perc(N,M)   [Lean: Biobalm/Percolation.lean]",
    "L3.full_space_is_fixed_point": "a trap space fixing every variable has no trap space strictly inside it   [trivial]",
})

# ---------------------------------------------------------------------- Petri nets and the solver (opaque)
PNS = z3.DeclareSort("PetriNet")
Encodes = z3.Function("Encodes", PNS, Net, SpaceS, B)     # pn encodes the dynamics of N on the variables free in S (DESIGN.md section 2)
SrcSet = z3.ArraySort(Name, B)
IsSource = z3.Function("IsSource", Net, Name, B)          # upd(N, v, x) = x[v]
AvoidSig = z3.DeclareSort("AvoidSig")                     # abstract value of an avoid list (set of spaces)
# TrapSol(pn, problem(0=min,1=max,2=fix), reverse, ensure, avoid, sources) : the exact solution set of section 6.3
TrapSol = z3.Function("TrapSol", PNS, I, B, SpaceS, AvoidSig, SrcSet, SpaceSet)
IsEnum = z3.Function("IsEnum", ListSpace.sort(), SpaceSet, B)   # list enumerates the set, each element once
no_avoid = z3.Const("no_avoid", AvoidSig)
PROBLEM = {"min": 0, "max": 1, "fix": 2}

LEMMAS.update({
    "L4+L5.max_traps_global": "Encodes(pn,N,{}) , S Perc-closed trap space of N, l enumerates TrapSol(pn,max,fwd,ensure=S,no avoid,src) , src = sources(N) if root else {}  ==>  SortByKey(N,l) = SortedEnum(N, MaxTrapSet(N,S,root))   [siphon/trap-space correspondence L4 (Lean, siphon direction) + key order L10]",
    "L4+L5.max_traps_restricted": "Encodes(p,N,S), l enumerates TrapSol(p,max,fwd,{},no avoid,src), l' = [s | S for s in l]  ==>  SortByKey(N,l') = SortedEnum(N, MaxTrapSet(N,S,root))   [L4 + restriction lemma L5]",
    "L2.max_trap_facts": "M in MaxTrapSet(N,S,r), S a Perc-closed trap space  ==>  M well-formed over vars(N), IsTrap(N,M), Perc(N,M) fixes strictly more variables than S, Perc(N,M) is a Perc-closed trap space   [definition + L2]",
    "L3.no_max_trap_in_fixed_point": "card(S) = nvars(N), S over vars(N)  ==>  MaxTrapSet(N,S,r) is empty   [a space fixing everything has no proper subspace]",
})


_CI = z3.Int("ci!")


def map_union(l, S):
    """the term of `[s | S for s in l]` for a list term l"""
    return ListSpace.mk(ListSpace.len(l), z3.Lambda([_CI], union(ListSpace.at(l)[_CI], S)))


# ---------------------------------------------------------------------- list membership (definitional axioms)
ListInt = TList(TInt)
MemI = z3.Function("MemI", ListInt.sort(), I, B)          # MemI(l, x)  :=  exists k. 0 <= k < len(l) and l[k] = x
idxof = z3.Function("idxofI", ListInt.sort(), I, I)       # skolem witness of the definition
_li, _xi, _ni, _ai, _si = z3.Const("l!m", ListInt.sort()), z3.Int("x!m"), z3.Int("n!m"), z3.Const("a!m", z3.ArraySort(I, I)), z3.Int("s!m")
_ki = z3.Int("k!m")
AX_MEM = [
    # elimination: a member has a position
    z3.ForAll([_li, _xi], z3.Implies(MemI(_li, _xi), z3.And(0 <= idxof(_li, _xi), idxof(_li, _xi) < ListInt.len(_li),
                                                             ListInt.at(_li)[idxof(_li, _xi)] == _xi)), patterns=[MemI(_li, _xi)]),
    # introduction: every position holds a member
    z3.ForAll([_li, _ki], z3.Implies(z3.And(0 <= _ki, _ki < ListInt.len(_li)), MemI(_li, ListInt.at(_li)[_ki])),
              patterns=[ListInt.at(_li)[_ki]]),
    # append (consequence of the definition)
    z3.ForAll([_ni, _ai, _si, _xi], z3.Implies(_ni >= 0, MemI(ListInt.mk(_ni + 1, z3.Store(_ai, _ni, _si)), _xi) ==
                                               z3.Or(MemI(ListInt.mk(_ni, _ai), _xi), _xi == _si)),
              patterns=[MemI(ListInt.mk(_ni + 1, z3.Store(_ai, _ni, _si)), _xi)]),
    # the empty list has no member
    z3.ForAll([_li, _xi], z3.Implies(ListInt.len(_li) <= 0, z3.Not(MemI(_li, _xi))), patterns=[MemI(_li, _xi)]),
]
LEMMAS["def.MemI"] = "list membership: definitional axioms (elimination with a skolem position, introduction, append, empty)"


# ---------------------------------------------------------------------- base-4 keys (space_unique_key)
digit4 = z3.Function("digit4", I, I, I)              # digit4(n, i): the i-th base-4 digit of the natural number n
lor_shl = z3.Function("lor_shl", I, I, I, I)         # n | (d << sh)
vidx = z3.Function("vidx", Net, Name, I)             # index of a variable in the network (int(VariableId))
_n4, _d4, _sh4, _i4 = z3.Int("n!4"), z3.Int("d!4"), z3.Int("sh!4"), z3.Int("i!4")
AX_KEY = [
    # L10.digit_lor_shift (Lean: Biobalm/Key.lean digit_lor_shift): setting an empty digit
    z3.ForAll([_n4, _d4, _sh4, _i4], z3.Implies(
        z3.And(_n4 >= 0, 0 <= _d4, _d4 < 4, _sh4 >= 0, _sh4 % 2 == 0, digit4(_n4, _sh4 / 2) == 0, _i4 >= 0),
        z3.And(lor_shl(_n4, _d4, _sh4) >= 0,
               digit4(lor_shl(_n4, _d4, _sh4), _i4) == z3.If(_i4 == _sh4 / 2, _d4, digit4(_n4, _i4)))),
        patterns=[digit4(lor_shl(_n4, _d4, _sh4), _i4)]),
    z3.ForAll([_n4, _d4, _sh4], z3.Implies(z3.And(_n4 >= 0, 0 <= _d4, _sh4 >= 0), lor_shl(_n4, _d4, _sh4) >= 0),
              patterns=[lor_shl(_n4, _d4, _sh4)]),
    z3.ForAll([_i4], digit4(0, _i4) == 0, patterns=[digit4(0, _i4)]),
]
LEMMAS.update({
    "L10.digit_lor_shift": "n >= 0, d < 4, digit sh/2 of n is 0  ==>  n | (d << sh) has digit sh/2 = d and all other digits unchanged   [Lean: Biobalm/Key.lean digit_lor_shift]",
    "L10.digits_determine_number": "two naturals with equal base-4 digits are equal   [Lean: Biobalm/Key.lean (Nat.eq_of_testBit_eq)]",
    "def.SKey": "SKey(N,S) is the natural number whose digit vidx(N,v) is S[v]+2 for v in dom S and 0 elsewhere (definition; keyFold_eq_keyOf in Lean)",
})


def skey_def(N, S):
    v = z3.Const("v!k", Name)
    i = z3.Int("i!k")
    return z3.And(SKey(N, S) >= 0,
                  z3.ForAll([v], z3.Implies(isvar(N, v), digit4(SKey(N, S), vidx(N, v)) == z3.If(S[v] >= 0, S[v] + 2, 0))),
                  z3.ForAll([i], z3.Implies(z3.And(i >= 0, z3.ForAll([v], z3.Implies(isvar(N, v), vidx(N, v) != i))),
                                            digit4(SKey(N, S), i) == 0)))


def digits_ext(a, b):
    i = z3.Int("i!x")
    return z3.Implies(z3.And(a >= 0, b >= 0, z3.ForAll([i], z3.Implies(i >= 0, digit4(a, i) == digit4(b, i)))), a == b)


def vidx_facts(N):
    v, w = z3.Const("v!i", Name), z3.Const("w!i", Name)
    return z3.And(z3.ForAll([v], z3.Implies(isvar(N, v), vidx(N, v) >= 0)),
                  z3.ForAll([v, w], z3.Implies(z3.And(isvar(N, v), isvar(N, w), vidx(N, v) == vidx(N, w)), v == w)))


# ---------------------------------------------------------------------- restriction of (opaque) Petri nets
RestrictPN = z3.Function("RestrictPN", PNS, SpaceS, PNS)    # value of restrict_petrinet_to_subspace (graph-level contract in contracts/petri_net.py)
EmptyPN = z3.Const("EmptyPN", PNS)                          # networkx.DiGraph()
LEMMAS.update({
    "L5.restrict_composes": "for T fixing at least what S fixes (T ⊑ S): RestrictPN(RestrictPN(p,S),T) = RestrictPN(p,T)   "
                            "[consequence of the node/edge characterisation proved for restrict_petrinet_to_subspace: deletion sets only grow]",
    "L5.restrict_encodes": "Encodes(p,N,{}) and S a trap space over vars(N)  ==>  Encodes(RestrictPN(p,S),N,S)   [cited; bounded validation (C10)]",
    "L5.empty_encodes": "card(S) = nvars(N)  ==>  the empty net encodes N on S (no free variable)   [trivial]",
})


def lemma_restrict(p, N, S, parentS=None):
    """instances of L5 for one node space S (and optionally the space of the node whose cached net is re-used)"""
    E0 = z3.K(Name, z3.IntVal(-1))
    cl = [z3.Implies(Encodes(p, N, E0), Encodes(RestrictPN(p, S), N, S))]
    if parentS is not None:
        cl.append(z3.Implies(subspace(S, parentS), RestrictPN(RestrictPN(p, parentS), S) == RestrictPN(p, S)))
    return z3.And(cl)


def map_union_l(S, l):
    """the term of `[S | x for x in l]` (values of x win)"""
    return ListSpace.mk(ListSpace.len(l), z3.Lambda([_CI], union(S, ListSpace.at(l)[_CI])))


LEMMAS.update({
    "L4+L5.min_traps_restricted": "p = RestrictPN(pn,S), Encodes(pn,N,{}), l enumerates TrapSol(p,min,fwd,{},no avoid,*)  ==>  [S | x for x in l] enumerates MinTrapSet(N,S)",
    "L3.min_trap_facts": "M in MinTrapSet(N,S), S a Perc-closed trap space  ==>  M well-formed over vars(N), IsTrap, Perc(N,M) = M, M ⊑ S, M = S or M fixes strictly more than S, "
                         "M = S only if it is the only element, and no trap space lies strictly inside M (NormSig(N,M,r) = empty)   [Lean: Trap.lean IsMinTrap.*, exists_minTrap]",
    "def.SkipOK": "SkipOK(N,S,sig) holds when sig is the attachment signature of an enumeration of MinTrapSet(N,S) (definition; introduction rule with witness list)",
})


# ---------------------------------------------------------------------- percolated networks (opaque objects)
BNS = z3.DeclareSort("BooleanNetwork")
PercNetObj = z3.Function("PercNetObj", BNS, SpaceS, BNS)      # percolate_network(bn, S, graph, remove_constants=True)
EmptyBN = z3.Const("EmptyBN", BNS)                            # BooleanNetwork()
PNOfNet = z3.Function("PNOfNet", BNS, PNS)                    # network_to_petrinet(bn)
LEMMAS.update({
    "L5.percolated_network_encodes": "bn' = percolate_network(bn, S, remove_constants=True) for a Perc-closed trap space S  ==>  "
                                     "network_to_petrinet(bn') encodes N on S: Encodes(PNOfNet(bn'), N, S)   [AEON inline_constants / infer_valid_graph assumed; bounded validation (C10)]",
})
FoldSigF = None

def card_order(a, b):
    """instance of def.card for the pair (a, b)"""
    return z3.Implies(z3.And(subspace(a, b), wf_space(a), wf_space(b)),
                      z3.And(card(a) >= card(b), z3.Implies(card(a) == card(b), a == b)))


_vc = z3.Const("v!card", Name)
AX_CARD0 = z3.ForAll([_s], (card(_s) == 0) == z3.ForAll([_vc], _s[_vc] < 0), patterns=[card(_s)])
LEMMAS["def.card(zero)"] = "card(S) = 0 iff S fixes no variable (len(dict) == 0 iff the dict is empty)"
LEMMAS["def.card"] = "card(S) = number of fixed variables: S ⊑ T implies card(S) >= card(T), with equality only if S = T (finite dom)"


# pop form of list membership, and membership of first components in a list of (int, optional list) pairs (DFS stacks)
StackEntry = TTuple(TInt, TOpt(ListInt))
StackT = TList(StackEntry)
OnStack = z3.Function("OnStack", StackT.sort(), I, B)     # OnStack(stk, x) := exists k. 0 <= k < len and fst(stk[k]) = x
stkidx = z3.Function("stkidx", StackT.sort(), I, I)
_sk, _sa, _se = z3.Const("st!m", StackT.sort()), z3.Const("sa!m", z3.ArraySort(I, StackEntry.sort())), z3.Const("se!m", StackEntry.sort())
AX_STACK = [
    z3.ForAll([_sk, _xi], z3.Implies(OnStack(_sk, _xi), z3.And(0 <= stkidx(_sk, _xi), stkidx(_sk, _xi) < StackT.len(_sk),
                                                                StackEntry.get(StackT.at(_sk)[stkidx(_sk, _xi)], 0) == _xi)),
              patterns=[OnStack(_sk, _xi)]),
    z3.ForAll([_sk, _ki], z3.Implies(z3.And(0 <= _ki, _ki < StackT.len(_sk)), OnStack(_sk, StackEntry.get(StackT.at(_sk)[_ki], 0))),
              patterns=[StackT.at(_sk)[_ki]]),
    z3.ForAll([_ni, _sa, _se, _xi], z3.Implies(_ni >= 0, OnStack(StackT.mk(_ni + 1, z3.Store(_sa, _ni, _se)), _xi) ==
                                               z3.Or(OnStack(StackT.mk(_ni, _sa), _xi), StackEntry.get(_se, 0) == _xi)),
              patterns=[OnStack(StackT.mk(_ni + 1, z3.Store(_sa, _ni, _se)), _xi)]),
    z3.ForAll([_sk, _xi], z3.Implies(StackT.len(_sk) <= 0, z3.Not(OnStack(_sk, _xi))), patterns=[OnStack(_sk, _xi)]),
    # frame: entries below the top are unaffected by writing at / above position n-1 ... expressed through the pop form above
]
LEMMAS["def.OnStack"] = "membership of a node among the first components of the DFS stack: definitional axioms (elimination, introduction, pop form, empty)"


def pop_facts(ty, old, new):
    """facts about list.pop() for the membership predicates (instances of their definitions; no global axiom, to avoid matching loops)"""
    xq = z3.Int("x!pop")
    if ty == ListInt:
        return [z3.ForAll([xq], MemI(old, xq) == z3.Or(MemI(new, xq), ListInt.at(old)[ListInt.len(old) - 1] == xq))]
    if ty == StackT:
        return [z3.ForAll([xq], OnStack(old, xq) == z3.Or(OnStack(new, xq), StackEntry.get(StackT.at(old)[StackT.len(old) - 1], 0) == xq))]
    return []

LEMMAS.update({
    "def.CacheOK": "CacheOK = each present cache field is correct for the node's current successor signature (definition)",
    "L3+L8.cache_consequences": "no candidate => no owned attractor; one candidate in a successor-free trap space => it lies in the only attractor (L3: a trap space contains an attractor; L8: attractors are disjoint); a system of representatives covers",
})


def mem_theory(lty, prefix):
    """membership predicate for lists of type lty with its definitional axioms (elimination / introduction / append / empty)"""
    es = lty.elem.sort()
    Mem = z3.Function(f"Mem_{prefix}", lty.sort(), es, B)
    idx = z3.Function(f"idxof_{prefix}", lty.sort(), es, I)
    l, x, n, a, s_, k = z3.Const(f"l!{prefix}", lty.sort()), z3.Const(f"x!{prefix}", es), z3.Int(f"n!{prefix}"), \
        z3.Const(f"a!{prefix}", z3.ArraySort(I, es)), z3.Const(f"s!{prefix}", es), z3.Int(f"k!{prefix}")
    ax = [
        z3.ForAll([l, x], z3.Implies(Mem(l, x), z3.And(0 <= idx(l, x), idx(l, x) < lty.len(l), lty.at(l)[idx(l, x)] == x)), patterns=[Mem(l, x)]),
        z3.ForAll([l, k], z3.Implies(z3.And(0 <= k, k < lty.len(l)), Mem(l, lty.at(l)[k])), patterns=[lty.at(l)[k]]),
        z3.ForAll([n, a, s_, x], z3.Implies(n >= 0, Mem(lty.mk(n + 1, z3.Store(a, n, s_)), x) == z3.Or(Mem(lty.mk(n, a), x), x == s_)),
                  patterns=[Mem(lty.mk(n + 1, z3.Store(a, n, s_)), x)]),
        z3.ForAll([l, x], z3.Implies(lty.len(l) <= 0, z3.Not(Mem(l, x))), patterns=[Mem(l, x)]),
    ]
    return Mem, ax


LEMMAS.update({
    "def.Mem(first element)": "a non-empty list contains its first element (instance of the introduction rule of list membership)",
    "L2.perc_trap(empty space)": "the space fixing no variable is a well-formed trap space over vars(N) of every network (trivial: nothing can leave the whole state space)",
})

LEMMAS.update({
    "L1.perc_wf": "S well-formed over vars(N)  ==>  Perc(N,S) is well-formed over vars(N)   [Lean: perc_sub / perc_closed]",
    "L1.strict_lfp_extends+closed": "L1.strict_lfp_extends and L1.strict_lfp_closed for the space being percolated (both Lean: strictLfp_extends, strictLfp_closed)",
    "L1.strict_lfp_least+evalon_monotone": "L1.strict_lfp_least (Lean: strictLfp_least) together with L1.evalon_monotone (Lean: evalOn_mono) for the current result",
    "L2.max_trap_facts+L3.no_max_trap_in_fixed_point": "L2.max_trap_facts for every enumerated maximal trap space, and L3.no_max_trap_in_fixed_point (a space fixing every variable has none)",
    "L3.fixed_point_node": "a node whose space fixes every variable contains exactly one state, which is its attractor: the list [space] covers the node (L3, trivial)",
    "L7.empty_nfvs": "no negative feedback vertex in the node's network => every attractor is a fixed point, which lies in a successor when the node has one (L7, cited: Richard 2010)",
    "L4+L5.max_traps_global+restricted": "L4+L5.max_traps_global (call on the global net with ensure = node space) and L4+L5.max_traps_restricted (call on the restricted net)",
    "L4+L5.min_traps_restricted+L3.min_trap_facts": "L4+L5.min_traps_restricted for the call in skip_to_minimal / skip_remaining, and L3.min_trap_facts for every enumerated element",
    "L4+L5.min_traps_of_percolated_root+L3.min_trap_facts": "the same for the percolated network of the root node (expand_minimal_spaces)",
    "L3.min_trap_facts(inside)": "L3.min_trap_facts for those minimal trap spaces of an ancestor space that lie inside the node (a minimal trap space inside S is minimal for S)",
    "L10.key_injective(unique nodes)": "L10.key_injective applied to the spaces of two nodes: equal keys => equal spaces => (I-key) the same node",
    "L5.restrict_composes+restrict_encodes+empty_encodes": "L5.restrict_composes, L5.restrict_encodes and L5.empty_encodes for the node's percolated Petri net",
    "L7.retained_set+def.lift": "L7 (cited: Klarner & Siebert 2015; Richard 2010): every attractor of the node that meets no avoided region contains a deadlock of the "
                                "retained-set-reduced net; def.lift: completing a state of the percolated network with the node's fixed values (definition of CovRed)",
    "L8.fwd_closure_least": "Fwd(g,p) is contained in every set that contains p and is closed under all var_post_out (least-ness of the reachability closure; Lean: Biobalm/Dynamics.lean)",
    "def.AllReachableExpanded": "introduction rule: a set R containing the start node, all of whose members are expanded and closed under the edge relation, witnesses AllReachableExpanded",
    "typing.vertex_sets_of_graph": "every vertex set built from the graph's operations is a subset of its state space, so its cardinality is bounded by the number of states (termination variant)",
})

LEMMAS["L5.full_space_percolates_to_empty_network"] = ("card(S) = nvars(N)  ==>  percolate_network(bn, S, remove_constants=True) has no variables: it is the empty "
                                                       "network (the code returns BooleanNetwork() for such nodes without calling AEON)   [trivial]")

LEMMAS["def.card(bounded)"] = "a well-formed space over vars(N) fixes at most nvars(N) variables (card counts distinct variables of the network)"
