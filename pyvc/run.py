"""Generate and discharge the obligations of functions under contract.

  python3-vt -m pyvc.run [--tier quick|thorough] [--only <qualname-substring>] [--json out.json] [--jobs N]
"""
from __future__ import annotations
import os, argparse, json, sys, time, os, traceback, multiprocessing as mp

from . import extract, solve
from .vtypes import OutOfSubset


def build_registry():
    from .registry import Registry
    from . import externals_aeon
    reg = Registry()
    externals_aeon.install(reg)
    import contracts
    contracts.install_all(reg)
    return reg


def verify_function(qualname, timeout_ms=10000, want_smt2=False, shard=None):
    """Runs in a worker process. Returns a JSON-able dict.  shard = (i, k): generate all obligations of the function but discharge only
    those whose index is i modulo k (functions with many obligations are spread over several processes; the shards are merged)."""
    t0 = time.time()
    out = {"function": qualname, "status": "ok", "obligations": []}
    try:
        reg = build_registry()
        if qualname.startswith("schema:"):
            import z3
            from contracts import sd_inv
            from .engine import Obl
            f = sd_inv.schema_lemmas()[qualname[len("schema:"):]]
            axs = []
            if isinstance(f, tuple):
                f, axs = f
            o = Obl("lemma." + qualname[len("schema:"):], [], f, 0, "lemma")
            out["obligations"].append(solve.check(o, axioms=list(axs), timeout_ms=timeout_ms))
            if z3.is_implies(f):     # anti-vacuity: the hypothesis of the lemma must not be refutable
                cv = Obl("lemma." + qualname[len("schema:"):] + ".cover.hypothesis", [f.arg(0)], z3.BoolVal(True), 0, "cover", expect_sat=True)
                out["obligations"].append(solve.check(cv, axioms=list(axs), timeout_ms=timeout_ms))
            out["source"] = {"function": qualname, "file": "contracts/sd_inv.py (schema lemma proved by SMT)"}
            out["seconds"] = round(time.time() - t0, 3)
            return out
        c = reg.contracts[qualname]
        fn = extract.extract(qualname)
        out["source"] = fn.describe()
        from .engine import Engine
        eng = Engine(fn, c, reg)
        obls = eng.run()
        out["lemmas_used"] = sorted(eng.used_lemmas)
        out["notes"] = list(eng.notes)
        axioms = reg.axioms_for(c) if hasattr(reg, "axioms_for") else []
        out["generated"] = len(obls)
        for idx, o in enumerate(obls):
            if shard is not None and idx % shard[1] != shard[0]:
                continue
            r = solve.check(o, axioms=axioms, timeout_ms=timeout_ms, want_smt2=want_smt2)
            r["index"] = idx
            out["obligations"].append(r)
    except OutOfSubset as ex:
        out["status"] = "out_of_subset"
        out["reason"] = str(ex)
    except (AttributeError, KeyError) as ex:
        # the contract mentions a parameter / local / loop that the current source does not have: the contract no longer applies
        out["status"] = "out_of_subset"
        out["reason"] = f"contract refers to `{ex}` which does not exist in the current source (function restructured): " + "".join(traceback.format_exception(ex))[-300:]
    except Exception as ex:
        out["status"] = "crash"
        out["reason"] = "".join(traceback.format_exception(ex))[-3000:]
    out["seconds"] = round(time.time() - t0, 3)
    return out


def _worker(args):
    return verify_function(*args)


def _proc_main(conn, args):
    try:
        conn.send(verify_function(*args))
    except Exception as ex:        # pragma: no cover
        conn.send({"function": args[0], "status": "crash", "reason": repr(ex), "obligations": [], "seconds": 0})
    finally:
        conn.close()


def run(qualnames, jobs=16, timeout_ms=10000, want_smt2=False, function_deadline_s=None):
    """One process per function, at most `jobs` at a time. A process that exceeds its own deadline (z3 does
    not always honour its timeout) is killed and the function is reported undecided."""
    if function_deadline_s is None:
        function_deadline_s = max(300, 60 * timeout_ms / 1000)
    shards = _shard_plan(qualnames, jobs)
    pending = []
    for q in qualnames:
        k = shards.get(q, 1)
        pending += [(q, (i, k)) for i in range(k)] if k > 1 else [(q, None)]
    # big functions first: they determine the wall-clock time
    pending.sort(key=lambda t: -shards.get(t[0], 1))
    running = {}
    results = {}
    while pending or running:
        while pending and len(running) < jobs:
            q0, sh = pending.pop(0)
            q = (q0, sh)
            parent, child = mp.Pipe(duplex=False)
            p = mp.Process(target=_proc_main, args=(child, (q0, timeout_ms, want_smt2, sh)), daemon=True)
            p.start()
            child.close()
            running[q] = (p, parent, time.time())
        for q, (p, conn, t0) in list(running.items()):
            if conn.poll(0.05):
                try:
                    results[q] = conn.recv()
                except EOFError:
                    results[q] = {"function": q[0], "status": "crash", "reason": "worker died", "obligations": [], "seconds": time.time() - t0}
                p.join(5)
                del running[q]
            elif not p.is_alive():
                results[q] = {"function": q[0], "status": "crash", "reason": "worker exited without a result", "obligations": [], "seconds": time.time() - t0}
                del running[q]
            elif time.time() - t0 > function_deadline_s:
                p.kill()
                results[q] = {"function": q[0], "status": "out_of_subset", "obligations": [], "seconds": function_deadline_s,
                              "reason": f"verification of this function exceeded the {function_deadline_s}s deadline (solver did not return)"}
                del running[q]
    return [_merge_shards(q, [results[k] for k in results if k[0] == q]) for q in qualnames]


def _shard_plan(qualnames, jobs):
    """number of processes per function, from the obligation counts recorded for the unchanged tree (contracts/expected_obligations.json)"""
    import json
    path = os.path.join(os.path.dirname(os.path.dirname(os.path.abspath(__file__))), "contracts", "expected_obligations.json")
    counts = {}
    try:
        for _, per in json.load(open(path)).items():
            for f, n in per.items():
                counts[f] = max(counts.get(f, 0), n)
    except Exception:
        pass
    plan = {}
    for q in qualnames:
        n = counts.get(q, 0)
        if n > 350 and jobs >= 4:
            plan[q] = min(6, 1 + n // 350)
    return plan


def _merge_shards(q, parts):
    if len(parts) == 1:
        return parts[0]
    bad = [p for p in parts if p["status"] != "ok"]
    out = dict(bad[0] if bad else parts[0])
    obls = []
    for p in parts:
        obls += p.get("obligations", [])
    out["obligations"] = sorted(obls, key=lambda o: o.get("index", 0))
    out["seconds"] = round(max(p.get("seconds", 0) for p in parts), 3)
    out["cpu_seconds"] = round(sum(p.get("seconds", 0) for p in parts), 3)
    out["shards"] = len(parts)
    for k in ("lemmas_used", "notes"):
        vals = []
        for p in parts:
            for x in p.get(k, []):
                if x not in vals:
                    vals.append(x)
        out[k] = vals
    return out


def main():
    ap = argparse.ArgumentParser()
    ap.add_argument("--only", default="")
    ap.add_argument("--jobs", type=int, default=16)
    ap.add_argument("--timeout-ms", type=int, default=10000)
    ap.add_argument("--json")
    ap.add_argument("-v", action="store_true")
    a = ap.parse_args()
    reg = build_registry()
    from contracts import sd_inv
    names = [q for q, c in reg.contracts.items() if not c.trusted and a.only in q] + ["schema:" + n for n in sd_inv.schema_lemmas() if a.only in "schema:" + n]
    res = run(names, a.jobs, a.timeout_ms)
    bad = 0
    for r in res:
        cnt = {}
        for o in r["obligations"]:
            cnt[o["status"]] = cnt.get(o["status"], 0) + 1
        print(f"{r['function']}: {r['status']} {cnt} {r['seconds']}s {r.get('reason','')[:300]}")
        for o in r["obligations"]:
            if o["status"] not in ("discharged", "covered") or a.v:
                print(f"    {o['status']:10s} {o['name']}  ({o['seconds']}s) {o.get('reason','')}")
                if o["status"] in ("refuted", "failed") and a.v:
                    print("      " + o.get("model", "").replace("\n", "\n      ")[:1500])
                bad += o["status"] not in ("discharged", "covered")
    if a.json:
        json.dump(res, open(a.json, "w"), indent=1)
    sys.exit(1 if bad else 0)


if __name__ == "__main__":
    main()
