"""Generate and discharge the obligations of functions under contract.

  python3-vt -m pyvc.run [--tier quick|thorough] [--only <qualname-substring>] [--json out.json] [--jobs N]
"""
from __future__ import annotations
import argparse, json, sys, time, os, traceback, multiprocessing as mp

from . import extract, solve
from .vtypes import OutOfSubset


def build_registry():
    from .registry import Registry
    from . import externals_aeon
    reg = Registry()
    externals_aeon.install(reg)
    import contracts
    contracts.install_all(reg)
    return reg


def verify_function(qualname, timeout_ms=10000, want_smt2=False):
    """Runs in a worker process. Returns a JSON-able dict."""
    t0 = time.time()
    out = {"function": qualname, "status": "ok", "obligations": []}
    try:
        reg = build_registry()
        if qualname.startswith("schema:"):
            import z3
            from contracts import sd_inv
            from .engine import Obl
            f = sd_inv.schema_lemmas()[qualname[len("schema:"):]]
            axs = []
            if isinstance(f, tuple):
                f, axs = f
            o = Obl("lemma." + qualname[len("schema:"):], [], f, 0, "lemma")
            out["obligations"].append(solve.check(o, axioms=list(axs), timeout_ms=timeout_ms))
            if z3.is_implies(f):     # anti-vacuity: the hypothesis of the lemma must not be refutable
                cv = Obl("lemma." + qualname[len("schema:"):] + ".cover.hypothesis", [f.arg(0)], z3.BoolVal(True), 0, "cover", expect_sat=True)
                out["obligations"].append(solve.check(cv, axioms=list(axs), timeout_ms=timeout_ms))
            out["source"] = {"function": qualname, "file": "contracts/sd_inv.py (schema lemma proved by SMT)"}
            out["seconds"] = round(time.time() - t0, 3)
            return out
        c = reg.contracts[qualname]
        fn = extract.extract(qualname)
        out["source"] = fn.describe()
        from .engine import Engine
        eng = Engine(fn, c, reg)
        obls = eng.run()
        out["lemmas_used"] = sorted(eng.used_lemmas)
        out["notes"] = list(eng.notes)
        axioms = reg.axioms_for(c) if hasattr(reg, "axioms_for") else []
        for o in obls:
            r = solve.check(o, axioms=axioms, timeout_ms=timeout_ms, want_smt2=want_smt2)
            out["obligations"].append(r)
    except OutOfSubset as ex:
        out["status"] = "out_of_subset"
        out["reason"] = str(ex)
    except (AttributeError, KeyError) as ex:
        # the contract mentions a parameter / local / loop that the current source does not have: the contract no longer applies
        out["status"] = "out_of_subset"
        out["reason"] = f"contract refers to `{ex}` which does not exist in the current source (function restructured): " + "".join(traceback.format_exception(ex))[-300:]
    except Exception as ex:
        out["status"] = "crash"
        out["reason"] = "".join(traceback.format_exception(ex))[-3000:]
    out["seconds"] = round(time.time() - t0, 3)
    return out


def _worker(args):
    return verify_function(*args)


def _proc_main(conn, args):
    try:
        conn.send(verify_function(*args))
    except Exception as ex:        # pragma: no cover
        conn.send({"function": args[0], "status": "crash", "reason": repr(ex), "obligations": [], "seconds": 0})
    finally:
        conn.close()


def run(qualnames, jobs=16, timeout_ms=10000, want_smt2=False, function_deadline_s=None):
    """One process per function, at most `jobs` at a time. A process that exceeds its own deadline (z3 does
    not always honour its timeout) is killed and the function is reported undecided."""
    if function_deadline_s is None:
        function_deadline_s = max(300, 60 * timeout_ms / 1000)
    pending = list(qualnames)
    running = {}
    results = {}
    while pending or running:
        while pending and len(running) < jobs:
            q = pending.pop(0)
            parent, child = mp.Pipe(duplex=False)
            p = mp.Process(target=_proc_main, args=(child, (q, timeout_ms, want_smt2)), daemon=True)
            p.start()
            child.close()
            running[q] = (p, parent, time.time())
        for q, (p, conn, t0) in list(running.items()):
            if conn.poll(0.05):
                try:
                    results[q] = conn.recv()
                except EOFError:
                    results[q] = {"function": q, "status": "crash", "reason": "worker died", "obligations": [], "seconds": time.time() - t0}
                p.join(5)
                del running[q]
            elif not p.is_alive():
                results[q] = {"function": q, "status": "crash", "reason": "worker exited without a result", "obligations": [], "seconds": time.time() - t0}
                del running[q]
            elif time.time() - t0 > function_deadline_s:
                p.kill()
                results[q] = {"function": q, "status": "out_of_subset", "obligations": [], "seconds": function_deadline_s,
                              "reason": f"verification of this function exceeded the {function_deadline_s}s deadline (solver did not return)"}
                del running[q]
    return [results[q] for q in qualnames]


def main():
    ap = argparse.ArgumentParser()
    ap.add_argument("--only", default="")
    ap.add_argument("--jobs", type=int, default=16)
    ap.add_argument("--timeout-ms", type=int, default=10000)
    ap.add_argument("--json")
    ap.add_argument("-v", action="store_true")
    a = ap.parse_args()
    reg = build_registry()
    from contracts import sd_inv
    names = [q for q, c in reg.contracts.items() if not c.trusted and a.only in q] + ["schema:" + n for n in sd_inv.schema_lemmas() if a.only in "schema:" + n]
    res = run(names, a.jobs, a.timeout_ms)
    bad = 0
    for r in res:
        cnt = {}
        for o in r["obligations"]:
            cnt[o["status"]] = cnt.get(o["status"], 0) + 1
        print(f"{r['function']}: {r['status']} {cnt} {r['seconds']}s {r.get('reason','')[:300]}")
        for o in r["obligations"]:
            if o["status"] not in ("discharged", "covered") or a.v:
                print(f"    {o['status']:10s} {o['name']}  ({o['seconds']}s) {o.get('reason','')}")
                if o["status"] in ("refuted", "failed") and a.v:
                    print("      " + o.get("model", "").replace("\n", "\n      ")[:1500])
                bad += o["status"] not in ("discharged", "covered")
    if a.json:
        json.dump(res, open(a.json, "w"), indent=1)
    sys.exit(1 if bad else 0)


if __name__ == "__main__":
    main()
