"""Comprehensions and any()/all() with their mathematical meaning (map / filter / quantifier).

Restrictions (anything else is OutOfSubset): exactly one `for` clause; the iterable is a Space
(keys or items()), a set, a list or a dict; element and condition expressions are pure.
Lists: map keeps order; filter is characterised by a strictly monotone index map (exact)."""
from __future__ import annotations
import ast
import z3
from .vtypes import *
from . import engine as E


def _one_gen(e):
    if len(e.generators) != 1 or e.generators[0].is_async:
        raise OutOfSubset("comprehension with several for-clauses")
    return e.generators[0]


def _bind_elem(eng, st, g, coll):
    """Returns (substate, bound z3 variables, membership condition, element value)."""
    eng.consume(coll, st)
    sub = st.clone()
    if isinstance(coll, E._SpaceKeysIter):
        k = z3.Const(fresh_name("ck"), Name)
        cond = indom(coll.coll.t, k)
        elem = E._PyTuple([Val(TName, k), vint(coll.coll.t[k])]) if coll.items else Val(TName, k)
        eng.assign(g.target, elem, sub)
        return sub, [k], cond, elem, ("space", coll.coll, k)
    ty = coll.ty
    if ty == TSpace:
        k = z3.Const(fresh_name("ck"), Name)
        eng.assign(g.target, Val(TName, k), sub)
        return sub, [k], indom(coll.t, k), Val(TName, k), ("space", coll, k)
    if isinstance(ty, TSet):
        k = z3.Const(fresh_name("ce"), ty.elem.sort())
        eng.assign(g.target, Val(ty.elem, k), sub)
        return sub, [k], coll.t[k], Val(ty.elem, k), ("set", coll, k)
    if isinstance(ty, TList):
        # fixed bound-variable name: a plain map over a list yields a term that spec-level macros
        # (theory.map_union) reproduce syntactically; nested list comprehensions would capture it
        if getattr(eng, "_in_list_comp", False):
            raise OutOfSubset("nested comprehension over lists")
        i = z3.Int("ci!")
        elem = Val(ty.elem, ty.at(coll.t)[i])
        eng.assign(g.target, elem, sub)
        return sub, [i], z3.And(0 <= i, i < ty.len(coll.t)), elem, ("list", coll, i)
    if isinstance(coll, E._DictKeysIter):
        k = z3.Const(fresh_name("ck"), coll.ks)
        kv = Val(coll.coll.ty.key, k)
        elem = E._PyTuple([kv, Val(coll.coll.ty.val, coll.coll.ty.vals(coll.coll.t)[k])]) if coll.items else kv
        eng.assign(g.target, elem, sub)
        return sub, [k], coll.dom[k], elem, ("dict", coll.coll, k)
    if isinstance(ty, TEmpty):
        return None
    r = eng.reg.comprehension_source(eng, st, g, coll)
    if r is not None:
        return r
    raise OutOfSubset(f"comprehension over {ty}")


class _InComprehension:
    """while the element / condition expressions are evaluated: calls must have a pure (functional) view, because what a generic
    contract application assumes about its fresh result would be lost with the sub-state and the result would not depend on the bound variable"""

    def __init__(self, eng):
        self.eng = eng

    def __enter__(self):
        self.eng._comp_depth = getattr(self.eng, "_comp_depth", 0) + 1

    def __exit__(self, *a):
        self.eng._comp_depth -= 1


def _conds(eng, sub, g):
    cs = []
    with _InComprehension(eng):
        for c in g.ifs:
            cs.append(eng.truth(eng.ev(c, sub)))
            eng.narrow(c, sub, True)
    return z3.And(cs) if cs else z3.BoolVal(True)


def quantify(eng, e, st, which):
    g = _one_gen(e)
    coll = eng.ev(g.iter, st)
    b = _bind_elem(eng, st, g, coll)
    if b is None:
        return vbool(which == "all")
    sub, bound, member, elem, _ = b
    n0 = len(eng.obls)
    flt = _conds(eng, sub, g)
    with _InComprehension(eng):
        body = eng.truth(eng.ev(e.elt, sub))
    _requantify_obligations(eng, n0, bound, z3.And(member, flt))
    if which == "any":
        return vbool(z3.Exists(bound, z3.And(member, flt, body)))
    return vbool(z3.ForAll(bound, z3.Implies(z3.And(member, flt), body)))


def _requantify_obligations(eng, n0, bound, guard):
    """Safety obligations raised while evaluating the element expression mention the bound variable;
    they must hold for every element: keep them (the bound variable is a free constant there, which is
    the universally quantified reading) but add the membership guard to their path condition."""
    for o in eng.obls[n0:]:
        o.pc.append(guard)


def evaluate(eng, e, st, kind):
    g = _one_gen(e)
    coll = eng.ev(g.iter, st)
    whole = eng.reg._hook("comprehension_whole", eng, e, st, kind, coll)
    if whole is not None:
        return whole
    b = _bind_elem(eng, st, g, coll)
    if b is None:
        return Val(TEmpty(kind), None)
    sub, bound, member, elem, src = b
    n0 = len(eng.obls)
    flt = _conds(eng, sub, g)
    if kind == "dict":
        with _InComprehension(eng):
            kv, vv = eng.ev(e.key, sub), eng.ev(e.value, sub)
        _requantify_obligations(eng, n0, bound, z3.And(member, flt))
        # supported: key is the bound key itself (filter / value map on a Space)
        if src[0] == "space" and kv.ty == TName and z3.eq(kv.t, src[2]) and vv.ty == TInt:
            k = src[2]
            return Val(TSpace, z3.Lambda([k], z3.If(z3.And(member, flt), vv.t, -1)))
        if src[0] in ("list", "set") and kv.ty == TName and vv.ty == TInt:
            # {f(x): g(x) for x in xs}: characterised pointwise; requires f injective on the source
            res = TSpace.fresh("dcomp")
            k2 = z3.Const(fresh_name("k"), Name)
            st.assume(z3.ForAll(bound, z3.Implies(z3.And(member, flt), res.t[kv.t] == vv.t)))
            st.assume(z3.ForAll([k2], z3.Implies(indom(res.t, k2), z3.Exists(bound, z3.And(member, flt, kv.t == k2)))))
            st.assume(TSpace.wf(res.t))
            return res
        raise OutOfSubset("dict comprehension shape")
    with _InComprehension(eng):
        ev = eng.ev(e.elt, sub)
    if isinstance(ev, E._PyTuple):
        ev = eng.tuple_val(ev, sub)
    _requantify_obligations(eng, n0, bound, z3.And(member, flt))
    if kind == "set":
        ty = TSet(ev.ty)
        res = ty.fresh("scomp")
        x = z3.Const(fresh_name("x"), ev.ty.sort())
        st.assume(z3.ForAll([x], res.t[x] == z3.Exists(bound, z3.And(member, flt, ev.t == x))))
        st.assume(z3.ForAll(bound, z3.Implies(z3.And(member, flt), res.t[ev.t])))
        return res
    # list
    ty = TList(ev.ty)
    if src[0] == "list":
        i = src[2]
        sl = src[1]
        n = sl.ty.len(sl.t)
        if not g.ifs:
            return Val(ty, ty.mk(n, z3.Lambda([i], ev.t)))
        res = ty.fresh("lcomp")
        idx = z3.Function(fresh_name("fidx"), I, I)
        inv = z3.Function(fresh_name("finv"), I, I)
        j, j2 = z3.Int(fresh_name("j")), z3.Int(fresh_name("j"))
        m = ty.len(res.t)
        st.assume(z3.And(m >= 0, m <= n))
        P = lambda ii: z3.substitute(flt, (i, ii))
        F = lambda ii: z3.substitute(ev.t, (i, ii))
        st.assume(z3.ForAll([j], z3.Implies(z3.And(0 <= j, j < m),
                                            z3.And(0 <= idx(j), idx(j) < n, P(idx(j)), ty.at(res.t)[j] == F(idx(j)),
                                                   inv(idx(j)) == j))))
        st.assume(z3.ForAll([j, j2], z3.Implies(z3.And(0 <= j, j < j2, j2 < m), idx(j) < idx(j2))))
        st.assume(z3.ForAll([i], z3.Implies(z3.And(0 <= i, i < n, flt),
                                            z3.And(0 <= inv(i), inv(i) < m, idx(inv(i)) == i))))
        return res
    # list built from an unordered source: order arbitrary, elements exact (a permutation of the image)
    res = ty.fresh("lcomp")
    j = z3.Int(fresh_name("j"))
    m = ty.len(res.t)
    st.assume(m >= 0)
    wit = z3.Function(fresh_name("wit"), I, bound[0].sort())
    pos = z3.Function(fresh_name("pos"), bound[0].sort(), I)
    b0 = bound[0]
    memj = z3.substitute(z3.And(member, flt), (b0, wit(j)))
    evj = z3.substitute(ev.t, (b0, wit(j)))
    st.assume(z3.ForAll([j], z3.Implies(z3.And(0 <= j, j < m), z3.And(memj, ty.at(res.t)[j] == evj, pos(wit(j)) == j))))
    st.assume(z3.ForAll([b0], z3.Implies(z3.And(member, flt), z3.And(0 <= pos(b0), pos(b0) < m, wit(pos(b0)) == b0))))
    return res
