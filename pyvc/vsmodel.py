"""ASSUMED model of AEON's symbolic state sets (ColoredVertexSet / VertexSet) and of the symbolic
transition operators of AsynchronousGraph, as an abstract set algebra (DESIGN.md section 4).

Sort VS; operations Un(a,b), Mi(a,b), In(a,b); predicates Emp(a), Sub(a,b); dynamics PostOut(g,v,a)
(successors of a under variable v that are outside a), PreOut(g,v,a); closures Fwd(g,p) (least set
containing p closed under every PostOut), Bwd(g,a); cardinality vcard.  The axioms below are the
algebraic facts the contracts use; they are the *meaning* of the AEON operations (trusted; exercised by
the bounded conformance sweep) and of reachability (L8)."""
from __future__ import annotations
import z3
from .vtypes import *
from . import engine as E
from . import theory as T
from .registry import ObjModel
from .externals_aeon import TGraph, TBdd, TVarId, TNetObj, net_of

TVS = TObj("VS")
VS = TVS.sort()
G = TGraph.sort()
VID = TVarId.sort()
Un = z3.Function("vs_union", VS, VS, VS)
Mi = z3.Function("vs_minus", VS, VS, VS)
In = z3.Function("vs_inter", VS, VS, VS)
Emp = z3.Function("vs_empty", VS, B)
Sub = z3.Function("vs_subset", VS, VS, B)
EmptyVS = z3.Const("vs_emptyset", VS)
PostOut = z3.Function("var_post_out", G, VID, VS, VS)
PreOut = z3.Function("var_pre_out", G, VID, VS, VS)
Fwd = z3.Function("FwdClosure", G, VS, VS)
Bwd = z3.Function("BwdClosure", G, VS, VS)
SubspaceSet = z3.Function("mk_subspace", G, T.SpaceS, VS)
isvid = z3.Function("is_network_variable", G, VID, B)
vcard = z3.Function("vs_card", VS, I)
vtotal = z3.Function("vs_total", G, I)
symsize = z3.Function("vs_symbolic_size", VS, I)

a, b, c, d = z3.Consts("a!v b!v c!v d!v", VS)
g = z3.Const("g!v", G)
v = z3.Const("v!v", VID)
AX_VS = [
    z3.ForAll([a], Sub(a, a), patterns=[Sub(a, a)]),
    z3.ForAll([a, b], z3.And(Sub(a, Un(a, b)), Sub(b, Un(a, b))), patterns=[Un(a, b)]),
    z3.ForAll([a, b, c], z3.Implies(z3.And(Sub(a, c), Sub(b, c)), Sub(Un(a, b), c)), patterns=[Sub(Un(a, b), c)]),
    z3.ForAll([a, b, c], z3.Implies(z3.And(Sub(a, b), Sub(b, c)), Sub(a, c)), patterns=[z3.MultiPattern(Sub(a, b), Sub(b, c))]),
    z3.ForAll([a, b], Emp(In(a, b)) == Emp(In(b, a)), patterns=[In(a, b)]),
    z3.ForAll([a, b, c, d], z3.Implies(z3.And(Sub(a, b), Sub(c, d), z3.Not(Emp(In(a, c)))), z3.Not(Emp(In(b, d)))),
              patterns=[z3.MultiPattern(Sub(a, b), Sub(c, d), In(a, c), In(b, d))]),
    z3.ForAll([a], z3.And(Emp(In(a, EmptyVS)), Emp(EmptyVS), Sub(EmptyVS, a)), patterns=[In(a, EmptyVS)]),
    z3.ForAll([a], z3.Implies(Emp(a), z3.ForAll([b], z3.And(Sub(a, b), Emp(In(a, b)))))),
    # dynamics
    z3.ForAll([g, a], Sub(a, Fwd(g, a)), patterns=[Fwd(g, a)]),
    z3.ForAll([g, a], Sub(a, Bwd(g, a)), patterns=[Bwd(g, a)]),
    z3.ForAll([g, v, a, b], z3.Implies(Sub(a, Fwd(g, b)), Sub(PostOut(g, v, a), Fwd(g, b))), patterns=[z3.MultiPattern(PostOut(g, v, a), Fwd(g, b))]),
    z3.ForAll([g, v, a, b], z3.Implies(Sub(a, Bwd(g, b)), Sub(PreOut(g, v, a), Bwd(g, b))), patterns=[z3.MultiPattern(PreOut(g, v, a), Bwd(g, b))]),
    z3.ForAll([g, v, a], Emp(In(a, PostOut(g, v, a))), patterns=[PostOut(g, v, a)]),
    z3.ForAll([g, v, a], Emp(In(a, PreOut(g, v, a))), patterns=[PreOut(g, v, a)]),
    # cardinalities (termination)
    z3.ForAll([a], vcard(a) >= 0, patterns=[vcard(a)]),
    z3.ForAll([a, b], z3.Implies(z3.And(z3.Not(Emp(b)), Emp(In(a, b))), vcard(Un(a, b)) > vcard(a)), patterns=[vcard(Un(a, b))]),
    z3.ForAll([a, b], z3.Implies(Emp(b), vcard(Un(a, b)) == vcard(a)), patterns=[vcard(Un(a, b))]),
]


def fwd_least(gr, p, x):
    """least-ness of the forward closure (instance): p ⊆ x and x closed under every variable  ==>  Fwd(g,p) ⊆ x"""
    vv = z3.Const("v!least", VID)
    return z3.Implies(z3.And(Sub(p, x), z3.ForAll([vv], z3.Implies(isvid(gr, vv), Emp(PostOut(gr, vv, x))))), Sub(Fwd(gr, p), x))


def card_bounded(gr, x):
    return vcard(x) <= vtotal(gr)


TRUSTED = {
    "aeon.ColoredVertexSet algebra": "union / minus / intersect / is_empty / symbolic_size are the set operations (abstract algebra axioms in pyvc/vsmodel.py)",
    "aeon.AsynchronousGraph.var_post_out / var_pre_out": "successors (predecessors) of a set under one variable that lie outside the set",
    "aeon.AsynchronousGraph.mk_subspace / mk_empty_colored_vertices / network_variables": "the states of a space / the empty set / the variable ids",
    "reachability closures (L8)": "Fwd(g,p) is the least set containing p that is closed under every var_post_out; dually Bwd",
}


class VSModel(ObjModel):
    def method(self, eng, st, val, meth, args, kw, node, recv_expr=None):
        t = val.t
        if meth == "is_empty":
            return vbool(Emp(t))
        if meth == "intersect":
            return Val(TVS, In(t, eng.coerce(args[0], TVS, st).t))
        if meth == "union":
            return Val(TVS, Un(t, eng.coerce(args[0], TVS, st).t))
        if meth == "minus":
            return Val(TVS, Mi(t, eng.coerce(args[0], TVS, st).t))
        if meth == "symbolic_size":
            return vint(symsize(t))
        raise OutOfSubset(f"ColoredVertexSet.{meth}")


class GraphVS(ObjModel):
    """the set-valued methods of AsynchronousGraph"""

    def __init__(self, inner):
        self.inner = inner

    def getattr(self, *a):
        return self.inner.getattr(*a)

    def method(self, eng, st, val, meth, args, kw, node, recv_expr=None):
        if meth == "var_post_out":
            return Val(TVS, PostOut(val.t, args[0].t, eng.coerce(args[1], TVS, st).t))
        if meth == "var_pre_out":
            return Val(TVS, PreOut(val.t, args[0].t, eng.coerce(args[1], TVS, st).t))
        if meth == "mk_subspace":
            return Val(TVS, SubspaceSet(val.t, eng.coerce(args[0], TSpace, st).t))
        if meth == "mk_empty_colored_vertices":
            return Val(TVS, EmptyVS)
        return self.inner.method(eng, st, val, meth, args, kw, node, recv_expr)


def install(reg):
    reg.add_model(lambda x: x.ty == TVS, VSModel())
    reg.models = [(p, (GraphVS(m) if type(m).__name__.startswith("GraphModel") else m)) for p, m in reg.models]
    reg.extra_trusted.append(TRUSTED)


# ---------------------------------------------------------------------- conversions used by compute_attractors_symbolic (assumed AEON operations)
from .sdmodel import TVSet
from .externals_aeon import TCtxObj
VSet = TVSet.sort()
cvs_of_bdd = z3.Function("ColoredVertexSet_of_bdd", TCtxObj.sort(), T.Bdd, VS)
vertices_of = z3.Function("cvs_vertices", VS, VSet)
transfer = z3.Function("transfer_from", G, VSet, G, VSet)
vset_inter = z3.Function("vertexset_intersect", VSet, VSet, VSet)
TRUSTED["aeon.ColoredVertexSet(ctx, bdd) / .vertices() / AsynchronousGraph.transfer_from / VertexSet.intersect"] = (
    "set constructors and conversions between symbolic contexts (opaque functions of their arguments)")


class VSModel2(VSModel):
    def method(self, eng, st, val, meth, args, kw, node, recv_expr=None):
        if meth == "vertices" and not args:
            return Val(TVSet, vertices_of(val.t))
        return super().method(eng, st, val, meth, args, kw, node, recv_expr)


class VSetModel(ObjModel):
    def method(self, eng, st, val, meth, args, kw, node, recv_expr=None):
        if meth == "intersect" and len(args) == 1 and args[0].ty == TVSet:
            return Val(TVSet, vset_inter(val.t, args[0].t))
        raise OutOfSubset(f"VertexSet.{meth}")


class GraphVS2(GraphVS):
    def method(self, eng, st, val, meth, args, kw, node, recv_expr=None):
        if meth == "transfer_from" and len(args) == 2:
            return Val(TVSet, transfer(val.t, args[0].t, args[1].t))
        return super().method(eng, st, val, meth, args, kw, node, recv_expr)


_install_vs0 = install


def install(reg):
    _install_vs0(reg)
    reg.models = [(p, (VSModel2() if type(m) is VSModel else (GraphVS2(m.inner) if type(m) is GraphVS else m))) for p, m in reg.models]
    reg.add_model(lambda x: x.ty == TVSet, VSetModel())

    def cvs(eng, st, node):
        a = [eng.ev(x, st) for x in node.args]
        if len(a) != 2 or a[0].ty != TCtxObj or a[1].ty != TBdd:
            raise OutOfSubset("ColoredVertexSet(<unexpected arguments>)")
        return Val(TVS, cvs_of_bdd(a[0].t, a[1].t))
    reg.global_calls["ColoredVertexSet"] = cvs


# ---------------------------------------------------------------------- AEON attractor algorithms used by the symbolic fallback (assumed)
LCVS = TList(TVS)
TGR = z3.Function("transition_guided_reduction", G, VS, TList(TName).sort(), VS)
XieBeerel = z3.Function("xie_beerel", G, VS, LCVS.sort())
ReachBwd = z3.Function("reach_bwd", G, VS, VS)
TRUSTED["aeon.Attractors.transition_guided_reduction / xie_beerel, Reachability.reach_bwd"] = (
    "deterministic functions of the graph and the given set (and the variable list); their MEANING - attractors inside the candidate set - is "
    "part of the assumed call-site contract of symbolic_attractor_fallback")
TRUSTED["biodivine_aeon.LOG_LEVEL"] = "reading / setting the logging level of the dependency has no effect on results"


class _AeonModule(Val):
    def __init__(self):
        self.ty = THelper("module:biodivine_aeon")
        self.t = None


class _AeonModuleModel(ObjModel):
    def getattr(self, eng, st, v, attr, node):
        if attr in ("LOG_LEVEL", "LOG_ESSENTIAL"):
            return vint(z3.Int("biodivine_aeon." + attr))
        raise OutOfSubset(f"biodivine_aeon.{attr}")

    def setattr(self, eng, st, v, attr, val):
        if attr == "LOG_LEVEL":
            return
        raise OutOfSubset(f"store to biodivine_aeon.{attr}")


class VSModel3(VSModel2):
    def method(self, eng, st, val, meth, args, kw, node, recv_expr=None):
        if meth == "cardinality" and not args:
            return vint(vcard(val.t))
        return super().method(eng, st, val, meth, args, kw, node, recv_expr)


_install_vs1 = install


def install(reg):
    _install_vs1(reg)
    reg.models = [(p, (VSModel3() if type(m) is VSModel2 else m)) for p, m in reg.models]
    reg.add_model(lambda x: isinstance(x, _AeonModule), _AeonModuleModel())
    reg.globals["biodivine_aeon"] = lambda eng, st: _AeonModule()

    def tgr(eng, st, node):
        a = [eng.ev(x, st) for x in node.args]
        return Val(TVS, TGR(a[0].t, eng.coerce(a[1], TVS, st).t, eng.coerce(a[2], TList(TName), st).t))
    reg.module_calls[("Attractors", "transition_guided_reduction")] = tgr

    def xb(eng, st, node):
        a = [eng.ev(x, st) for x in node.args]
        r = Val(LCVS, XieBeerel(a[0].t, eng.coerce(a[1], TVS, st).t))
        st.assume(LCVS.len(r.t) >= 0)
        return r
    reg.module_calls[("Attractors", "xie_beerel")] = xb

    def rb(eng, st, node):
        a = [eng.ev(x, st) for x in node.args]
        return Val(TVS, ReachBwd(a[0].t, eng.coerce(a[1], TVS, st).t))
    reg.module_calls[("Reachability", "reach_bwd")] = rb
