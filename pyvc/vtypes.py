"""Value model of pyvc: every symbolic Python value is a pair (type descriptor, single z3 term).

Python semantics assumed by the encoding (stated once, DESIGN.md 1.3):
  int        -> SMT Int (exact: Python ints are unbounded)
  bool       -> SMT Bool
  str used as a variable / place / node name -> uninterpreted sort Name (no string operations)
  dict[str, 0|1] (BooleanSpace) -> Array(Name, Int), -1 = absent; INSERTION ORDER IS NOT MODELLED:
                iteration visits the keys in an arbitrary order without repetition
  set / frozenset -> characteristic function Array(T, Bool); iteration order arbitrary
  list       -> record (len, Array(Int, T)); order is modelled exactly
  dict[K, V] -> record (dom: Array(K, Bool), val: Array(K, V)); iteration order arbitrary
  Optional   -> datatype none | some(v)
  tuple      -> datatype
Values are immutable terms; in-place mutation of a local container is modelled by rebinding the
variable (the engine rejects programs in which such a container is aliased, see engine.alias).
"""
from __future__ import annotations
import z3

Name = z3.DeclareSort("Name")
I, B = z3.IntSort(), z3.BoolSort()
_cnt = [0]


def fresh_name(prefix="v"):
    _cnt[0] += 1
    return f"{prefix}!{_cnt[0]}"


class OutOfSubset(Exception):
    """The construct is outside the Python subset pyvc models: obligations become *undecided*."""


class Ty:
    name = "?"

    def sort(self):
        raise NotImplementedError

    def fresh(self, prefix="v"):
        return Val(self, z3.Const(fresh_name(prefix), self.sort()))

    def wf(self, t):  # well-formedness constraint assumed for havocked / parameter values
        return z3.BoolVal(True)

    def __repr__(self):
        return self.name

    def __eq__(self, o):
        return isinstance(o, Ty) and self.name == o.name

    def __hash__(self):
        return hash(self.name)


class Val:
    __slots__ = ("ty", "t")

    def __init__(self, ty, t):
        self.ty, self.t = ty, t

    def __repr__(self):
        return f"<{self.ty}:{self.t}>"


class OneShotVal(Val):
    """the value a generator function returns to its caller: iterable once (engine.consume)"""
    __slots__ = ()
    _one_shot = True


class _TInt(Ty):
    name = "int"

    def sort(self):
        return I


class _TBool(Ty):
    name = "bool"

    def sort(self):
        return B


class _TName(Ty):
    name = "str(Name)"

    def sort(self):
        return Name


TInt, TBool, TName = _TInt(), _TBool(), _TName()


class _TNoneLit(Ty):
    """The literal None before it meets a typed value."""
    name = "NoneLit"

    def sort(self):
        raise OutOfSubset("None has no sort until typed")


TNoneLit = _TNoneLit()
NONE = Val(TNoneLit, None)


class _TStrOpaque(Ty):
    """A string whose content is irrelevant (exception messages, debug text)."""
    name = "str(opaque)"

    def sort(self):
        raise OutOfSubset("opaque string has no sort")


TStrOpaque = _TStrOpaque()


class TEmpty(Ty):
    """An empty container literal whose element type is not known yet ([] / {} / set())."""

    def __init__(self, kind):
        self.kind = kind
        self.name = f"empty-{kind}"

    def sort(self):
        raise OutOfSubset("untyped empty container")


class THelper(Ty):
    """Type of Python-side helper values that are not containers (views, tuples under construction,
    closures, string literals, iterables).  Never confused with an empty container."""

    def __init__(self, kind):
        self.kind = kind
        self.name = f"helper-{kind}"

    def sort(self):
        raise OutOfSubset(f"helper value `{self.kind}` has no SMT sort")


class _TSpace(Ty):
    name = "Space"

    def sort(self):
        return z3.ArraySort(Name, I)

    def wf(self, t):
        k = z3.Const("k!b", Name)
        return z3.ForAll([k], z3.And(t[k] >= -1, t[k] <= 1))

    def empty(self):
        return Val(self, z3.K(Name, z3.IntVal(-1)))


TSpace = _TSpace()


def indom(s, k):
    return s[k] >= 0


_dt_cache = {}


class TSet(Ty):
    def __init__(self, elem):
        self.elem = elem
        self.name = f"set[{elem.name}]"

    def sort(self):
        return z3.ArraySort(self.elem.sort(), B)

    def empty(self):
        return Val(self, z3.K(self.elem.sort(), z3.BoolVal(False)))


class TList(Ty):
    def __init__(self, elem):
        self.elem = elem
        self.name = f"list[{elem.name}]"

    def sort(self):
        if self.name not in _dt_cache:
            d = z3.Datatype(f"List<{self.elem.name}>")
            d.declare("mk", ("len", I), ("at", z3.ArraySort(I, self.elem.sort())))
            _dt_cache[self.name] = d.create()
        return _dt_cache[self.name]

    def len(self, t):
        return self.sort().len(t)

    def at(self, t):
        return self.sort().at(t)

    def mk(self, n, arr):
        return self.sort().mk(n, arr)

    def wf(self, t):
        c = self.len(t) >= 0
        ew = self.elem.wf(self.at(t)[z3.Int("i!wf")])
        if not z3.is_true(ew):
            i = z3.Int("i!wf")
            c = z3.And(c, z3.ForAll([i], z3.Implies(z3.And(0 <= i, i < self.len(t)), ew)))
        return c

    def empty(self):
        # one canonical empty list per element type (the array content beyond len is junk; sharing it makes [] == [] provable)
        return Val(self, self.mk(z3.IntVal(0), z3.Const("nil!" + self.elem.name, z3.ArraySort(I, self.elem.sort()))))


class TOpt(Ty):
    def __init__(self, elem):
        self.elem = elem
        self.name = f"opt[{elem.name}]"

    def sort(self):
        if self.name not in _dt_cache:
            d = z3.Datatype(f"Opt<{self.elem.name}>")
            d.declare("none")
            d.declare("some", ("val", self.elem.sort()))
            _dt_cache[self.name] = d.create()
        return _dt_cache[self.name]

    def is_none(self, t):
        return self.sort().is_none(t)

    def val(self, t):
        return self.sort().val(t)

    def some(self, t):
        return self.sort().some(t)

    def none(self):
        return Val(self, self.sort().none)

    def wf(self, t):
        return z3.Implies(z3.Not(self.is_none(t)), self.elem.wf(self.val(t)))


class TTuple(Ty):
    def __init__(self, *elems):
        self.elems = elems
        self.name = "tuple[" + ",".join(e.name for e in elems) + "]"

    def sort(self):
        if self.name not in _dt_cache:
            d = z3.Datatype(f"Tup<{self.name}>")
            d.declare("mk", *[(f"f{i}", e.sort()) for i, e in enumerate(self.elems)])
            _dt_cache[self.name] = d.create()
        return _dt_cache[self.name]

    def get(self, t, i):
        return getattr(self.sort(), f"f{i}")(t)

    def mk(self, *ts):
        return self.sort().mk(*ts)

    def wf(self, t):
        return z3.And([e.wf(self.get(t, i)) for i, e in enumerate(self.elems)] or [z3.BoolVal(True)])


class TDict(Ty):
    def __init__(self, key, val):
        self.key, self.val = key, val
        self.name = f"dict[{key.name},{val.name}]"

    def sort(self):
        if self.name not in _dt_cache:
            d = z3.Datatype(f"Dict<{self.name}>")
            d.declare("mk", ("dom", z3.ArraySort(self.key.sort(), B)),
                      ("val", z3.ArraySort(self.key.sort(), self.val.sort())))
            _dt_cache[self.name] = d.create()
        return _dt_cache[self.name]

    def dom(self, t):
        return self.sort().dom(t)

    def vals(self, t):
        return self.sort().val(t)

    def mk(self, d, v):
        return self.sort().mk(d, v)

    def empty(self):
        return Val(self, self.mk(z3.K(self.key.sort(), z3.BoolVal(False)),
                                 z3.Const(fresh_name("nild"), z3.ArraySort(self.key.sort(), self.val.sort()))))


_obj_sorts = {}


class TObj(Ty):
    """An opaque object of a dependency (Bdd, BooleanNetwork, DiGraph, ...): uninterpreted sort;
    everything known about it comes from ghost view functions in theory.py / externals.py."""

    def __init__(self, sname):
        self.name = sname

    def sort(self):
        if self.name not in _obj_sorts:
            _obj_sorts[self.name] = z3.DeclareSort(self.name)
        return _obj_sorts[self.name]


def vint(n):
    return Val(TInt, z3.IntVal(n) if isinstance(n, int) else n)


def vbool(b):
    return Val(TBool, z3.BoolVal(b) if isinstance(b, bool) else b)
