"""Functional model of a networkx.DiGraph used as a Petri net (biobalm.petri_net_translation).

Value: datatype PNGraph(nodes: Array(PNode, Bool), edge: Array(PNode, Array(PNode, Bool))), node
attributes as global uninterpreted functions of the node name (kind / change / direction never
change once a node exists).  PNode is the sort of node names (strings); place names are built by the
injective constructor place(var, positive) = variable_to_place(var, positive).

networkx assumptions (trusted, DESIGN.md section 4): `n in g.nodes`, predecessors / successors /
has_edge / remove_node (removes incident edges) / add_node / add_edge / copy.deepcopy (equal value,
argument untouched) behave as documented."""
from __future__ import annotations
import z3
from .vtypes import *
from . import engine as E
from .registry import ObjModel

PNode = z3.DeclareSort("PNode")
TPNode = TObj("PNode")
_NS = z3.ArraySort(PNode, B)
_ES = z3.ArraySort(PNode, z3.ArraySort(PNode, B))
_d = z3.Datatype("PNGraph")
_d.declare("mk", ("nodes", _NS), ("edge", _ES))
PNGraph = _d.create()

place = z3.Function("place", Name, B, PNode)            # variable_to_place
is_place = z3.Function("is_place", PNode, B)
pvar = z3.Function("pvar", PNode, Name)
ppos = z3.Function("ppos", PNode, B)
_v, _b, _n = z3.Const("v!p", Name), z3.Bool("b!p"), z3.Const("n!p", PNode)
AX_PLACE = [
    z3.ForAll([_v, _b], z3.And(is_place(place(_v, _b)), pvar(place(_v, _b)) == _v, ppos(place(_v, _b)) == _b),
              patterns=[place(_v, _b)]),
]


# transition names: f"tr_{variable}_{up|down}_{index}" is modelled by the constructor trname(variable, up, index). It is injective (read the
# text from the right: the last `_`-separated token is the index, the one before it the direction, the rest the variable) and never a place name
# (places start with b0_ / b1_): ASSUMED, listed as trusted.
trname = z3.Function("trname", Name, B, I, PNode)
tr_var = z3.Function("tr_var", PNode, Name)
tr_up = z3.Function("tr_up", PNode, B)
tr_idx = z3.Function("tr_idx", PNode, I)
_i = z3.Int("i!p")
AX_TRNAME = [
    z3.ForAll([_v, _b, _i], z3.And(tr_var(trname(_v, _b, _i)) == _v, tr_up(trname(_v, _b, _i)) == _b, tr_idx(trname(_v, _b, _i)) == _i,
                                    z3.Not(is_place(trname(_v, _b, _i)))), patterns=[trname(_v, _b, _i)]),
]


class _TPNG(Ty):
    name = "PNGraph"

    def sort(self):
        return PNGraph


TPNG = _TPNG()
TRUSTED = {
    "networkx.DiGraph (Petri net)": "nodes / predecessors / successors / has_edge / add_node / add_edge / remove_node "
                                    "(also removes incident edges) / copy.deepcopy (equal value, argument untouched)",
    "transition names": "f\"tr_{variable}_{up|down}_{index}\" is injective in its three arguments and never a place name (AX_TRNAME)",
}


class _NodesView(Val):
    def __init__(self, g):
        self.g = g
        self.ty = THelper("view:pnnodes")
        self.t = None


class PNGModel(ObjModel):
    def getattr(self, eng, st, v, attr, node):
        if attr == "nodes":
            return _NodesView(v)
        raise OutOfSubset(f"DiGraph.{attr}")

    def method(self, eng, st, v, meth, args, kw, node, recv_expr=None):
        nodes, edge = PNGraph.nodes(v.t), PNGraph.edge(v.t)
        k = z3.Const(fresh_name("n"), PNode)
        if meth in ("predecessors", "successors"):
            p = args[0].t
            if meth == "predecessors":
                return Val(TSet(TPNode), z3.Lambda([k], z3.And(nodes[k], edge[k][p])))
            return Val(TSet(TPNode), z3.Lambda([k], z3.And(nodes[k], edge[p][k])))
        if meth == "has_edge":
            a, b = args[0].t, args[1].t
            return vbool(z3.And(nodes[a], nodes[b], edge[a][b]))
        if meth == "remove_node":
            x = args[0].t
            eng.oblige(st, f"remove_node.present@{node.lineno}", nodes[x], node.lineno, kind="safety")
            new = PNGraph.mk(z3.Store(nodes, x, False), edge)
            eng.assign(recv_expr, Val(TPNG, new), st)
            return NONE
        if meth == "add_node":
            # networkx: a new node has no edges; an existing one keeps them. The attributes written must be the ones the node's NAME
            # determines (kind / change / direction are functions of the name in this model): obligations, not assumptions.
            from . import aspmodel as A
            x = args[0]
            if x.ty != TPNode:
                raise OutOfSubset(f"add_node with a {x.ty} name")
            x = x.t
            kind = kw.get("kind")
            if not isinstance(kind, E._StrLit) or kind.s not in ("place", "transition"):
                raise OutOfSubset("add_node without a literal kind")
            eng.oblige(st, f"add_node.kind_matches_the_name@{node.lineno}", A.kind_of(x) == (0 if kind.s == "place" else 1), node.lineno, kind="safety")
            if kind.s == "transition":
                ch, dr = kw.get("change"), kw.get("direction")
                if ch is None or ch.ty != TName or dr is None:
                    raise OutOfSubset("add_node(kind='transition') without change / direction")
                eng.oblige(st, f"add_node.change_matches_the_name@{node.lineno}", A.change_of(x) == TOpt(TName).some(ch.t), node.lineno, kind="safety")
                if isinstance(dr, E._StrLit) and dr.s in ("up", "down"):
                    up = z3.BoolVal(dr.s == "up")
                elif isinstance(dr, E._StrChoice) and isinstance(dr.a, E._StrLit) and isinstance(dr.b, E._StrLit) and {dr.a.s, dr.b.s} == {"up", "down"}:
                    up = dr.c if dr.a.s == "up" else z3.Not(dr.c)
                else:
                    raise OutOfSubset("add_node direction is not 'up' / 'down'")
                eng.oblige(st, f"add_node.direction_matches_the_name@{node.lineno}", A.up_of(x) == up, node.lineno, kind="safety")
            elif set(kw) - {"kind"}:
                raise OutOfSubset("add_node(kind='place') with further attributes")
            a_, b_ = z3.Const(fresh_name("a"), PNode), z3.Const(fresh_name("b"), PNode)
            e2 = z3.Const(fresh_name("edges"), _ES)
            st.assume(z3.ForAll([a_, b_], e2[a_][b_] == z3.And(edge[a_][b_], z3.Or(nodes[x], z3.And(a_ != x, b_ != x))), patterns=[e2[a_][b_]]))
            eng.assign(recv_expr, Val(TPNG, PNGraph.mk(z3.Store(nodes, x, True), e2)), st)
            return NONE
        if meth == "add_edge":
            # networkx would silently create missing end points; the translation never relies on that: both must exist (obligation)
            a, b = args[0], args[1]
            if a.ty != TPNode or b.ty != TPNode:
                raise OutOfSubset("add_edge between non-node values")
            eng.oblige(st, f"add_edge.endpoints_present@{node.lineno}", z3.And(nodes[a.t], nodes[b.t]), node.lineno, kind="safety")
            eng.assign(recv_expr, Val(TPNG, PNGraph.mk(nodes, z3.Store(edge, a.t, z3.Store(edge[a.t], b.t, True)))), st)
            return NONE
        raise OutOfSubset(f"DiGraph.{meth}")


def install(reg):
    reg.add_model(lambda v: v.ty == TPNG, PNGModel())
    reg.extra_trusted.append(TRUSTED)

    def contains(eng, st, coll, x, node):
        if isinstance(coll, _NodesView):
            return PNGraph.nodes(coll.g.t)[x.t]
        return None
    reg.add_hook("contains", contains)

    def fstring(eng, st, node):
        """f"tr_{variable}_{direction}_{index}" -> trname(variable, up, index)"""
        import ast
        vs = node.values
        if len(vs) != 6 or not all(isinstance(vs[i], ast.Constant) for i in (0, 2, 4)) or [vs[i].value for i in (0, 2, 4)] != ["tr_", "_", "_"]:
            return None
        if not all(isinstance(vs[i], ast.FormattedValue) and vs[i].format_spec is None and vs[i].conversion == -1 for i in (1, 3, 5)):
            return None
        var, dr, idx = (eng.ev(vs[i].value, st) for i in (1, 3, 5))
        if var.ty != TName or idx.ty != TInt:
            return None
        if isinstance(dr, E._StrLit) and dr.s in ("up", "down"):
            up = z3.BoolVal(dr.s == "up")
        elif isinstance(dr, E._StrChoice) and isinstance(dr.a, E._StrLit) and isinstance(dr.b, E._StrLit) and {dr.a.s, dr.b.s} == {"up", "down"}:
            up = dr.c if dr.a.s == "up" else z3.Not(dr.c)
        else:
            return None
        return Val(TPNode, trname(var.t, up, idx.t))
    reg.hooks.setdefault("fstring", []).insert(0, fstring)

    def digraph(eng, st, node):
        if node.args or node.keywords:
            raise OutOfSubset("DiGraph(...) with arguments")
        return Val(TPNG, PNGraph.mk(z3.K(PNode, z3.BoolVal(False)), z3.K(PNode, z3.K(PNode, z3.BoolVal(False)))))
    reg.global_calls["DiGraph"] = digraph

    def deepcopy(eng, st, node):
        return eng.ev(node.args[0], st)
    reg.module_calls[("copy", "deepcopy")] = deepcopy
    reg.module_calls[("copy", "copy")] = deepcopy


# ---------------------------------------------------------------------- clingo Model (assumed)
TModel = TObj("ClingoModel")
atoms_of = z3.Function("atoms_of", TModel.sort(), _NS)       # the set of atoms (by name) that are true in the model
TRUSTED["clingo.Model.symbols(atoms=True)"] = "iterates the true atoms of the model, each once; str(atom) is the atom's name"


class ModelModel(ObjModel):
    def method(self, eng, st, v, meth, args, kw, node, recv_expr=None):
        if meth == "symbols":
            return Val(TSet(TPNode), atoms_of(v.t))
        raise OutOfSubset(f"clingo.Model.{meth}")


_pn_install0 = install


def install(reg):
    _pn_install0(reg)
    reg.add_model(lambda v: v.ty == TModel, ModelModel())
