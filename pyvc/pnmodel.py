"""Functional model of a networkx.DiGraph used as a Petri net (biobalm.petri_net_translation).

Value: datatype PNGraph(nodes: Array(PNode, Bool), edge: Array(PNode, Array(PNode, Bool))), node
attributes as global uninterpreted functions of the node name (kind / change / direction never
change once a node exists).  PNode is the sort of node names (strings); place names are built by the
injective constructor place(var, positive) = variable_to_place(var, positive).

networkx assumptions (trusted, DESIGN.md section 4): `n in g.nodes`, predecessors / successors /
has_edge / remove_node (removes incident edges) / add_node / add_edge / copy.deepcopy (equal value,
argument untouched) behave as documented."""
from __future__ import annotations
import z3
from .vtypes import *
from . import engine as E
from .registry import ObjModel

PNode = z3.DeclareSort("PNode")
TPNode = TObj("PNode")
_NS = z3.ArraySort(PNode, B)
_ES = z3.ArraySort(PNode, z3.ArraySort(PNode, B))
_d = z3.Datatype("PNGraph")
_d.declare("mk", ("nodes", _NS), ("edge", _ES))
PNGraph = _d.create()

place = z3.Function("place", Name, B, PNode)            # variable_to_place
is_place = z3.Function("is_place", PNode, B)
pvar = z3.Function("pvar", PNode, Name)
ppos = z3.Function("ppos", PNode, B)
_v, _b, _n = z3.Const("v!p", Name), z3.Bool("b!p"), z3.Const("n!p", PNode)
AX_PLACE = [
    z3.ForAll([_v, _b], z3.And(is_place(place(_v, _b)), pvar(place(_v, _b)) == _v, ppos(place(_v, _b)) == _b),
              patterns=[place(_v, _b)]),
]


class _TPNG(Ty):
    name = "PNGraph"

    def sort(self):
        return PNGraph


TPNG = _TPNG()
TRUSTED = {
    "networkx.DiGraph (Petri net)": "nodes / predecessors / successors / has_edge / add_node / add_edge / remove_node "
                                    "(also removes incident edges) / copy.deepcopy (equal value, argument untouched)",
}


class _NodesView(Val):
    def __init__(self, g):
        self.g = g
        self.ty = THelper("view:pnnodes")
        self.t = None


class PNGModel(ObjModel):
    def getattr(self, eng, st, v, attr, node):
        if attr == "nodes":
            return _NodesView(v)
        raise OutOfSubset(f"DiGraph.{attr}")

    def method(self, eng, st, v, meth, args, kw, node, recv_expr=None):
        nodes, edge = PNGraph.nodes(v.t), PNGraph.edge(v.t)
        k = z3.Const(fresh_name("n"), PNode)
        if meth in ("predecessors", "successors"):
            p = args[0].t
            if meth == "predecessors":
                return Val(TSet(TPNode), z3.Lambda([k], z3.And(nodes[k], edge[k][p])))
            return Val(TSet(TPNode), z3.Lambda([k], z3.And(nodes[k], edge[p][k])))
        if meth == "has_edge":
            a, b = args[0].t, args[1].t
            return vbool(z3.And(nodes[a], nodes[b], edge[a][b]))
        if meth == "remove_node":
            x = args[0].t
            eng.oblige(st, f"remove_node.present@{node.lineno}", nodes[x], node.lineno, kind="safety")
            new = PNGraph.mk(z3.Store(nodes, x, False), edge)
            eng.assign(recv_expr, Val(TPNG, new), st)
            return NONE
        raise OutOfSubset(f"DiGraph.{meth}")


def install(reg):
    reg.add_model(lambda v: v.ty == TPNG, PNGModel())
    reg.extra_trusted.append(TRUSTED)

    def contains(eng, st, coll, x, node):
        if isinstance(coll, _NodesView):
            return PNGraph.nodes(coll.g.t)[x.t]
        return None
    reg.add_hook("contains", contains)

    def deepcopy(eng, st, node):
        return eng.ev(node.args[0], st)
    reg.module_calls[("copy", "deepcopy")] = deepcopy
    reg.module_calls[("copy", "copy")] = deepcopy


# ---------------------------------------------------------------------- clingo Model (assumed)
TModel = TObj("ClingoModel")
atoms_of = z3.Function("atoms_of", TModel.sort(), _NS)       # the set of atoms (by name) that are true in the model
TRUSTED["clingo.Model.symbols(atoms=True)"] = "iterates the true atoms of the model, each once; str(atom) is the atom's name"


class ModelModel(ObjModel):
    def method(self, eng, st, v, meth, args, kw, node, recv_expr=None):
        if meth == "symbols":
            return Val(TSet(TPNode), atoms_of(v.t))
        raise OutOfSubset(f"clingo.Model.{meth}")


_pn_install0 = install


def install(reg):
    _pn_install0(reg)
    reg.add_model(lambda v: v.ty == TModel, ModelModel())
