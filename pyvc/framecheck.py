"""Static frame obligation `no_module_state`: no function of a module writes module-level state.

Every contract in this framework describes a function as a relation between its arguments (and the heap objects reachable from
them) and its result.  That reading is only faithful if the function keeps no state of its own between calls: a module-level cache,
counter or registry that a function writes makes results depend on the call history (C19, and silently every per-call property).
The check is syntactic and conservative in one direction only: it finds `global X` rebinding, and stores / mutating method calls
whose receiver is a module-level name that is not shadowed in the function.  A hit does not prove a violation (a cache can be
transparent) - it makes the affected properties UNDECIDED until a contract accounts for the state; no hit means the frame
`modifies nothing at module level` holds for the direct writes the syntax shows (aliases are not tracked: stated assumption)."""
from __future__ import annotations
import ast
import os

MUTATORS = {"append", "add", "update", "extend", "insert", "remove", "pop", "popitem", "clear", "discard", "setdefault", "sort", "reverse",
            "appendleft", "popleft", "__setitem__", "__delitem__", "seed", "shuffle"}


def _module_names(tree):
    names = set()
    for n in tree.body:
        if isinstance(n, (ast.Assign, ast.AnnAssign, ast.AugAssign)):
            targets = n.targets if isinstance(n, ast.Assign) else [n.target]
            for t in targets:
                for x in ast.walk(t):
                    if isinstance(x, ast.Name):
                        names.add(x.id)
    return names


def _local_names(fn):
    loc = {a.arg for a in fn.args.args + fn.args.kwonlyargs + fn.args.posonlyargs}
    if fn.args.vararg:
        loc.add(fn.args.vararg.arg)
    if fn.args.kwarg:
        loc.add(fn.args.kwarg.arg)
    globs = set()
    for n in ast.walk(fn):
        if isinstance(n, ast.Global):
            globs.update(n.names)
    for n in ast.walk(fn):
        if isinstance(n, ast.Name) and isinstance(n.ctx, ast.Store) and n.id not in globs:
            loc.add(n.id)
        elif isinstance(n, (ast.FunctionDef, ast.AsyncFunctionDef, ast.ClassDef)) and n is not fn:
            loc.add(n.name)
        elif isinstance(n, (ast.Import, ast.ImportFrom)):
            for a in n.names:
                loc.add((a.asname or a.name).split(".")[0])
    return loc, globs


def _root(e):
    while isinstance(e, (ast.Subscript, ast.Attribute)):
        e = e.value
    return e.id if isinstance(e, ast.Name) else None


def module_state_writes(path):
    """list of {function, line, name, how} for every direct write to module-level state inside a function of the file"""
    tree = ast.parse(open(path).read())
    mod = _module_names(tree)
    hits = []

    def visit_fn(fn, qual):
        loc, globs = _local_names(fn)
        for n in ast.walk(fn):
            if isinstance(n, (ast.FunctionDef, ast.AsyncFunctionDef)) and n is not fn:
                continue
            if isinstance(n, ast.Name) and isinstance(n.ctx, (ast.Store, ast.Del)) and n.id in globs:
                hits.append({"function": qual, "line": n.lineno, "name": n.id, "how": "rebinds a global"})
            elif isinstance(n, (ast.Subscript, ast.Attribute)) and isinstance(n.ctx, (ast.Store, ast.Del)):
                r = _root(n)
                if r is not None and r in mod and (r not in loc or r in globs):
                    hits.append({"function": qual, "line": n.lineno, "name": r, "how": "stores into a module-level object"})
            elif isinstance(n, ast.Call) and isinstance(n.func, ast.Attribute) and n.func.attr in MUTATORS:
                r = _root(n.func.value)
                if r is not None and r in mod and (r not in loc or r in globs):
                    hits.append({"function": qual, "line": n.lineno, "name": r, "how": f"calls .{n.func.attr}() on a module-level object"})

    def walk(body, prefix):
        for n in body:
            if isinstance(n, (ast.FunctionDef, ast.AsyncFunctionDef)):
                visit_fn(n, prefix + n.name)
                walk(n.body, prefix + n.name + ".")
            elif isinstance(n, ast.ClassDef):
                walk(n.body, prefix + n.name + ".")
    walk(tree.body, "")
    # de-duplicate (nested functions are visited on their own as well)
    seen, out = set(), []
    for h in hits:
        k = (h["line"], h["name"], h["how"])
        if k not in seen:
            seen.add(k)
            out.append(h)
    return out, {"module_level_names": len(mod)}


def check_files(repo, rel_files):
    res = {"files": [], "writes": []}
    for rel in sorted(set(rel_files)):
        p = os.path.join(repo, rel)
        if not (rel.endswith(".py") and os.path.exists(p)):
            continue
        hits, info = module_state_writes(p)
        res["files"].append(rel)
        for h in hits:
            res["writes"].append(dict(h, file=rel))
    return res
