"""Abstract syntax of the answer-set programs built by biobalm/trappist_core.py and the (assumed) clingo
`Control` object that collects them.

A rule text is produced by an f-string whose constant parts fix the shape of the rule exactly; the hook
below turns the f-string into a term of the datatype Rule, or refuses (the call `ctl.add(<unrecognised
text>)` is then outside the subset and the function is undecided):

    f"{{{a}}}."              choice(a)                 {a}.
    f":- {a}, {b}."          constraint({a, b})        integrity constraint
    f":- {J}."               constraint(set(J))        J = ", ".join(<places>)  or  "; ".join(<places>)  (both are conjunctions in a body)
    f"{a} ; {b}." / "; "     disj({a, b})              disjunctive fact
    f"{J}." / f"{a}."        disj(set(J)) / disj({a})  J = "; ".join(<places>)
    f"{J} :- {b}."           imp(set(J), b)            disjunctive rule with one body atom
    "#false."                falsum

Conjunction (", ") and disjunction ("; ") separators are part of the shape.  Bodies and heads are SETS of
atoms: the order of a join is irrelevant to the meaning of the rule, and duplicates are idempotent.

Control value: Ctl(rules : Rule -> Bool, dommod : Int) where dommod is the number in "--dom-mod=<n>, 16"
(3: subset-minimal, 5: subset-maximal enumeration under --heuristic=Domain --enum-mod=domRec).  TRUSTED:
clingo parses the texts as these rules and enumerates the stable models accordingly (lemmas L4 / L9)."""
from __future__ import annotations
import ast
import z3
from .vtypes import *
from . import engine as E
from .registry import ObjModel
from .pnmodel import PNode, TPNode, PNGraph, TPNG, place, is_place, pvar, ppos, PNGModel

SetP = z3.ArraySort(PNode, B)
_r = z3.Datatype("AspRule")
_r.declare("choice", ("atom", PNode))
_r.declare("constraint", ("cbody", SetP))
_r.declare("disj", ("dhead", SetP))
_r.declare("imp", ("ihead", SetP), ("ibody", PNode))
_r.declare("falsum")
Rule = _r.create()


class _TRule(Ty):
    name = "AspRule"

    def sort(self):
        return Rule


TRule = _TRule()
RuleSet = z3.ArraySort(Rule, B)
_c = z3.Datatype("ClingoControl")
_c.declare("mk", ("rules", RuleSet), ("dommod", I))
Ctl = _c.create()


class _TCtl(Ty):
    name = "ClingoControl"

    def sort(self):
        return Ctl


TCtl = _TCtl()
EMPTYP = z3.K(PNode, z3.BoolVal(False))
KIND = {"place": 0, "transition": 1}
kind_of = z3.Function("pn_kind", PNode, I)        # node attribute `kind` (never changes once a node exists)

TRUSTED = {
    "clingo.Control(options) / Control.add": "collects the rules whose texts are added; the rule shapes are those of pyvc/aspmodel.py; "
                                             "'--dom-mod=3, 16' / '--dom-mod=5, 16' with --heuristic=Domain --enum-mod=domRec enumerate the "
                                             "subset-minimal / subset-maximal stable models, each once",
    "networkx.DiGraph.nodes(data=attr)": "iterates (node, attribute value) over the nodes, each once",
}


def pair(a, b):
    return z3.Store(z3.Store(EMPTYP, a, True), b, True)


def single(a):
    return z3.Store(EMPTYP, a, True)


_pk = z3.Const("pn!k", PNode)


def preds_set(g, t):
    """predecessors of t (fixed bound-variable name: the model and the contracts build the identical term)"""
    return z3.Lambda([_pk], z3.And(PNGraph.nodes(g)[_pk], PNGraph.edge(g)[_pk][t]))


def succs_set(g, t):
    return z3.Lambda([_pk], z3.And(PNGraph.nodes(g)[_pk], PNGraph.edge(g)[t][_pk]))


class _Join(Val):
    """sep.join(<places>) : only the set of joined atoms and the separator matter"""

    def __init__(self, sep, setterm):
        self.sep, self.set = sep, setterm
        self.ty = THelper("joined-atoms")
        self.t = None


class _ListOfSet(Val):
    """list(<set of places>) / a list comprehension over an unordered source: an enumeration of the set in an
    arbitrary order; only membership tests and joins are supported"""

    def __init__(self, setterm):
        self.set = setterm
        self.ty = THelper("list-of-set")
        self.t = None


class _Kind(Val):
    def __init__(self, t):
        self.t = t
        self.ty = THelper("pn-kind")


class _NodesData(E._IterSpec):
    """for node, value in g.nodes(data=attr)"""

    def __init__(self, g, attr):
        self.g, self.attr = g, attr
        self.set = PNGraph.nodes(g.t)

    def start(self):
        return {"visited": EMPTYP}

    def arbitrary(self, st):
        vis = z3.Const(fresh_name("visited"), SetP)
        k = z3.Const(fresh_name("kq"), PNode)
        st.assume(z3.ForAll([k], z3.Implies(vis[k], self.set[k])))
        return {"visited": vis}

    def pick(self, st, gh):
        k = z3.Const(fresh_name("node"), PNode)
        st.assume(self.set[k])
        st.assume(z3.Not(gh["visited"][k]))
        gh["cur"] = k
        return E._PyTuple([Val(TPNode, k), _Kind(kind_of(k))])

    def advance(self, gh):
        return {"visited": z3.Store(gh["visited"], gh["cur"], True)}

    def finished(self, st, gh):
        k = z3.Const(fresh_name("kq"), PNode)
        st.assume(z3.ForAll([k], gh["visited"][k] == self.set[k]))


class PNGModelAsp(PNGModel):
    def method(self, eng, st, v, meth, args, kw, node, recv_expr=None):
        if meth == "nodes" and not args and set(kw) == {"data"} and isinstance(kw["data"], E._StrLit) and kw["data"].s == "kind":
            return _NodesData(v, "kind")
        if meth in ("predecessors", "successors"):
            # networkx raises NetworkXError for a node that is not in the graph
            eng.oblige(st, f"{meth}.node_present@{node.lineno}", PNGraph.nodes(v.t)[args[0].t], node.lineno, kind="safety")
        if meth == "predecessors":
            return Val(TSet(TPNode), preds_set(v.t, args[0].t))
        if meth == "successors":
            return Val(TSet(TPNode), succs_set(v.t, args[0].t))
        if meth == "copy" and not args and not kw:
            return v           # graphs are values: a copy is the same value, the original is never affected by later updates
        return super().method(eng, st, v, meth, args, kw, node, recv_expr)


class CtlModel(ObjModel):
    def method(self, eng, st, v, meth, args, kw, node, recv_expr=None):
        if meth == "add":
            if len(args) == 3:
                if not (isinstance(args[0], E._StrLit) and args[0].s == "base" and isinstance(args[1].ty, TEmpty)):
                    raise OutOfSubset("Control.add(name, params, text) with name != 'base' or parameters")
                txt = args[2]
            elif len(args) == 1:
                txt = args[0]
            else:
                raise OutOfSubset("Control.add arity")
            if isinstance(txt, E._StrLit) and txt.s == "#false.":
                txt = Val(TRule, Rule.falsum)
            if txt.ty != TRule:
                raise OutOfSubset(f"Control.add(<text that is not a recognised rule shape>) at line {node.lineno}")
            new = Ctl.mk(z3.Store(Ctl.rules(v.t), txt.t, True), Ctl.dommod(v.t))
            eng.assign(recv_expr, Val(TCtl, new), st)
            return NONE
        raise OutOfSubset(f"clingo.Control.{meth}")


class StrLitModel(ObjModel):
    def method(self, eng, st, v, meth, args, kw, node, recv_expr=None):
        if meth == "join" and len(args) == 1:
            a = args[0]
            if isinstance(a, _ListOfSet):
                return _Join(v.s, a.set)
            if isinstance(a.ty, TList) and a.ty.elem == TPNode:
                from . import theory as T
                return _Join(v.s, list_set(a.t))
            if isinstance(a.ty, TSet) and a.ty.elem == TPNode:
                return _Join(v.s, a.t)
        raise OutOfSubset(f"str.{meth} on a literal")


LP = TList(TPNode)
from . import theory as _T
MemP, AX_MEMP = _T.mem_theory(LP, "place")       # membership in a list of places (opaque; definitional axioms)
_lx = z3.Const("ls!x", PNode)


def list_set(l):
    return z3.Lambda([_lx], MemP(l, _lx))


def _rule_of_fstring(eng, st, node):
    parts = []
    for p in node.values:
        if isinstance(p, ast.Constant) and isinstance(p.value, str):
            parts.append(p.value)
        elif isinstance(p, ast.FormattedValue) and p.format_spec is None and p.conversion == -1:
            try:
                v = eng.ev(p.value, st)
            except OutOfSubset:
                return None
            if not (v.ty == TPNode or isinstance(v, _Join)):
                return None
            parts.append(v)
        else:
            return None
    consts = tuple(p if isinstance(p, str) else None for p in parts)
    vals = [p for p in parts if not isinstance(p, str)]
    atom = lambda v: v.ty == TPNode

    def head_set(v):        # disjunction
        if atom(v):
            return single(v.t)
        if v.sep == "; ":
            return v.set
        return None

    def body_set(v):        # conjunction (clingo accepts both "," and ";" between body literals)
        if atom(v):
            return single(v.t)
        if v.sep in (", ", "; "):
            return v.set
        return None
    if consts == ("{", None, "}.") and atom(vals[0]):
        return Val(TRule, Rule.choice(vals[0].t))
    if consts == (":- ", None, ", ", None, ".") and atom(vals[0]) and atom(vals[1]):
        return Val(TRule, Rule.constraint(pair(vals[0].t, vals[1].t)))
    if consts in ((None, " ; ", None, "."), (None, "; ", None, "."), (None, ";", None, "."), (None, " ;", None, ".")) and atom(vals[0]) and atom(vals[1]):
        return Val(TRule, Rule.disj(pair(vals[0].t, vals[1].t)))
    if consts == (None, "."):
        h = head_set(vals[0])
        if h is not None:
            return Val(TRule, Rule.disj(h))
    if consts == (":- ", None, "."):
        b = body_set(vals[0])
        if b is not None:
            return Val(TRule, Rule.constraint(b))
    if consts == (None, " :- ", None, ".") and atom(vals[1]):
        h = head_set(vals[0])
        if h is not None:
            return Val(TRule, Rule.imp(h, vals[1].t))
    return None


def install(reg):
    reg.models = [(p, (PNGModelAsp() if type(m) is PNGModel else m)) for p, m in reg.models]
    reg.add_model(lambda v: v.ty == TCtl, CtlModel())
    reg.add_model(lambda v: isinstance(v, E._StrLit), StrLitModel())
    reg.extra_trusted.append(TRUSTED)
    # the rule hook must run before the generic string hook
    reg.hooks.setdefault("fstring", []).insert(0, _rule_of_fstring)

    def control(eng, st, node):
        if len(node.args) != 1 or not isinstance(node.args[0], ast.List) or len(node.args[0].elts) != 4:
            raise OutOfSubset("Control(<options>) of an unexpected shape")
        opts = [eng.ev(x, st) for x in node.args[0].elts]
        if not all(isinstance(o, E._StrLit) for o in opts[:3]):
            raise OutOfSubset("Control option that is not a literal on this path")
        if [o.s for o in opts[:3]] != ["0", "--heuristic=Domain", "--enum-mod=domRec"]:
            raise OutOfSubset("Control options changed (enumeration mode is part of the trusted clingo contract)")

        def dom_mod(o):
            if isinstance(o, E._StrChoice):
                return z3.If(o.c, dom_mod(o.a), dom_mod(o.b))
            dm = {"--dom-mod=3, 16": 3, "--dom-mod=5, 16": 5}.get(o.s) if isinstance(o, E._StrLit) else None
            if dm is None:
                raise OutOfSubset(f"unknown --dom-mod option {getattr(o, 's', o)!r}")
            return z3.IntVal(dm)
        return Val(TCtl, Ctl.mk(z3.K(Rule, z3.BoolVal(False)), dom_mod(opts[3])))
    reg.global_calls["Control"] = control

    def to_list(eng, st, v, node):
        if isinstance(v.ty, TSet) and v.ty.elem == TPNode:
            return _ListOfSet(v.t)
        return None
    reg.add_hook("to_list", to_list)

    def contains(eng, st, coll, x, node):
        if isinstance(coll, _ListOfSet):
            return coll.set[x.t]
        return None
    reg.add_hook("contains", contains)

    def to_set(eng, st, v, node):
        if isinstance(v, _ListOfSet):
            return Val(TSet(TPNode), v.set)
        return None
    reg.add_hook("to_set", to_set)

    def size_of(eng, st, v, node):
        if isinstance(v, _ListOfSet):
            # an enumeration without repetition: its length is the cardinality of the set (0 iff the set is empty)
            n = z3.Int(fresh_name("len"))
            x = z3.Const(fresh_name("x"), PNode)
            st.assume(z3.And(n >= 0, (n == 0) == z3.ForAll([x], z3.Not(v.set[x]))))
            return vint(n)
        return None
    reg.add_hook("size_of", size_of)

    def iterate(eng, st, coll, node):
        if isinstance(coll, _NodesData):
            return coll
        if isinstance(coll, _ListOfSet):
            return E._SetIter(Val(TSet(TPNode), coll.set))      # each element once, arbitrary order
        return None
    reg.add_hook("iterate", iterate)

    def equals(eng, st, a, b):
        if isinstance(b, _Kind):
            a, b = b, a
        if isinstance(a, _Kind) and isinstance(b, E._StrLit):
            return a.t == KIND[b.s] if b.s in KIND else z3.BoolVal(False)
        return None
    reg.add_hook("equals", equals)

    def isinst(eng, st, v, tnode):
        if isinstance(tnode, ast.Name) and tnode.id == "str" and v.ty == TPNode:
            return vbool(True)
        return None
    reg.add_hook("isinstance", isinst)

    def comp_whole(eng, e, st, kind, coll):
        """[variable_to_place(k, c(k)) for k in <space>]: the image of the key set under the injective place constructor,
        written without a quantifier: { p | is_place(p), pvar(p) in dom, ppos(p) = c(pvar(p)) }"""
        if kind != "list" or len(e.generators) != 1 or e.generators[0].ifs is None:
            return None
        src = coll.coll if isinstance(coll, E._SpaceKeysIter) and not coll.items else coll
        if getattr(src, "ty", None) != TSpace:
            return None
        g = e.generators[0]
        sub = st.clone()
        k = z3.Const(fresh_name("ck"), Name)
        eng.assign(g.target, Val(TName, k), sub)
        n0 = len(eng.obls)
        flt = [eng.truth(eng.ev(c, sub)) for c in g.ifs]
        ev = eng.ev(e.elt, sub)
        if ev.ty != TPNode or not (z3.is_app(ev.t) and ev.t.decl().eq(place) and z3.eq(ev.t.arg(0), k)):
            del eng.obls[n0:]
            return None
        for o in eng.obls[n0:]:
            o.pc.append(indom(src.t, k))
        p = z3.Const("cw!p", PNode)
        sb = lambda f: z3.substitute(f, (k, pvar(p)))
        body = z3.And(is_place(p), sb(indom(src.t, k)), *[sb(f) for f in flt], ppos(p) == sb(ev.t.arg(1)))
        return _ListOfSet(z3.Lambda([p], body))
    reg.add_hook("comprehension_whole", comp_whole)


# ---------------------------------------------------------------------- names of a Petri net (extract_variable_names / extract_source_variables)
LNm = TList(TName)
NameSet = z3.ArraySort(Name, B)
MemName, AX_MEMNAME = _T.mem_theory(LNm, "nm")
SortedNames = z3.Function("SortedNames", NameSet, LNm.sort())      # sorted(<set of names>): the elements in ascending string order
change_of = z3.Function("pn_change", PNode, TOpt(TName).sort())    # node attribute `change` (None for places)
up_of = z3.Function("pn_direction_is_up", PNode, B)                # node attribute `direction` == "up" (transitions)
_ns, _nk = z3.Const("s!sn", NameSet), z3.Const("k!sn", Name)
_ia, _ib = z3.Int("a!sn"), z3.Int("b!sn")
AX_SORTED = [
    # sorted() of a finite set of names enumerates exactly its elements, each once (the order itself - string comparison - is not modelled;
    # the result is a FUNCTION of the set, which is what reproducibility needs)
    z3.ForAll([_ns], z3.And(LNm.len(SortedNames(_ns)) >= 0,
                            z3.ForAll([_nk], MemName(SortedNames(_ns), _nk) == _ns[_nk]),
                            z3.ForAll([_ia, _ib], z3.Implies(z3.And(0 <= _ia, _ia < _ib, _ib < LNm.len(SortedNames(_ns))),
                                                             LNm.at(SortedNames(_ns))[_ia] != LNm.at(SortedNames(_ns))[_ib]))),
              patterns=[SortedNames(_ns)]),
]
TRUSTED["sorted(<names>)"] = "returns the distinct elements in a fixed total order: modelled as the function SortedNames of the element set"
_mk = z3.Const("mn!k", Name)
LSetF = z3.Function("LSet", LNm.sort(), NameSet)               # the same symbol as contracts/deps.py LSet (element set of a list of names)
SrcSetG = z3.Function("SrcSetG", PNGraph, NameSet)            # variables of the net that no transition changes
VarSetG = z3.Function("VarSetG", PNGraph, NameSet)            # variables of the net (those with a negative place)
_gg, _nn = z3.Const("g!sg", PNGraph), z3.Const("n!sg", PNode)


def changed_by_some(g, v, among=None):
    n = _nn
    cond = PNGraph.nodes(g)[n] if among is None else among[n]
    return z3.Exists([n], z3.And(cond, change_of(n) == TOpt(TName).some(v)))


AX_NAMESETS = [
    z3.ForAll([_gg, _nk], VarSetG(_gg)[_nk] == PNGraph.nodes(_gg)[place(_nk, False)], patterns=[VarSetG(_gg)[_nk]]),
    z3.ForAll([_gg, _nk], SrcSetG(_gg)[_nk] == z3.And(VarSetG(_gg)[_nk], z3.Not(changed_by_some(_gg, _nk))), patterns=[SrcSetG(_gg)[_nk]]),
    z3.ForAll([_ns], LSetF(SortedNames(_ns)) == _ns, patterns=[SortedNames(_ns)]),
]


def name_set(l):
    """element set of a list of names (fixed bound variable)"""
    return z3.Lambda([_mk], MemName(l, _mk))


class _NodesAttr(_NodesData):
    def pick(self, st, gh):
        k = z3.Const(fresh_name("node"), PNode)
        st.assume(self.set[k])
        st.assume(z3.Not(gh["visited"][k]))
        gh["cur"] = k
        return E._PyTuple([Val(TPNode, k), Val(TOpt(TName), change_of(k))])


class PNGModelNames(PNGModelAsp):
    def method(self, eng, st, v, meth, args, kw, node, recv_expr=None):
        if meth == "nodes" and not args and not kw:
            return Val(TSet(TPNode), PNGraph.nodes(v.t))
        if meth == "nodes" and not args and set(kw) == {"data"} and isinstance(kw["data"], E._StrLit) and kw["data"].s == "change":
            return _NodesAttr(v, "change")
        return super().method(eng, st, v, meth, args, kw, node, recv_expr)


class PNodeModel(ObjModel):
    """node names: only the two prefix tests of the place encoding are modelled (is_place = has prefix b0_ or b1_; ppos = prefix b1_)"""

    def method(self, eng, st, v, meth, args, kw, node, recv_expr=None):
        if meth == "startswith" and len(args) == 1 and isinstance(args[0], E._StrLit):
            if args[0].s == "b0_":
                return vbool(z3.And(is_place(v.t), z3.Not(ppos(v.t))))
            if args[0].s == "b1_":
                return vbool(z3.And(is_place(v.t), ppos(v.t)))
        raise OutOfSubset(f"str.{meth} on a node name")


_install_asp0 = install


def install(reg):
    _install_asp0(reg)
    reg.models = [(p, (PNGModelNames() if type(m) is PNGModelAsp else m)) for p, m in reg.models]
    reg.add_model(lambda v: v.ty == TPNode, PNodeModel())

    def iterate(eng, st, coll, node):
        if isinstance(coll, _NodesAttr):
            return coll
        return None
    reg.add_hook("iterate", iterate)

    def sorted_names(eng, st, v, kw, node):
        if kw:
            return None
        if isinstance(v.ty, TList) and v.ty.elem == TName:
            # sorted(list) keeps duplicates; the set-based model applies to duplicate-free lists only
            a, b = z3.Int(fresh_name("a")), z3.Int(fresh_name("b"))
            eng.oblige(st, f"sorted.argument_has_no_duplicates@{node.lineno}", z3.ForAll([a, b], z3.Implies(
                z3.And(0 <= a, a < b, b < LNm.len(v.t)), LNm.at(v.t)[a] != LNm.at(v.t)[b])), node.lineno, kind="model")
            return Val(LNm, SortedNames(name_set(v.t)))
        if isinstance(v.ty, TSet) and v.ty.elem == TName:
            return Val(LNm, SortedNames(v.t))
        return None
    reg.add_hook("sorted", sorted_names)


# ---------------------------------------------------------------------- grounding / solving (assumed clingo behaviour)
from .pnmodel import TModel
LModels = TList(TModel)
EnumModels = z3.Function("EnumModels", Ctl, LModels.sort())     # the enumeration clingo produces for this program and enumeration mode
TRUSTED["clingo.Control.ground / solve(yield_=True) / SolveHandle"] = (
    "ground() does not change the meaning of the program; solve(yield_=True) returns a SolveHandle (also for unsatisfiable programs) "
    "whose iteration yields the models of the enumeration EnumModels(program, mode), each once, in the solver's order; "
    "a solver failure is a RuntimeError; leaving the with-block only releases the handle")


class _SolveHandle(Val):
    def __init__(self, ctl):
        self.ctl = ctl
        self.ty = THelper("solve-handle")
        self.t = None


class CtlModel2(CtlModel):
    def method(self, eng, st, v, meth, args, kw, node, recv_expr=None):
        if meth == "ground":
            if args and not isinstance(args[0], E._PyList):
                raise OutOfSubset("Control.ground(<parts>) of an unexpected shape")
            return NONE
        if meth == "solve":
            if args or set(kw) != {"yield_"} or not z3.is_true(z3.simplify(eng.truth(kw["yield_"]))):
                raise OutOfSubset("Control.solve without yield_=True")
            fs = st.clone()
            eng.fork_raise(fs, "RuntimeError")
            st.ghost["solved_ctl"] = v.t          # the program that is actually solved (the contract speaks about it)
            return _SolveHandle(v)
        return super().method(eng, st, v, meth, args, kw, node, recv_expr)


_install_asp1 = install


def install(reg):
    _install_asp1(reg)
    reg.models = [(p, (CtlModel2() if type(m) is CtlModel else m)) for p, m in reg.models]

    def isinst(eng, st, v, tnode):
        if isinstance(tnode, ast.Name) and tnode.id == "SolveHandle":
            return vbool(isinstance(v, _SolveHandle))
        if isinstance(tnode, ast.Name) and tnode.id == "DiGraph":
            return vbool(v.ty == TPNG or (isinstance(v.ty, TObj) and v.ty.name == "PetriNet"))
        return None
    reg.add_hook("isinstance", isinst)

    def with_enter(eng, st, cm, node):
        if isinstance(cm, _SolveHandle):
            ms = Val(LModels, EnumModels(cm.ctl.t))
            st.assume(LModels.len(ms.t) >= 0)
            return ms
        return None
    reg.add_hook("with_enter", with_enter)


# ---------------------------------------------------------------------- variable names of a BooleanNetwork (trappist_async on a network)
from .externals_aeon import TNetObj, bn_net_of
VarNamesOf = z3.Function("VarNamesOf", TNetObj.sort(), LNm.sort())     # [bn.get_variable_name(v) for v in bn.variables()]
_bq = z3.Const("b!vn", TNetObj.sort())
AX_VARNAMES = [
    z3.ForAll([_bq], z3.And(LNm.len(VarNamesOf(_bq)) >= 0,
                            z3.ForAll([_nk], MemName(VarNamesOf(_bq), _nk) == _T.isvar(bn_net_of(_bq), _nk)),
                            z3.ForAll([_ia, _ib], z3.Implies(z3.And(0 <= _ia, _ia < _ib, _ib < LNm.len(VarNamesOf(_bq))),
                                                             LNm.at(VarNamesOf(_bq))[_ia] != LNm.at(VarNamesOf(_bq))[_ib]))),
              patterns=[VarNamesOf(_bq)]),
]
TRUSTED["aeon.BooleanNetwork.variables / get_variable_name"] = "the variables of the network in declaration order, each once, with their names"

_install_asp2 = install


def install(reg):
    _install_asp2(reg)

    def comp_whole(eng, e, st, kind, coll):
        """[bn.get_variable_name(v) for v in bn.variables()]  ->  VarNamesOf(bn)"""
        if kind != "list" or len(e.generators) != 1 or e.generators[0].ifs:
            return None
        g = e.generators[0]
        it, el = g.iter, e.elt
        if not (isinstance(it, ast.Call) and isinstance(it.func, ast.Attribute) and it.func.attr == "variables" and not it.args
                and isinstance(el, ast.Call) and isinstance(el.func, ast.Attribute) and el.func.attr == "get_variable_name"
                and len(el.args) == 1 and isinstance(el.args[0], ast.Name) and isinstance(g.target, ast.Name) and el.args[0].id == g.target.id
                and ast.dump(it.func.value) == ast.dump(el.func.value)):
            return None
        try:
            bn = eng.ev(it.func.value, st)
        except OutOfSubset:
            return None
        if bn.ty != TNetObj:
            return None
        return Val(LNm, VarNamesOf(bn.t))
    reg.hooks.setdefault("comprehension_whole", []).insert(0, comp_whole)
