"""itertools.combinations / product and zip, with their mathematical meaning (DESIGN.md 1.3):
combinations(S, k): every k-element subset of the set S exactly once (as an unordered collection);
product([0, 1], repeat=k) zipped with a k-element collection: every 0/1 assignment of it exactly once."""
from __future__ import annotations
import ast
import z3
from .vtypes import *
from . import engine as E
from .externals_aeon import setcard

SN = TSet(TName)
_SSN = z3.ArraySort(z3.ArraySort(Name, B), B)


class TEnum(Ty):
    """a string parameter ranging over a known vocabulary, encoded as an int (index; -1 = any other string)"""

    def __init__(self, values):
        self.values = list(values)
        self.name = "enum[" + ",".join(values) + "]"

    def sort(self):
        return I


class _ItemsPlus(Val):
    """space.items() | {(name, value), ...}: a set of pairs, only used on the right of `<=`"""

    def __init__(self, view, extra):
        self.view, self.extra = view, extra
        self.ty = THelper("items-union")
        self.t = None


class _CombIter(E._IterSpec):
    """for D in combinations(pool, k): D ranges over the k-subsets of pool, each once, arbitrary order"""

    def __init__(self, pool, k):
        self.pool, self.k = pool, k

    def start(self):
        return {"visited": z3.K(SN.sort(), z3.BoolVal(False))}

    def arbitrary(self, st):
        return {"visited": z3.Const(fresh_name("visited_sets"), _SSN)}

    def pick(self, st, gh):
        D = SN.fresh("driver_set")
        x = z3.Const(fresh_name("x"), Name)
        st.assume(z3.ForAll([x], z3.Implies(D.t[x], self.pool.t[x])))
        st.assume(setcard(D.t) == self.k)
        st.assume(z3.Not(gh["visited"][D.t]))
        gh["cur"] = D.t
        return D

    def advance(self, gh):
        return {"visited": z3.Store(gh["visited"], gh["cur"], True)}

    def finished(self, st, gh):
        D = z3.Const(fresh_name("D"), SN.sort())
        x = z3.Const(fresh_name("x"), Name)
        st.assume(z3.ForAll([D], gh["visited"][D] == z3.And(setcard(D) == self.k, z3.ForAll([x], z3.Implies(D[x], self.pool.t[x])))))


class _ProductToken(Val):
    def __init__(self):
        self.ty = THelper("product-token")
        self.t = None


class _ProductIter(E._IterSpec):
    """for vals in product([0, 1], repeat=k): opaque tokens; the assignment they denote is created by zip(...)"""

    def start(self):
        return {}

    def arbitrary(self, st):
        return {}

    def pick(self, st, gh):
        return _ProductToken()

    def advance(self, gh):
        return {}

    def finished(self, st, gh):
        pass


class _ZipAssign(Val):
    def __init__(self, D):
        self.D = D
        self.ty = THelper("zip(set,product-token)")
        self.t = None


def install(reg):
    def combinations(eng, st, node):
        pool = eng.ev(node.args[0], st)
        k = eng.ev(node.args[1], st)
        if not (isinstance(pool.ty, TSet) and pool.ty.elem == TName and k.ty == TInt):
            raise OutOfSubset("combinations of a non-set")
        return _CombIter(pool, k.t)
    reg.global_calls["combinations"] = combinations

    def product(eng, st, node):
        kw = {k.arg: k.value for k in node.keywords}
        if len(node.args) == 1 and isinstance(node.args[0], ast.List) and [getattr(x, "value", None) for x in node.args[0].elts] == [0, 1] and "repeat" in kw:
            return _ProductIter()
        return None
    reg.global_calls["product"] = product

    def zip_(eng, st, node):
        a, b = eng.ev(node.args[0], st), eng.ev(node.args[1], st)
        if isinstance(a.ty, TSet) and a.ty.elem == TName and isinstance(b, _ProductToken):
            return _ZipAssign(a)
        return None
    reg.global_calls["zip"] = zip_

    def comp_whole(eng, e, st, kind, coll):
        # {driver: value for driver, value in zip(driver_set, vals)}: an arbitrary 0/1 assignment of exactly driver_set
        if kind == "dict" and isinstance(coll, _ZipAssign):
            g = e.generators[0]
            if (isinstance(g.target, ast.Tuple) and len(g.target.elts) == 2 and not g.ifs and isinstance(e.key, ast.Name) and isinstance(e.value, ast.Name)
                    and e.key.id == g.target.elts[0].id and e.value.id == g.target.elts[1].id):
                dd = TSpace.fresh("assignment")
                x = z3.Const(fresh_name("x"), Name)
                st.assume(z3.ForAll([x], z3.And((dd.t[x] >= 0) == coll.D.t[x], dd.t[x] >= -1, dd.t[x] <= 1)))
                return dd
        return None
    reg.add_hook("comprehension_whole", comp_whole)

    def equals(eng, st, a, b):
        if isinstance(a.ty, TEnum) and isinstance(b, E._StrLit):
            return a.t == (a.ty.values.index(b.s) if b.s in a.ty.values else -2)
        if isinstance(b.ty, TEnum) and isinstance(a, E._StrLit):
            return b.t == (b.ty.values.index(a.s) if a.s in b.ty.values else -2)
        return None
    reg.add_hook("equals", equals)

    def coerce(eng, st, v, ty):
        if isinstance(ty, TEnum) and isinstance(v, E._StrLit):
            return Val(ty, z3.IntVal(ty.values.index(v.s) if v.s in ty.values else -1))
        return None
    reg.add_hook("coerce", coerce)

    def compare(eng, st, op, a, b, node):
        # dict.items() <= dict.items(): every item of a is an item of b
        from .calls import _ItemsView
        if isinstance(op, ast.LtE) and isinstance(a, _ItemsView) and isinstance(b, _ItemsView):
            x = z3.Const(fresh_name("x"), Name)
            return z3.ForAll([x], z3.Implies(a.space.t[x] >= 0, b.space.t[x] == a.space.t[x]))
        if isinstance(op, ast.LtE) and isinstance(a, _ItemsView) and isinstance(b, _ItemsPlus):
            # d.items() <= (e.items() | {pairs}): every item of d is an item of e or one of the extra pairs
            x = z3.Const(fresh_name("x"), Name)
            KT = b.extra.ty.elem
            return z3.ForAll([x], z3.Implies(a.space.t[x] >= 0, z3.Or(b.view.space.t[x] == a.space.t[x], b.extra.t[KT.mk(x, a.space.t[x])])))
        return None
    reg.add_hook("compare", compare)

    def items_union(eng, st, op, a, b, node):
        from .calls import _ItemsView
        if isinstance(op, ast.BitOr) and isinstance(a, _ItemsView) and isinstance(b.ty, TSet) and isinstance(b.ty.elem, TTuple) \
                and tuple(b.ty.elem.elems) == (TName, TInt):
            return _ItemsPlus(a, b)
        return None
    reg.add_hook("binop", items_union)
