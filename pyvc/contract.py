"""Sidecar contract objects and the registry that attaches them to the real functions.

A contract never contains repository code. It names the function, gives symbolic types to the
parameters, and states requires / ensures / raises / loop invariants as callables that receive a
`Ctx` (current values, old values, result, ghost loop state) and return z3 formulas.
The same object is used twice: to verify the function's own body, and — at call sites of the
function inside other verified bodies — as the only thing known about it (modular verification).
"""
from __future__ import annotations
import z3
from .vtypes import *
from . import engine as E


class Ctx:
    """Namespace handed to contract lambdas. Attribute access gives z3 terms of parameters/locals
    (`c.x`), `c.old.x` entry values, `c.result`, `c.val('x')` the typed Val, ghost loop state
    (`c.visited`, `c.i`), and heap views via `c.obj('sd')`."""

    def __init__(self, eng, st, env, result=None, ghost=None, old=None):
        object.__setattr__(self, "_eng", eng)
        object.__setattr__(self, "_st", st)
        object.__setattr__(self, "_env", env)
        object.__setattr__(self, "_result", result)
        object.__setattr__(self, "_ghost", ghost or {})
        object.__setattr__(self, "_old", old)

    def val(self, name) -> Val:
        return self._env[name]

    def has(self, name):
        return name in self._env

    @property
    def old(self):
        return self._old

    @property
    def result(self):
        if self._result is None and "result" in self._env:   # a local variable that happens to be called `result`
            return self._env["result"].t
        return self._result

    def local(self, name):
        return self._env[name].t

    def head(self, ordn):
        """heap views as they were at the head of the current iteration of loop `ordn`"""
        return OldCtx(self._eng, self._st.ghost[f"head{ordn}"], self._env)

    def at_entry(self, ordn):
        """heap views as they were when loop `ordn` was entered (before its first iteration)"""
        return OldCtx(self._eng, self._st.ghost[f"entry{ordn}"], self._env)

    def entry_local(self, ordn, name):
        """value (z3 term) a local variable had when `for` loop `ordn` was entered (before its first iteration)"""
        return self._st.ghost[f"entryenv{ordn}"][name].t

    def exit_local(self, ordn, name):
        """value (z3 term) a local variable had when `for` loop `ordn` was left normally; KeyError if the path did not run that loop"""
        return self._st.ghost[f"exitenv{ordn}"][name].t

    def passed_loop(self, ordn):
        return f"exitenv{ordn}" in self._st.ghost

    def has_local(self, name):
        return name in self._env

    def at_head(self, ordn, name):
        """value (z3 term) a local variable had at the head of the current iteration of loop `ordn`"""
        return self._st.ghost[f"headenv{ordn}"][name].t

    def outer(self, ordn):
        """ghost state of an enclosing `for` loop (its current iteration)"""
        return self._st.ghost[f"loop{ordn}"]

    @property
    def st(self):
        return self._st

    @property
    def eng(self):
        return self._eng

    def obj(self, name):
        """View of a heap object bound to parameter/local `name` (current state)."""
        ref = self._env[name]
        return self._eng.reg.model_for(ref).view(self._st.heap[ref.t] if not isinstance(self._st, dict) else self._st[ref.t])

    def __getattr__(self, name):
        if name in self._ghost:
            return self._ghost[name]
        if name in self._env:
            v = self._env[name]
            if isinstance(v, E.Ref):
                return self.obj(name)
            return v.t
        raise AttributeError(name)


class OldCtx(Ctx):
    def obj(self, name):
        ref = self._env[name]
        return self._eng.reg.model_for(ref).view(self._st[ref.t])


class LoopContract:
    def __init__(self, fingerprint, invariant=None, variant=None, local_types=None, havoc_heap=None, lemmas=None):
        self._lemmas = lemmas or []
        self.fingerprint = fingerprint
        self._inv = invariant or (lambda c: [])
        self._var = variant
        self._lt = local_types or {}
        self._hh = havoc_heap or []
        self.contract = None

    def invariant(self, eng, st, ghost):
        c = self.contract.ctx(eng, st, ghost=ghost)
        for nm, f in self._lemmas:
            try:
                g = f(c)
            except KeyError:
                continue          # refers to a loop-head snapshot that does not exist at this point
            st.assume(g)
            eng.used_lemmas.add(nm)
        out = self._inv(c)
        return [(nm, g) for nm, g in out]

    def variant(self, eng, st, ghost):
        if self._var is None:
            return None
        return self._var(self.contract.ctx(eng, st, ghost=ghost))

    def local_type(self, name, cur):
        if name in self._lt:
            return self._lt[name]
        if name in self.contract.local_types:
            return self.contract.local_types[name]
        return cur

    def havoc_heap(self, eng, st):
        out = []
        items = self._hh.items() if isinstance(self._hh, dict) else [(nm, None) for nm in self._hh]
        for nm, fields in items:
            v = st.env.get(nm)
            if isinstance(v, E.Ref):
                out.append((v.t, fields))
        return out


class HeapParam:
    def __init__(self, cls):
        self.cls = cls


class CustomParam:
    """a parameter whose symbolic value is built by `make(eng, st, name) -> Val` (records, helper values)"""

    def __init__(self, make):
        self.make = make


class Contract:
    def __init__(self, qualname, params, requires=None, ensures=None, raises=None, loops=None,
                 local_types=None, modifies=None, result_type=None, assumed_asserts=None,
                 pure=None, trusted=False, defaults=None, properties=(), note="", may_raise=None,
                 captured=None, lemmas=None, ann_types=None, axioms=None, custom_apply=None, append_schema=None, trusted_fragments=None, merge_ifs=False, body_params=None, rec_variant=None, raising_asserts=None):
        self.qualname = qualname
        self.raising_asserts = raising_asserts or []   # substrings of assert tests that are declared exceptional outcomes (AssertionError), not obligations
        self.rec_variant = rec_variant        # measure (lambda c -> Int term) that decreases at every recursive call
        self.body_params = body_params        # parameter typing used when the BODY is verified (default: params)
        self.merge_ifs = merge_ifs            # join the branches of simple if-statements instead of forking paths
        self.short = qualname.split(".", 1)[1] if qualname.startswith("biobalm.") else qualname
        self.params = params                  # list of (name, Ty | HeapParam)
        self.requires = requires or []        # list of lambda c -> z3 Bool
        self.ensures = ensures or []          # list of (name, lambda c -> z3 Bool)
        self.raises = raises or {}            # exc name -> list of (name, lambda c)
        self.loops = loops or {}
        for lc in self.loops.values():
            lc.contract = self
        self.local_types = local_types or {}
        self.modifies = modifies or {}        # param name -> True | list of heap fields
        self.result_type = result_type
        self.assumed_asserts = assumed_asserts or []
        self.pure = pure
        self.generator = False                # True: the function is a generator (call sites receive a one-shot iterable)
        self.trusted = trusted                # True: assumed contract (dependency / not verified against a body)
        self.defaults = defaults or {}
        self.properties = tuple(properties)
        self.note = note
        self.may_raise = may_raise or {}      # call-site: exc -> (condition lambda c | None)
        self.captured = captured or []        # nested def: names captured from the enclosing function
        self.lemmas = lemmas or []            # (lemma name, lambda c -> instance) assumed at every exit
        self.ann_types = ann_types or {}      # annotation text -> Ty overriding the global table
        self.axioms = axioms or []
        self.trusted_fragments = trusted_fragments or []
        self.custom_apply = custom_apply      # call-site handler replacing the generic requires/havoc/ensures flow
        self.append_schema = append_schema    # callbacks: {'list': captured list name, 'cont': lambda c, newlen -> Bool}

    # ----- body verification side
    def ctx(self, eng, st, result=None, ghost=None, at_exit=False):
        old = None
        env = st.env
        # flow typing may have narrowed an Optional parameter (after `x is not None`) or replaced it by a default; contract
        # lambdas always see parameters at their DECLARED type: a narrowed value v is presented as some(v)
        widened = None
        for nm, ty in list(self.params) + list(self.captured) + list(self.local_types.items()):
            cur = st.env.get(nm)
            if isinstance(ty, TOpt) and cur is not None and not isinstance(cur, E.Ref) and cur.ty == ty.elem:
                widened = widened or dict(st.env)
                widened[nm] = Val(ty, ty.some(cur.t))
            elif isinstance(ty, TOpt) and cur is not None and cur.ty == TNoneLit:
                widened = widened or dict(st.env)
                widened[nm] = ty.none()
            elif isinstance(ty, TOpt) and cur is not None and isinstance(cur.ty, TEmpty) and hasattr(ty.elem, "empty"):
                widened = widened or dict(st.env)
                widened[nm] = Val(ty, ty.some(ty.elem.empty().t))
        if widened is not None:
            env = widened
        if st.old:
            old = OldCtx(eng, st.old["heap"], st.old["env"])
            if at_exit:
                # in postconditions a parameter name denotes the ARGUMENT (entry value) unless the contract
                # declares the parameter as modified in place; locals keep their final values
                env = dict(env)
                for nm, _ in list(self.params) + list(self.captured):
                    if not self.modifies.get(nm) and nm in st.old["env"]:
                        env[nm] = st.old["env"][nm]
        return Ctx(eng, st, env, result=result, ghost=ghost, old=old)

    def bind_params(self, eng, st):
        for name, ty in list(self.params) + list(self.captured):
            st.env[name] = eng.reg.fresh_param(eng, st, name, ty)

    def assume_entry_lemmas(self, eng, st):
        """lemma instances that only mention the entry state are available throughout the body"""
        c = self.ctx(eng, st)
        for nm, f in self.lemmas:
            try:
                g = f(c)
            except Exception:
                continue      # mentions the result or a local: only available at exits
            if not z3.is_expr(g) or z3.is_false(g):
                continue      # `c.result == ...` with no result yet evaluates to a Python / literal False: not an entry fact
            st.assume(g)
            eng.used_lemmas.add(nm)

    def requires_terms(self, eng, st):
        c = self.ctx(eng, st)
        return [r(c) for r in self.requires]

    def ensures_terms(self, eng, st, result):
        if self.result_type is not None and result is not None and not isinstance(result, E.Ref):
            result = eng.coerce(result, self.result_type, st)
        c = self.ctx(eng, st, result=result.t if (result is not None and not isinstance(result, E.Ref)) else result, at_exit=True)
        object.__setattr__(c, "_result_val", result)
        for nm, f in self.lemmas:
            try:
                g = f(c)
            except (AttributeError, KeyError):
                continue          # mentions a local that does not exist on this exit path
            st.assume(g)
            eng.used_lemmas.add(nm)
        return [(nm, f(c)) for nm, f in self.ensures]

    def raises_terms(self, eng, st, exc):
        if exc not in self.raises:
            return None
        c = self.ctx(eng, st, at_exit=True)
        return [(nm, f(c)) for nm, f in self.raises[exc]]

    def loop(self, ordn):
        return self.loops.get(ordn)

    def assert_is_assumed(self, line, text):
        return any(a in text for a in self.assumed_asserts)

    def type_of_annotation(self, text):
        t = text.replace(" ", "")
        return self.ann_types.get(t, ANNOTATIONS.get(t))

    def modifies_param(self, idx, name):
        if name is None:
            if idx >= len(self.params):
                return False
            name = self.params[idx][0]
        return bool(self.modifies.get(name))


ANNOTATIONS = {
    "BooleanSpace": TSpace,
    "list[BooleanSpace]": TList(TSpace),
    "set[str]": TSet(TName),
    "list[str]": TList(TName),
    "set[int]": TSet(TInt),
    "list[int]": TList(TInt),
    "dict[int,int]": TDict(TInt, TInt),
    "list[tuple[int,BooleanSpace]]": TList(TTuple(TInt, TSpace)),
    "list[tuple[int,list[int]|None]]": TList(TTuple(TInt, TOpt(TList(TInt)))),
    "int": TInt,
    "bool": TBool,
}
