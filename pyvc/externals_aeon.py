"""ASSUMED contracts on biodivine_aeon objects (DESIGN.md section 4). Nothing here is proved; every
entry is listed in the trusted base of the evidence files and exercised by the bounded conformance
sweep.  Views: AsynchronousGraph g -> net(g) : Net ;  Bdd b -> EvalOn(b, .) / sem(b, .)."""
from __future__ import annotations
import z3
from .vtypes import *
from . import engine as E
from . import theory as T
from .registry import ObjModel

TGraph = TObj("AsyncGraph")
TBdd = TObj("Bdd")       # NB: same SMT sort as theory.Bdd
TNetObj = TObj("BooleanNetwork")
_obj_sorts = None

# make TObj("Bdd").sort() the theory's Bdd sort, and graph -> Net view
from . import vtypes as _vt
_vt._obj_sorts["Bdd"] = T.Bdd
net_of = z3.Function("net_of", TGraph.sort(), T.Net)
bn_net_of = z3.Function("bn_net_of", TNetObj.sort(), T.Net)
restrict_bdd = z3.Function("r_restrict", T.Bdd, T.SpaceS, T.Bdd)
bddvar = z3.Function("bddvar", T.Bdd, Name, B)      # the BDD's symbolic context knows this name
EMPTY = z3.K(Name, z3.IntVal(-1))

TRUSTED = {
    "aeon.AsynchronousGraph.network_variable_names": "returns each variable name of the network exactly once",
    "aeon.AsynchronousGraph.mk_update_function": "returns the BDD of the variable's update function (free inputs: the identity); raises on unknown names",
    "aeon.Bdd.is_true/is_false": "decide whether the function is constant true / constant false",
    "aeon.Bdd.r_restrict": "substitutes the fixed values: EvalOn(r_restrict(b, s), {}) = EvalOn(b, s); names outside the BDD's variable set raise IndexError",
}


class GraphModel(ObjModel):
    def method(self, eng, st, v, meth, args, kw, node, recv_expr=None):
        N = net_of(v.t)
        if meth == "network_variable_names":
            # a list without repetition whose element set is vars(N)
            ty = TList(TName)
            res = ty.fresh("varnames")
            i, j = z3.Int(fresh_name("i")), z3.Int(fresh_name("j"))
            k = z3.Const(fresh_name("k"), Name)
            n = ty.len(res.t)
            st.assume(n >= 0)
            st.assume(z3.ForAll([i], z3.Implies(z3.And(0 <= i, i < n), T.isvar(N, ty.at(res.t)[i]))))
            pos = z3.Function(fresh_name("varpos"), Name, I)
            st.assume(z3.ForAll([k], z3.Implies(T.isvar(N, k), z3.And(0 <= pos(k), pos(k) < n, ty.at(res.t)[pos(k)] == k))))
            st.assume(z3.ForAll([i], z3.Implies(z3.And(0 <= i, i < n), pos(ty.at(res.t)[i]) == i)))
            return res
        if meth == "mk_update_function":
            var = args[0]
            if var.ty != TName:
                raise OutOfSubset("mk_update_function on a non-name")
            eng.oblige(st, f"pre.mk_update_function.isvar@{node.lineno}", T.isvar(N, var.t), node.lineno, kind="pre")
            b = T.updbdd(N, var.t)
            k = z3.Const(fresh_name("k"), Name)
            st.assume(z3.ForAll([k], bddvar(b, k) == T.isvar(N, k)))
            return Val(TBdd, b)
        raise OutOfSubset(f"AsynchronousGraph.{meth}")


class BddModel(ObjModel):
    def method(self, eng, st, v, meth, args, kw, node, recv_expr=None):
        if meth == "is_true":
            return vbool(T.EvalOn(v.t, EMPTY) == 1)
        if meth == "is_false":
            return vbool(T.EvalOn(v.t, EMPTY) == 0)
        if meth == "r_restrict":
            s = eng.coerce(args[0], TSpace, st)
            k = z3.Const(fresh_name("k"), Name)
            eng.oblige(st, f"pre.r_restrict.names_known@{node.lineno}",
                       z3.ForAll([k], z3.Implies(s.t[k] >= 0, bddvar(v.t, k))), node.lineno, kind="pre")
            r = restrict_bdd(v.t, s.t)
            st.assume(z3.ForAll([k], bddvar(r, k) == bddvar(v.t, k)))
            st.assume(T.EvalOn(r, EMPTY) == T.EvalOn(v.t, s.t))
            return Val(TBdd, r)
        raise OutOfSubset(f"Bdd.{meth}")


def install(reg):
    reg.add_model(lambda v: v.ty == TGraph, GraphModel())
    reg.add_model(lambda v: v.ty == TBdd, BddModel())


# ---------------------------------------------------------------------- BooleanNetwork object
TRUSTED.update({
    "aeon.BooleanNetwork.variable_count": "number of variables of the network",
})


class NetObjModel(ObjModel):
    def method(self, eng, st, v, meth, args, kw, node, recv_expr=None):
        N = bn_net_of(v.t)
        if meth == "variable_count":
            st.assume(T.nvars(N) >= 0)
            return vint(T.nvars(N))
        raise OutOfSubset(f"BooleanNetwork.{meth}")


_old_install = install


def install(reg):
    _old_install(reg)
    reg.add_model(lambda v: v.ty == TNetObj, NetObjModel())
