"""ASSUMED contracts on biodivine_aeon objects (DESIGN.md section 4). Nothing here is proved; every
entry is listed in the trusted base of the evidence files and exercised by the bounded conformance
sweep.  Views: AsynchronousGraph g -> net(g) : Net ;  Bdd b -> EvalOn(b, .) / sem(b, .)."""
from __future__ import annotations
import z3
from .vtypes import *
from . import engine as E
from . import theory as T
from .registry import ObjModel

TGraph = TObj("AsyncGraph")
TBdd = TObj("Bdd")       # NB: same SMT sort as theory.Bdd
TNetObj = TObj("BooleanNetwork")
_obj_sorts = None

# make TObj("Bdd").sort() the theory's Bdd sort, and graph -> Net view
from . import vtypes as _vt
_vt._obj_sorts["Bdd"] = T.Bdd
net_of = z3.Function("net_of", TGraph.sort(), T.Net)
bn_net_of = z3.Function("bn_net_of", TNetObj.sort(), T.Net)
restrict_bdd = z3.Function("r_restrict", T.Bdd, T.SpaceS, T.Bdd)
bddvar = z3.Function("bddvar", T.Bdd, Name, B)      # the BDD's symbolic context knows this name
EMPTY = z3.K(Name, z3.IntVal(-1))

TRUSTED = {
    "aeon.AsynchronousGraph.network_variable_names": "returns each variable name of the network exactly once",
    "aeon.AsynchronousGraph.mk_update_function": "returns the BDD of the variable's update function (free inputs: the identity); raises on unknown names",
    "aeon.Bdd.is_true/is_false": "decide whether the function is constant true / constant false",
    "aeon.Bdd.r_restrict": "substitutes the fixed values: EvalOn(r_restrict(b, s), {}) = EvalOn(b, s); names outside the BDD's variable set raise IndexError",
}


class GraphModel(ObjModel):
    def method(self, eng, st, v, meth, args, kw, node, recv_expr=None):
        N = net_of(v.t)
        if meth == "network_variable_names":
            # a list without repetition whose element set is vars(N)
            ty = TList(TName)
            res = ty.fresh("varnames")
            i, j = z3.Int(fresh_name("i")), z3.Int(fresh_name("j"))
            k = z3.Const(fresh_name("k"), Name)
            n = ty.len(res.t)
            st.assume(n >= 0)
            st.assume(z3.ForAll([i], z3.Implies(z3.And(0 <= i, i < n), T.isvar(N, ty.at(res.t)[i]))))
            pos = z3.Function(fresh_name("varpos"), Name, I)
            st.assume(z3.ForAll([k], z3.Implies(T.isvar(N, k), z3.And(0 <= pos(k), pos(k) < n, ty.at(res.t)[pos(k)] == k))))
            st.assume(z3.ForAll([i], z3.Implies(z3.And(0 <= i, i < n), pos(ty.at(res.t)[i]) == i)))
            return res
        if meth == "mk_update_function":
            var = args[0]
            if var.ty != TName:
                raise OutOfSubset("mk_update_function on a non-name")
            eng.oblige(st, f"pre.mk_update_function.isvar@{node.lineno}", T.isvar(N, var.t), node.lineno, kind="pre")
            b = T.updbdd(N, var.t)
            k = z3.Const(fresh_name("k"), Name)
            st.assume(z3.ForAll([k], bddvar(b, k) == T.isvar(N, k)))
            return Val(TBdd, b)
        raise OutOfSubset(f"AsynchronousGraph.{meth}")


class BddModel(ObjModel):
    def method(self, eng, st, v, meth, args, kw, node, recv_expr=None):
        if meth == "is_true":
            return vbool(T.EvalOn(v.t, EMPTY) == 1)
        if meth == "is_false":
            return vbool(T.EvalOn(v.t, EMPTY) == 0)
        if meth == "r_restrict":
            s = eng.coerce(args[0], TSpace, st)
            k = z3.Const(fresh_name("k"), Name)
            eng.oblige(st, f"pre.r_restrict.names_known@{node.lineno}",
                       z3.ForAll([k], z3.Implies(s.t[k] >= 0, bddvar(v.t, k))), node.lineno, kind="pre")
            r = restrict_bdd(v.t, s.t)
            st.assume(z3.ForAll([k], bddvar(r, k) == bddvar(v.t, k)))
            st.assume(T.EvalOn(r, EMPTY) == T.EvalOn(v.t, s.t))
            return Val(TBdd, r)
        raise OutOfSubset(f"Bdd.{meth}")


def install(reg):
    reg.add_model(lambda v: v.ty == TGraph, GraphModel())
    reg.add_model(lambda v: v.ty == TBdd, BddModel())


# ---------------------------------------------------------------------- BooleanNetwork object
TRUSTED.update({
    "aeon.BooleanNetwork.variable_count": "number of variables of the network",
})


class NetObjModel(ObjModel):
    def method(self, eng, st, v, meth, args, kw, node, recv_expr=None):
        N = bn_net_of(v.t)
        if meth == "variable_count":
            st.assume(T.nvars(N) >= 0)
            return vint(T.nvars(N))
        raise OutOfSubset(f"BooleanNetwork.{meth}")


_old_install = install


def install(reg):
    _old_install(reg)
    reg.add_model(lambda v: v.ty == TNetObj, NetObjModel())


# ---------------------------------------------------------------------- variable ids, percolation, graph constructor
TVarId = TObj("VarId")
varname = z3.Function("varname", TGraph.sort(), TVarId.sort(), Name)      # get_network_variable_name
varid = z3.Function("varid", TGraph.sort(), Name, TVarId.sort())          # find_network_variable
graph_of = z3.Function("graph_of", TNetObj.sort(), TGraph.sort())         # AsynchronousGraph(bn)
TRUSTED.update({
    "aeon.Percolation.percolate_subspace": "returns {id: value} for exactly the variables fixed by Perc(N, space) (least fixed point of value "
                                           "propagation keeping the given values); raises IndexError on unknown names",
    "aeon.AsynchronousGraph.get_network_variable_name / find_network_variable": "mutually inverse bijection between variable ids and names",
    "aeon.AsynchronousGraph(bn)": "symbolic graph with the semantics of bn: net_of(AsynchronousGraph(bn)) = bn_net_of(bn)",
})


def _percolate_subspace(eng, st, node):
    g = eng.ev(node.args[0], st)
    s = eng.coerce(eng.ev(node.args[1], st), TSpace, st)
    N = net_of(g.t)
    k = z3.Const(fresh_name("k"), Name)
    eng.oblige(st, f"pre.percolate_subspace.names_known@{node.lineno}", z3.ForAll([k], z3.Implies(s.t[k] >= 0, T.isvar(N, k))),
               node.lineno, kind="pre")
    ty = TDict(TVarId, TBool)
    res = ty.fresh("percolated")
    vid = z3.Const(fresh_name("id"), TVarId.sort())
    P = T.Perc(N, s.t)
    st.assume(T.wf_space(P))
    st.assume(z3.ForAll([vid], ty.dom(res.t)[vid] == z3.And(P[varname(g.t, vid)] >= 0, varid(g.t, varname(g.t, vid)) == vid)))
    st.assume(z3.ForAll([vid], z3.Implies(ty.dom(res.t)[vid], ty.vals(res.t)[vid] == (P[varname(g.t, vid)] == 1))))
    st.assume(z3.ForAll([k], z3.Implies(P[k] >= 0, z3.And(T.isvar(N, k), varname(g.t, varid(g.t, k)) == k))))
    return res


class GraphModel2(GraphModel):
    def method(self, eng, st, v, meth, args, kw, node, recv_expr=None):
        if meth == "get_network_variable_name":
            return Val(TName, varname(v.t, args[0].t))
        return super().method(eng, st, v, meth, args, kw, node, recv_expr)


_install1 = install


def install(reg):
    _install1(reg)
    reg.models = [(p, (GraphModel2() if isinstance(m, GraphModel) else m)) for p, m in reg.models]
    reg.module_calls[("Percolation", "percolate_subspace")] = _percolate_subspace

    def AsyncGraph(eng, st, node):
        bn = eng.ev(node.args[0], st)
        if bn.ty != TNetObj:
            raise OutOfSubset("AsynchronousGraph(<not a BooleanNetwork>)")
        g = graph_of(bn.t)
        st.assume(net_of(g) == bn_net_of(bn.t))
        return Val(TGraph, g)
    reg.global_calls["AsynchronousGraph"] = AsyncGraph

    def isinst(eng, st, v, tnode):
        import ast
        if isinstance(tnode, ast.Name):
            if tnode.id == "BooleanNetwork":
                return vbool(v.ty == TNetObj)
            if tnode.id == "AsynchronousGraph":
                return vbool(v.ty == TGraph)
        return None
    reg.add_hook("isinstance", isinst)

    def to_int(eng, st, v, node):
        return None
    reg.add_hook("to_int", to_int)


TRUSTED["aeon.BooleanNetwork.find_variable"] = "None for unknown names, otherwise the variable id; ids are distinct non-negative integers (int(id))"


class NetObjModel2(NetObjModel):
    def method(self, eng, st, v, meth, args, kw, node, recv_expr=None):
        N = bn_net_of(v.t)
        if meth == "find_variable":
            k = args[0]
            if k.ty != TName:
                raise OutOfSubset("find_variable(<non-name>)")
            ty = TOpt(TInt)
            r = ty.fresh("varid")
            st.assume(ty.is_none(r.t) == z3.Not(T.isvar(N, k.t)))
            st.assume(z3.Implies(z3.Not(ty.is_none(r.t)), ty.val(r.t) == T.vidx(N, k.t)))
            st.assume(T.vidx_facts(N))
            return r
        return super().method(eng, st, v, meth, args, kw, node, recv_expr)


_install2 = install


def install(reg):
    _install2(reg)
    reg.models = [(p, (NetObjModel2() if isinstance(m, NetObjModel) else m)) for p, m in reg.models]

    def bitop(eng, st, op, a, b, node):
        import ast
        if isinstance(op, ast.LShift):
            return _Shl(a, b)
        if isinstance(op, ast.BitOr) and isinstance(b, _Shl):
            return vint(T.lor_shl(a.t, b.d.t, b.sh.t))
        return None
    reg.add_hook("int_bitop", bitop)

    def binop(eng, st, op, a, b, node):
        import ast
        if isinstance(op, ast.BitOr) and a.ty == TInt and isinstance(b, _Shl):
            return vint(T.lor_shl(a.t, b.d.t, b.sh.t))
        return None
    reg.add_hook("binop", binop)


class _Shl(Val):
    """d << sh, only meaningful as the right operand of `|` (modelled by lor_shl with lemma L10)"""

    def __init__(self, d, sh):
        self.d, self.sh = d, sh
        self.ty = THelper("shl")
        self.t = None


_install3 = install


def install(reg):
    _install3(reg)

    def bn_ctor(eng, st, node):
        if node.args or node.keywords:
            raise OutOfSubset("BooleanNetwork(<args>)")
        return Val(TNetObj, T.EmptyBN)
    reg.global_calls["BooleanNetwork"] = bn_ctor


TCtxObj = TObj("SymbolicContext")
ctx_of = z3.Function("ctx_of", TGraph.sort(), TCtxObj.sort())
TRUSTED["aeon.AsynchronousGraph.symbolic_context"] = "the symbolic context of the graph (opaque)"


class GraphModel3(GraphModel2):
    def method(self, eng, st, v, meth, args, kw, node, recv_expr=None):
        if meth == "symbolic_context":
            return Val(TCtxObj, ctx_of(v.t))
        return super().method(eng, st, v, meth, args, kw, node, recv_expr)


_install4 = install


def install(reg):
    _install4(reg)
    reg.models = [(p, (GraphModel3() if isinstance(m, GraphModel2) else m)) for p, m in reg.models]
    reg.globals["pint_available"] = lambda eng, st: vbool(z3.Bool("pint_available"))


bdd_card = z3.Function("bdd_cardinality", T.Bdd, I)
bdd_not = z3.Function("bdd_l_not", T.Bdd, T.Bdd)
setcard = z3.Function("setcard_Name", z3.ArraySort(Name, B), I)
TRUSTED["aeon.Bdd.cardinality / l_not"] = "number of satisfying valuations / negation (only used for a heuristic choice)"


class BddModel2(BddModel):
    def method(self, eng, st, v, meth, args, kw, node, recv_expr=None):
        if meth == "cardinality":
            return vint(bdd_card(v.t))
        if meth == "l_not":
            return Val(TBdd, bdd_not(v.t))
        return super().method(eng, st, v, meth, args, kw, node, recv_expr)


_install5 = install


def install(reg):
    _install5(reg)
    reg.models = [(p, (BddModel2() if isinstance(m, BddModel) else m)) for p, m in reg.models]

    def size_of(eng, st, v, node):
        if isinstance(v.ty, TSet) and v.ty.elem == TName:
            st.assume(setcard(v.t) >= 0)
            return vint(setcard(v.t))
        return None
    reg.add_hook("size_of", size_of)


# ---------------------------------------------------------------------- textual round trip (pickling, C16)
TAeonText = TObj("AeonText")
to_aeon_fn = z3.Function("to_aeon", TNetObj.sort(), TAeonText.sort())
from_aeon_fn = z3.Function("from_aeon", TAeonText.sort(), TNetObj.sort())
cleanup_fn = z3.Function("cleanup_network", TNetObj.sort(), TNetObj.sort())
_n = z3.Const("n!aeon", TNetObj.sort())
TRUSTED["aeon.BooleanNetwork.to_aeon / from_aeon"] = (
    "parsing .aeon text orders the variables by name; so cleanup_network(from_aeon(to_aeon(n))) of a cleaned network n (no parameters, inferred "
    "regulatory graph) is a network in CANONICAL form (cleaned, variables in name order) with the same names and update functions, and a "
    "network in canonical form is reproduced exactly (up to the observations the library makes of it: variable names and order, update "
    "functions) - modelled as equality of the abstract network objects. A network that is NOT in name order is not reproduced (finding D15)")
Canonical = z3.Function("bn_is_canonical", TNetObj.sort(), B)      # cleaned, and the variables are in name order


def canon_fn(n):
    """the network the constructor keeps: the cleaned argument sent through the text round trip that pickling uses"""
    return cleanup_fn(from_aeon_fn(to_aeon_fn(cleanup_fn(n))))


_pq = z3.Const("p!aeon", T.PNS)
AX_AEON = [
    # the text round trip of a cleaned network gives a canonical network; canonical networks are cleaned and are fixed points of it
    z3.ForAll([_n], z3.Implies(cleanup_fn(_n) == _n, Canonical(cleanup_fn(from_aeon_fn(to_aeon_fn(_n))))), patterns=[to_aeon_fn(_n)]),
    z3.ForAll([_n], z3.Implies(Canonical(_n), z3.And(cleanup_fn(_n) == _n, cleanup_fn(from_aeon_fn(to_aeon_fn(_n))) == _n)), patterns=[Canonical(_n)]),
    z3.ForAll([_n], z3.And(cleanup_fn(cleanup_fn(_n)) == cleanup_fn(_n), bn_net_of(cleanup_fn(_n)) == bn_net_of(_n)), patterns=[cleanup_fn(_n)]),
    # names and update functions survive the round trip: whatever encodes the dynamics of n encodes the dynamics of its canonical form, and
    # the empty space is a (well-formed, percolated) trap space of both
    z3.ForAll([_pq, _n], z3.Implies(T.Encodes(_pq, bn_net_of(_n), EMPTY), T.Encodes(_pq, bn_net_of(canon_fn(_n)), EMPTY)),
              patterns=[z3.MultiPattern(T.Encodes(_pq, bn_net_of(_n), EMPTY), canon_fn(_n))]),
]


class _BnVars(Val):
    def __init__(self, bn):
        self.bn = bn
        self.ty = THelper("bn-variables")
        self.t = None


class NetObjModel3(NetObjModel2):
    def method(self, eng, st, v, meth, args, kw, node, recv_expr=None):
        if meth == "to_aeon":
            return Val(TAeonText, to_aeon_fn(v.t))
        if meth == "variables" and not args:
            return _BnVars(v)      # only meaningful inside `[bn.get_variable_name(v) for v in bn.variables()]`
        return super().method(eng, st, v, meth, args, kw, node, recv_expr)


_install6 = install


def install(reg):
    _install6(reg)
    reg.models = [(p, (NetObjModel3() if isinstance(m, NetObjModel2) else m)) for p, m in reg.models]

    def from_aeon(eng, st, node):
        a = eng.ev(node.args[0], st)
        if a.ty != TAeonText:
            raise OutOfSubset("BooleanNetwork.from_aeon(<not aeon text>)")
        return Val(TNetObj, from_aeon_fn(a.t))
    reg.module_calls[("BooleanNetwork", "from_aeon")] = from_aeon
    reg.extra_axioms = getattr(reg, "extra_axioms", []) + AX_AEON
