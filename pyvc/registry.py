"""Registry: which contract belongs to which function; models of heap classes and dependency objects.

Every hook returns None when it does not apply; the engine then reports OutOfSubset."""
from __future__ import annotations
import ast
import z3
from .vtypes import *
from . import engine as E
from .contract import Contract, HeapParam


class ObjModel:
    """Model of values of one type family (a heap class or a dependency object sort)."""

    def getattr(self, eng, st, v, attr, node):
        raise OutOfSubset(f"attribute .{attr} on {v.ty}")

    def setattr(self, eng, st, v, attr, val):
        raise OutOfSubset(f"attribute store .{attr} on {v.ty}")

    def getitem(self, eng, st, v, idx, node):
        raise OutOfSubset(f"subscript on {v.ty}")

    def setitem(self, eng, st, v, idx, val):
        raise OutOfSubset(f"item store on {v.ty}")

    def method(self, eng, st, v, meth, args, kw, node, recv_expr=None):
        raise OutOfSubset(f"method .{meth}() on {v.ty}")

    def view(self, heapobj):
        raise OutOfSubset("no view")


class Registry:
    def __init__(self):
        self.contracts: dict[str, Contract] = {}
        self.by_name: dict[str, Contract] = {}
        self.methods: dict[tuple[str, str], Contract] = {}
        self.nested: dict[tuple[str, str], Contract] = {}
        self.models: list = []            # (predicate(val) -> bool, ObjModel)
        self.class_fields = {}            # heap class -> callable(eng, st, name) -> dict field -> Val
        self.module_calls = {}            # (module alias, function) -> handler(eng, st, node)
        self.globals = {}                 # global name -> handler(eng, st) -> Val
        self.global_calls = {}            # global callable name -> handler(eng, st, node)
        self.hooks = {}                   # misc hooks: sorted, size_of, to_set, ...
        self.extra_trusted = []           # dicts of assumed dependency contracts (name -> statement)

    # ---- registration
    def add(self, c: Contract, method_of=None, nested_in=None):
        self.contracts[c.qualname] = c
        simple = c.qualname.rsplit(".", 1)[1]
        if method_of:
            self.methods[(method_of, simple)] = c
        elif nested_in:
            self.nested[(nested_in, simple)] = c
        else:
            self.by_name[simple] = c
        return c

    def add_model(self, pred, model):
        self.models.append((pred, model))

    def trusted_externals(self):
        out = {}
        from . import externals_aeon
        out.update(externals_aeon.TRUSTED)
        for m in self.extra_trusted:
            out.update(m)
        return out

    def axioms_for(self, c):
        from . import theory as T
        from contracts import sd_inv
        from contracts import deps
        return [T.AX_EVALON_RANGE, T.AX_CARD] + T.AX_UNION + T.AX_MEM + T.AX_STACK + sd_inv.AX_SIG + sd_inv.AX_FOLD + sd_inv.AX_CACHE + deps.AX_LSET + deps.AX_BRIDGE + list(getattr(c, "axioms", []) or [])

    # ---- lookups used by the engine
    def lookup_function(self, name):
        return self.by_name.get(name)

    def lookup_method(self, cls, name):
        return self.methods.get((cls, name))

    def lookup_nested(self, outer, name):
        return self.nested.get((outer, name))

    def model_for(self, v):
        for pred, m in self.models:
            if pred(v):
                return m
        return None

    def fresh_param(self, eng, st, name, ty):
        if isinstance(ty, HeapParam):
            fields = self.class_fields[ty.cls](eng, st, name)
            ho = E.HeapObj(ty.cls, fields)
            oid = id(ho)
            st.heap[oid] = ho
            for f, v in fields.items():
                if not isinstance(v, E.Ref):
                    st.assume(v.ty.wf(v.t))
            return E.Ref(E.TRef(ty.cls), oid)
        if hasattr(ty, "make"):
            return ty.make(eng, st, name)
        v = ty.fresh(name)
        st.assume(ty.wf(v.t))
        return v

    def global_value(self, eng, st, name):
        h = self.globals.get(name)
        return h(eng, st) if h else None

    def call_global(self, eng, st, name, node):
        h = self.global_calls.get(name)
        return h(eng, st, node) if h else None

    def call_module(self, eng, st, mod, fn, node):
        h = self.module_calls.get((mod, fn))
        return h(eng, st, node) if h else None

    def _hook(self, name, *a):
        for h in self.hooks.get(name, []):
            r = h(*a)
            if r is not None:
                return r
        return None

    def add_hook(self, name, h):
        self.hooks.setdefault(name, []).append(h)

    def fstring(self, eng, st, node):
        r = self._hook("fstring", eng, st, node)
        if r is not None:
            return r
        # content-free string (exception / debug messages): evaluate nothing
        return E._StrLit("<f-string>")

    def int_pow(self, eng, st, a, b, node):
        r = self._hook("int_pow", eng, st, a, b, node)
        if r is None:
            raise OutOfSubset("** on ints")
        return r

    def int_bitop(self, eng, st, op, a, b, node):
        r = self._hook("int_bitop", eng, st, op, a, b, node)
        if r is None:
            raise OutOfSubset(f"bit operation {type(op).__name__}")
        return r

    def binop(self, eng, st, op, a, b, node):
        return self._hook("binop", eng, st, op, a, b, node)

    def compare(self, eng, st, op, a, b, node):
        return self._hook("compare", eng, st, op, a, b, node)

    def equals(self, eng, st, a, b):
        return self._hook("equals", eng, st, a, b)

    def contains(self, eng, st, coll, x, node):
        return self._hook("contains", eng, st, coll, x, node)

    def size_of(self, eng, st, v, node):
        return self._hook("size_of", eng, st, v, node)

    def to_set(self, eng, st, v, node):
        return self._hook("to_set", eng, st, v, node)

    def to_list(self, eng, st, v, node):
        return self._hook("to_list", eng, st, v, node)

    def to_int(self, eng, st, v, node):
        return self._hook("to_int", eng, st, v, node)

    def enumerate(self, eng, st, v, node):
        return self._hook("enumerate", eng, st, v, node)

    def isinstance(self, eng, st, v, tnode):
        return self._hook("isinstance", eng, st, v, tnode)

    def sorted(self, eng, st, v, kw, node):
        return self._hook("sorted", eng, st, v, kw, node)

    def comprehension_source(self, eng, st, g, coll):
        return self._hook("comprehension_source", eng, st, g, coll)
