#!/bin/sh
# Offline setup after a fresh restore: nothing to download; verify the tool chain is usable.
cd "$(dirname "$0")" || exit 1
python3-vt -c "import z3, sys; print('z3', z3.get_version_string())" || exit 1
/venv/bin/python -c "import biobalm, biodivine_aeon, clingo, networkx; print('biobalm deps ok')" || exit 1
python3-vt -m compileall -q pyvc contracts >/dev/null 2>&1
if [ -x lean/check.sh ] && [ -z "$VERIF_SKIP_LEAN" ]; then
  echo "lean library present (checked by the thorough tier)"
fi
exit 0
