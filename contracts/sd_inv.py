"""Invariant of SuccessionDiagram (DESIGN.md section 5) as named clauses over the ghost view.

`inv(v)` returns [(name, formula)].  Contracts of public operations require and ensure all
clauses (not only those of the touched node).  The clauses are universally quantified and
E-matching friendly; existential content is hidden in ghost signatures (succsig) and opaque
spec functions (NormSig, SkipSig, CacheOK)."""
import z3
from pyvc.vtypes import *
from pyvc import theory as T
from pyvc import sdmodel as M
from pyvc.externals_aeon import bn_net_of, net_of

i, j = z3.Int("i"), z3.Int("j")
key = z3.Int("key")
OptI = TOpt(TInt)
LSs = M.LS.sort()
SigS = M.TSuccSig.sort()

# signature of a successor list: addsucc3(sig, motif, child space) in attachment order
addsucc = M.addsucc3
nosucc = M.nosucc
FoldSig = z3.Function("FoldSig", T.Net, LSs, I, SigS)       # signature of attaching l[0..k) each to its percolation
NormSig = z3.Function("NormSig", T.Net, T.SpaceS, B, SigS)  # signature of a normally expanded node
SkipOK = z3.Function("SkipOK", T.Net, T.SpaceS, SigS, B)   # successor signature of a skip node: an enumeration of the minimal trap spaces inside it
CacheOK = z3.Function("CacheOK", T.Net, T.SpaceS, SigS, B, M.OptLS.sort(), M.OptLS.sort(), M.OptLV.sort(), B)

_l, _k, _N = z3.Const("l!f", LSs), z3.Int("k!f"), z3.Const("N!f", T.Net)
_sg0, _m0, _c0 = z3.Const("sg!0", SigS), z3.Const("m!0", T.SpaceS), z3.Const("c!0", T.SpaceS)
AX_SIG = [z3.ForAll([_sg0, _m0, _c0], addsucc(_sg0, _m0, _c0) != nosucc, patterns=[addsucc(_sg0, _m0, _c0)])]   # signatures are free terms
AX_FOLD = [
    z3.ForAll([_N, _l], FoldSig(_N, _l, 0) == nosucc, patterns=[FoldSig(_N, _l, 0)]),
    z3.ForAll([_N, _l, _k], z3.Implies(_k >= 0, FoldSig(_N, _l, _k + 1) ==
                                       addsucc(FoldSig(_N, _l, _k), M.LS.at(_l)[_k], T.Perc(_N, M.LS.at(_l)[_k]))),
              patterns=[FoldSig(_N, _l, _k + 1)]),
]
_S, _sg, _b = z3.Const("S!c", T.SpaceS), z3.Const("sg!c", SigS), z3.Bool("b!c")
_c1, _c2, _c3 = z3.Const("c1!c", M.OptLS.sort()), z3.Const("c2!c", M.OptLS.sort()), z3.Const("c3!c", M.OptLV.sort())
# Attractor-cache vocabulary (opaque; meaning in DESIGN.md section 5, I-cache):
#   Covers(N,S,sig,skipped,l): l are full states inside S and every attractor of N inside S that is inside no successor
#                              recorded in sig contains a state of l (for skip nodes: the weaker clause of C05/C14)
#   IsSDR(N,S,sig,skipped,l):  l is a system of distinct representatives of exactly those attractors
#   SetsOf(N,S,l,t):           t[k] is the attractor of l[k] over all variables, in the same order
Covers = z3.Function("Covers", T.Net, T.SpaceS, SigS, B, LSs, B)
IsSDR = z3.Function("IsSDR", T.Net, T.SpaceS, SigS, B, LSs, B)
SetsOf = z3.Function("SetsOf", T.Net, T.SpaceS, LSs, M.LV.sort(), B)
_ll = z3.Const("l!cc", LSs)
_lv = z3.Const("lv!cc", M.LV.sort())
AX_CACHE = [
    # definition of CacheOK: every cached field that is present is correct for the current successor signature
    z3.ForAll([_N, _S, _sg, _b, _c1, _c2, _c3], CacheOK(_N, _S, _sg, _b, _c1, _c2, _c3) == z3.And(
        z3.Or(M.OptLS.is_none(_c1), Covers(_N, _S, _sg, _b, M.OptLS.val(_c1))),
        z3.Or(M.OptLS.is_none(_c2), IsSDR(_N, _S, _sg, _b, M.OptLS.val(_c2))),
        z3.Or(M.OptLV.is_none(_c3), z3.And(z3.Not(M.OptLS.is_none(_c2)), SetsOf(_N, _S, M.OptLS.val(_c2), M.OptLV.val(_c3))))),
        patterns=[CacheOK(_N, _S, _sg, _b, _c1, _c2, _c3)]),
    # consequences of the meaning (definitional; the attractor facts behind them are L3 / L8, proved in Lean):
    z3.ForAll([_N, _S, _sg, _b, _ll], z3.Implies(z3.And(Covers(_N, _S, _sg, _b, _ll), M.LS.len(_ll) == 0), IsSDR(_N, _S, _sg, _b, _ll)),
              patterns=[Covers(_N, _S, _sg, _b, _ll)]),
    z3.ForAll([_N, _S, _b, _ll], z3.Implies(z3.And(Covers(_N, _S, nosucc, _b, _ll), M.LS.len(_ll) == 1, T.IsTrap(_N, _S)), IsSDR(_N, _S, nosucc, _b, _ll)),
              patterns=[Covers(_N, _S, nosucc, _b, _ll)]),
    z3.ForAll([_N, _S, _sg, _b, _ll], z3.Implies(IsSDR(_N, _S, _sg, _b, _ll), Covers(_N, _S, _sg, _b, _ll)),
              patterns=[IsSDR(_N, _S, _sg, _b, _ll)]),
    z3.ForAll([_N, _S, _ll, _lv], z3.Implies(z3.And(M.LS.len(_ll) == 0, M.LV.len(_lv) == 0), SetsOf(_N, _S, _ll, _lv)),
              patterns=[SetsOf(_N, _S, _ll, _lv)]),
]


NFVSOf = z3.Function("NFVSOf", T.BNS, M.OptLN.elem.sort(), B)       # the list hits every negative cycle of the network (same symbol as contracts/candidates.py)


NamesOf = z3.Function("NamesOf", T.BNS, M.OptLN.elem.sort(), B)      # every element of the list is a variable of the network


def normsig_def(N, S, r):
    """definition of NormSig: fold over the key-sorted enumeration of the maximal trap spaces"""
    se = T.SortedEnum(N, T.MaxTrapSet(N, S, r))
    return NormSig(N, S, r) == FoldSig(N, se, M.LS.len(se))


def net(v):
    return bn_net_of(v.net)


def valid(v, n):
    return z3.And(0 <= n, n < v.K)


def inv(v, exempt=None, cache=True, allow_empty=False):
    """All clauses of the invariant. `exempt` (an Int term or None): the node that is currently being
    given successors; the per-node clauses I-stub / I-norm / I-cache are not required of it."""
    N = net(v)
    D = M.TDict(TInt, TInt)
    ex = (lambda n: n != exempt) if exempt is not None else (lambda n: z3.BoolVal(True))
    cl = [
        ("I-ids", v.K >= (0 if allow_empty else 1)),
        ("I-net", net_of(v.sym) == N),
        ("I-key.fwd", z3.ForAll([i], z3.Implies(valid(v, i), z3.And(
            D.dom(v.index)[T.SKey(N, v.space[i])], D.vals(v.index)[T.SKey(N, v.space[i])] == i)))),
        ("I-key.bwd", z3.ForAll([key], z3.Implies(
            D.dom(v.index)[key],
            z3.And(valid(v, D.vals(v.index)[key]), T.SKey(N, v.space[D.vals(v.index)[key]]) == key)))),
        ("I-space", z3.ForAll([i], z3.Implies(valid(v, i), z3.And(
            T.wf_space(v.space[i]), T.dom_within(v.space[i], N), T.IsTrap(N, v.space[i]),
            T.Perc(N, v.space[i]) == v.space[i])))),
        ("I-root", z3.Implies(v.K >= 1, v.space[0] == T.Perc(N, z3.K(Name, z3.IntVal(-1)))) if allow_empty
         else v.space[0] == T.Perc(N, z3.K(Name, z3.IntVal(-1)))),
        ("I-edge.rank", z3.ForAll([i, j], z3.Implies(v.edge[i][j], z3.And(
            valid(v, i), valid(v, j), T.card(v.space[i]) < T.card(v.space[j]))))),
        ("I-edge.sub", z3.ForAll([i, j], z3.Implies(v.edge[i][j], T.subspace(v.space[j], v.space[i])))),
        ("I-stub", z3.ForAll([i], z3.Implies(z3.And(valid(v, i), ex(i), z3.Not(v.expanded[i])),
                                             z3.And(v.succsig[i] == nosucc, z3.Not(v.skipped[i]),
                                                    z3.ForAll([j], z3.Not(v.edge[i][j])))))),
        ("I-norm", z3.ForAll([i], z3.Implies(z3.And(valid(v, i), ex(i), v.expanded[i], z3.Not(v.skipped[i])),
                                             v.succsig[i] == NormSig(N, v.space[i], i == 0)))),
        ("I-skip", z3.ForAll([i], z3.Implies(z3.And(valid(v, i), ex(i), v.skipped[i]),
                                             z3.And(v.expanded[i], SkipOK(N, v.space[i], v.succsig[i]),
                                                    z3.Not(T.MinTrapSet(N, v.space[i])[v.space[i]]))))),
        ("I-sig.empty", z3.ForAll([i], z3.Implies(z3.And(valid(v, i), v.succsig[i] == nosucc), z3.ForAll([j], z3.Not(v.edge[i][j]))))),
        ("I-sig.nonempty", z3.ForAll([i], z3.Implies(z3.And(valid(v, i), v.succsig[i] != nosucc),
                                                     z3.Exists([j], z3.And(valid(v, j), v.edge[i][j]))))),
        ("I-depth.nonneg", z3.ForAll([i], z3.Implies(valid(v, i), v.depth[i] >= 0))),
        ("I-depth.edges", z3.ForAll([i, j], z3.Implies(v.edge[i][j], v.depth[j] >= v.depth[i] + 1))),
        ("I-pn", T.Encodes(v.pn, N, z3.K(Name, z3.IntVal(-1)))),
        # cached percolated Petri nets are exactly the restriction of the global net (cache independence, C16)
        ("I-ppn", z3.ForAll([i], z3.Implies(z3.And(valid(v, i), z3.Not(M.OptPN.is_none(v.ppn[i]))),
                                            M.OptPN.val(v.ppn[i]) == T.RestrictPN(v.pn, v.space[i])))),
        ("I-pbn", z3.ForAll([i], z3.Implies(z3.And(valid(v, i), z3.Not(M.OptBN.is_none(v.pbn[i]))),
                                            M.OptBN.val(v.pbn[i]) == T.PercNetObj(v.net, v.space[i])))),
        # a cached negative feedback vertex set is one of the node's percolated network (C08: retained sets are built from it)
        ("I-pnfvs", z3.ForAll([i], z3.Implies(z3.And(valid(v, i), z3.Not(M.OptLN.is_none(v.pnfvs[i]))),
                                              z3.And(NFVSOf(T.PercNetObj(v.net, v.space[i]), M.OptLN.val(v.pnfvs[i])),
                                                     NamesOf(T.PercNetObj(v.net, v.space[i]), M.OptLN.val(v.pnfvs[i])))))),
        ("I-parent", z3.ForAll([i], z3.Implies(z3.And(valid(v, i), z3.Not(OptI.is_none(v.parent[i]))), z3.And(
            valid(v, OptI.val(v.parent[i])), T.subspace(v.space[i], v.space[OptI.val(v.parent[i])]))))),
    ]
    if cache:
        cl.append(("I-cache", z3.ForAll([i], z3.Implies(z3.And(valid(v, i), ex(i)), CacheOK(
            N, v.space[i], v.succsig[i], v.skipped[i], v.cand[i], v.seeds[i], v.sets[i])))))
    return cl


def inv_all(v, exempt=None, allow_empty=False):
    return z3.And([g for _, g in inv(v, exempt, allow_empty=allow_empty)])


def frame_nodes(v, o, except_ids=(), fields=("space", "expanded", "skipped", "parent", "cand", "seeds", "sets", "ppn", "pbn", "pnfvs", "succsig", "depth")):
    """every node that existed before and is not in except_ids keeps the listed fields"""
    cond = z3.And(0 <= i, i < o.K, *[i != e for e in except_ids])
    eqs = [getattr(v, f)[i] == getattr(o, f)[i] for f in fields]
    return z3.ForAll([i], z3.Implies(cond, z3.And(eqs)))


def frame_edges(v, o, except_rows=()):
    cond = z3.And(*[i != e for e in except_rows]) if except_rows else z3.BoolVal(True)
    return z3.ForAll([i, j], z3.Implies(z3.And(cond, 0 <= i, i < o.K),
                                        z3.And(v.edge[i][j] == o.edge[i][j], v.motifs[i][j] == o.motifs[i][j],
                                               v.motif0[i][j] == o.motif0[i][j])))


def ext(v, o):
    """monotone extension: the diagram v extends o; expanded nodes of o are untouched (C04: an expanded node never changes)"""
    NODE_SAME = ("skipped", "succsig", "cand", "seeds", "sets")
    return z3.And(
        v.K >= o.K, v.net == o.net, v.sym == o.sym, v.pn == o.pn,
        z3.ForAll([i], z3.Implies(z3.And(0 <= i, i < o.K), z3.And(
            v.space[i] == o.space[i],
            z3.Implies(o.expanded[i], z3.And(v.expanded[i], *[getattr(v, f)[i] == getattr(o, f)[i] for f in NODE_SAME]))))),
        z3.ForAll([i, j], z3.Implies(z3.And(0 <= i, i < o.K, o.expanded[i]), z3.And(
            v.edge[i][j] == o.edge[i][j],
            z3.Implies(z3.And(0 <= j, j < o.K), z3.And(v.motifs[i][j] == o.motifs[i][j], v.motif0[i][j] == o.motif0[i][j]))))),
    )


# AllReachableExpanded(edge, expanded, start): every node reachable from `start` along edges is expanded.
ARE = z3.Function("AllReachableExpanded", z3.ArraySort(I, z3.ArraySort(I, B)), z3.ArraySort(I, B), I, B)


def are_intro(v, start, R):
    """definition (introduction rule) of AllReachableExpanded with witness set R"""
    return z3.Implies(z3.And(R[start], z3.ForAll([i], z3.Implies(R[i], z3.And(v.expanded[i], z3.ForAll([j], z3.Implies(v.edge[i][j], R[j])))))),
                      ARE(v.edge, v.expanded, start))


def ext_trans(v2, v1, o):
    """instance of the schema lemma S.ext_transitive (proved by SMT on every run, see schema_lemmas)"""
    return z3.Implies(z3.And(ext(v2, v1), ext(v1, o), v1.K >= o.K), ext(v2, o))


def schema_lemmas():
    """name -> closed formula over fresh symbolic views; each must be VALID (proved by z3 at check time)"""
    import types
    from pyvc import engine as E
    def fresh(nm):
        st = E.State()
        return M.View(E.HeapObj("SD", M.fresh_fields(None, st, nm)))
    a, b, c = fresh("va"), fresh("vb"), fresh("vc")
    out = {"S.ext_transitive": ext_trans(a, b, c)}
    for nm, mk in EXTRA_SCHEMAS.items():
        out[nm] = mk(fresh)
    return out


EXTRA_SCHEMAS = {}      # name -> callable(fresh_view) -> formula | (formula, axioms); filled by the contract modules


# ---------------------------------------------------------------------- skip nodes


FoldSigF = z3.Function("FoldSigF", T.Net, LSs, T.SpaceS, I, SigS)   # signature after attaching those of l[0..k) that lie inside S
_Sf = z3.Const("S!ff", T.SpaceS)
AX_FOLD += [
    z3.ForAll([_N, _l, _Sf], FoldSigF(_N, _l, _Sf, 0) == nosucc, patterns=[FoldSigF(_N, _l, _Sf, 0)]),
    z3.ForAll([_N, _l, _Sf, _k], z3.Implies(_k >= 0, FoldSigF(_N, _l, _Sf, _k + 1) == z3.If(
        T.subspace(M.LS.at(_l)[_k], _Sf),
        addsucc(FoldSigF(_N, _l, _Sf, _k), M.LS.at(_l)[_k], T.Perc(_N, M.LS.at(_l)[_k])),
        FoldSigF(_N, _l, _Sf, _k))), patterns=[FoldSigF(_N, _l, _Sf, _k + 1)]),
]


def skipok_intro_filtered(N, R, S, l, sig):
    """SkipOK for a node S inside R when l enumerates the minimal trap spaces of R and only those inside S were attached
    (L3: the minimal trap spaces inside a trap space S ⊑ R are exactly those of R that lie inside S)"""
    return z3.Implies(z3.And(T.IsEnum(l, T.MinTrapSet(N, R)), T.subspace(S, R), T.IsTrap(N, S), sig == FoldSigF(N, l, S, M.LS.len(l))),
                      SkipOK(N, S, sig))


def skipok_intro(N, S, l, sig):
    """definition (introduction) of SkipOK with witness enumeration l"""
    return z3.Implies(z3.And(T.IsEnum(l, T.MinTrapSet(N, S)), sig == FoldSig(N, l, M.LS.len(l))), SkipOK(N, S, sig))


def min_trap_facts(N, S, l):
    """L3.min_trap_facts for every element of an enumeration l of MinTrapSet(N,S)"""
    kq, kq2 = z3.Int("k!q"), z3.Int("k!q2")
    at = M.LS.at(l)
    n = M.LS.len(l)
    rflag = z3.Bool("r!q")
    return z3.Implies(T.IsEnum(l, T.MinTrapSet(N, S)), z3.And(
        n >= 1,
        z3.Implies(T.MinTrapSet(N, S)[S], z3.Exists([kq], z3.And(0 <= kq, kq < n, at[kq] == S))),
        z3.ForAll([kq], z3.Implies(z3.And(0 <= kq, kq < n), z3.And(
            T.wf_space(at[kq]), T.dom_within(at[kq], N), T.IsTrap(N, at[kq]), T.Perc(N, at[kq]) == at[kq], T.subspace(at[kq], S),
            z3.Or(at[kq] == S, T.card(at[kq]) > T.card(S)),
            T.MinTrapSet(N, S)[at[kq]], T.MinTrapSet(N, at[kq])[at[kq]],
            T.space_eq_is_identity(at[kq], S),
            z3.Implies(at[kq] == S, n == 1),
            NormSig(N, at[kq], True) == nosucc, NormSig(N, at[kq], False) == nosucc))),
        z3.ForAll([kq, kq2], z3.Implies(z3.And(0 <= kq, kq < kq2, kq2 < n), at[kq] != at[kq2]))))


# l restricted to the spaces inside S enumerates MinTrapSet(N,S) (each once)
EnumInside = z3.Function("EnumInside", T.Net, LSs, T.SpaceS, B)


def enum_inside_facts(N, l, S):
    """L3.min_trap_facts for the elements of l lying inside S, given EnumInside(N,l,S); and the SkipOK introduction rule"""
    kq, kq2 = z3.Int("k!q"), z3.Int("k!q2")
    at, n = M.LS.at(l), M.LS.len(l)
    inside = lambda k_: T.subspace(at[k_], S)
    return z3.Implies(EnumInside(N, l, S), z3.And(
        n >= 0,
        z3.Exists([kq], z3.And(0 <= kq, kq < n, inside(kq))),
        z3.ForAll([kq], z3.Implies(z3.And(0 <= kq, kq < n, inside(kq)), z3.And(
            T.wf_space(at[kq]), T.dom_within(at[kq], N), T.IsTrap(N, at[kq]), T.Perc(N, at[kq]) == at[kq],
            T.MinTrapSet(N, S)[at[kq]], T.MinTrapSet(N, at[kq])[at[kq]], T.card_order(at[kq], S),
            NormSig(N, at[kq], True) == nosucc, NormSig(N, at[kq], False) == nosucc))),
        z3.ForAll([kq, kq2], z3.Implies(z3.And(0 <= kq, kq < kq2, kq2 < n, inside(kq), inside(kq2)), at[kq] != at[kq2]))))


def skipok_intro_inside(N, S, l, sig):
    return z3.Implies(z3.And(EnumInside(N, l, S), sig == FoldSigF(N, l, S, M.LS.len(l))), SkipOK(N, S, sig))
