"""Contracts for biobalm/_sd_algorithms/*.py (expansion drivers). Sidecar; no repository code."""
import z3
from pyvc.vtypes import *
from pyvc.contract import Contract, LoopContract, HeapParam
from pyvc import theory as T
from pyvc import sdmodel as M
from . import sd_inv as S
from . import space_utils as SU

SD = HeapParam("SD")


def split_and(name, conj):
    """a conjunction as separately named (and separately discharged, cumulative) clauses"""
    if z3.is_and(conj):
        return [(f"{name}.{k}", g) for k, g in enumerate(conj.children())]
    return [(name, conj)]

OI = TOpt(TInt)
LI = M.LI
SI = TSet(TInt)
a, b, x, y, k = z3.Int("a"), z3.Int("b"), z3.Int("x"), z3.Int("y"), z3.Int("kk")
ALLF = ["K", "space", "expanded", "skipped", "parent", "cand", "seeds", "sets", "ppn", "pbn", "pnfvs",
        "edge", "motifs", "motif0", "succsig", "depth", "index"]
INVN = None


# least number of fixed variables among the nodes of a (non-empty) list: the measure of the level loops of expand_bfs / expand_to_target
MinRank = z3.Function("MinRank", z3.ArraySort(I, T.SpaceS), LI.sort(), I)
_sp_, _l_, _a_ = z3.Const("sp!mr", z3.ArraySort(I, T.SpaceS)), z3.Const("l!mr", LI.sort()), z3.Int("a!mr")
AX_MINRANK = [
    z3.ForAll([_sp_, _l_, _a_], z3.Implies(z3.And(0 <= _a_, _a_ < LI.len(_l_)), T.card(_sp_[LI.at(_l_)[_a_]]) >= MinRank(_sp_, _l_)),
              patterns=[z3.MultiPattern(MinRank(_sp_, _l_), LI.at(_l_)[_a_])]),
    z3.ForAll([_sp_, _l_], z3.Implies(LI.len(_l_) > 0, z3.Exists([_a_], z3.And(0 <= _a_, _a_ < LI.len(_l_), T.card(_sp_[LI.at(_l_)[_a_]]) == MinRank(_sp_, _l_)))),
              patterns=[MinRank(_sp_, _l_)]),
]
T.LEMMAS["def.MinRank"] = "MinRank(spaces, l) is the least card(spaces[x]) over the nodes x of the non-empty list l   [definition of a minimum over a finite list]"


def inv_names():
    global INVN
    if INVN is None:
        from .succession_diagram import _dummy_ho
        INVN = [nm for nm, _ in S.inv(M.View(_dummy_ho()))]
    return INVN


def in_list(lst, val, lo=None, hi=None):
    if lo is None and hi is None:
        return T.MemI(lst, val)          # whole list: opaque membership with definitional axioms
    lo = 0 if lo is None else lo
    hi = LI.len(lst) if hi is None else hi
    return z3.Exists([k], z3.And(lo <= k, k < hi, LI.at(lst)[k] == val))


def install(reg):
    def start(c):
        """the start node: the argument, or the root"""
        arg = c.old.node_id if c.old is not None else c.node_id
        return z3.If(OI.is_none(arg), 0, OI.val(arg))

    def processed(v, seen, x, pending):
        """a seen node that is not pending any more is expanded and all its successors are seen"""
        return z3.Implies(z3.And(seen[x], z3.Not(pending)), z3.And(v.expanded[x], z3.ForAll([y], z3.Implies(v.edge[x][y], seen[y]))))

    # ------------------------------------------------------------------ expand_bfs
    def rank(v, xx):
        return T.card(v.space[xx])

    def level_rank(c, lst, lvl):
        """every node of the list fixes at least `lvl` variables (termination of the level loop: a level deeper than nvars is empty)"""
        return z3.ForAll([a], z3.Implies(z3.And(0 <= a, a < LI.len(lst)), rank(c.sd, LI.at(lst)[a]) >= lvl))

    def lem_card(c):
        sq = z3.Const("s!cbb", T.SpaceS)
        Nn = S.net(c.sd)
        return z3.ForAll([sq], z3.Implies(z3.And(T.wf_space(sq), T.dom_within(sq, Nn)), T.card(sq) <= T.nvars(Nn)), patterns=[T.card(sq)])

    def bfs_inv0(c):
        v, seen, cur = c.sd, c.seen, c.current_level
        return common_sd(c) + [
            ("start_seen", seen[start(c)]),
            ("seen_valid", z3.ForAll([x], z3.Implies(seen[x], S.valid(v, x)))),
            ("level_seen", z3.ForAll([a], z3.Implies(z3.And(0 <= a, a < LI.len(cur)), seen[LI.at(cur)[a]]))),
            ("next_empty", LI.len(c.next_level) == 0),
            ("closed_except_level", z3.ForAll([x], processed(v, seen, x, in_list(cur, x)))),
        ]

    def bfs_inv1(c):
        v, seen, cur, nxt = c.sd, c.seen, c.current_level, c.next_level
        pend = lambda xx: z3.Or(in_list(cur, xx, lo=c.i), in_list(nxt, xx))
        return common_sd(c) + [
            ("start_seen", seen[start(c)]),
            ("seen_valid", z3.ForAll([x], z3.Implies(seen[x], S.valid(v, x)))),
            ("level_seen", z3.ForAll([a], z3.Implies(z3.And(0 <= a, a < LI.len(cur)), seen[LI.at(cur)[a]]))),
            ("next_seen", z3.ForAll([a], z3.Implies(z3.And(0 <= a, a < LI.len(nxt)), seen[LI.at(nxt)[a]]))),
            ("closed_except_pending", z3.ForAll([x], processed(v, seen, x, pend(x)))),
            ("level_spaces_kept", z3.ForAll([a], z3.Implies(z3.And(0 <= a, a < LI.len(cur)), v.space[LI.at(cur)[a]] == c.head(0).sd.space[LI.at(cur)[a]]))),
            ("next_level_is_deeper", level_rank(c, nxt, MinRank(c.head(0).sd.space, cur) + 1)),
        ]

    def common_sd(c):
        v, o = c.sd, c.old.sd
        return [("inv." + nm, g) for nm, g in S.inv(v)] + [("extends_entry_diagram", S.ext(v, o)),
                                                            ("config_kept", v.cfg_max_motifs_per_node == o.cfg_max_motifs_per_node)]

    def bfs_post(c):
        v, o, r = c.sd, c.old.sd, c.result
        return common_sd(c) + [
            ("true_means_complete", z3.Implies(r, S.ARE(v.edge, v.expanded, start(c)))),
            ("false_only_for_a_reason", z3.Implies(z3.Not(r), z3.Or(
                z3.Not(OI.is_none(c.bfs_level_limit)),
                z3.And(z3.Not(OI.is_none(c.size_limit)), v.K >= OI.val(c.size_limit),
                       z3.Exists([x], z3.And(S.valid(v, x), z3.Not(v.expanded[x]))))))),
        ]

    names_common = ["inv." + n for n in inv_names()] + ["extends_entry_diagram", "config_kept"]

    def pick(fn, nm):
        return lambda c: dict(fn(c))[nm]

    def bfs_inv2_real(c):
        v, seen, cur, nxt, succ, node = c.sd, c.seen, c.current_level, c.next_level, c.successors, c.node
        oi = c.outer(1)["i"]    # ghost: index of `node` in current_level (state of the enclosing loop 1)
        pend = lambda xx: z3.Or(in_list(cur, xx, lo=oi + 1), in_list(nxt, xx), xx == node)
        return common_sd(c) + [
            ("start_seen", seen[start(c)]),
            ("seen_valid", z3.ForAll([x], z3.Implies(seen[x], S.valid(v, x)))),
            ("level_seen", z3.ForAll([a], z3.Implies(z3.And(0 <= a, a < LI.len(cur)), seen[LI.at(cur)[a]]))),
            ("next_seen", z3.ForAll([a], z3.Implies(z3.And(0 <= a, a < LI.len(nxt)), seen[LI.at(nxt)[a]]))),
            ("closed_except_pending", z3.ForAll([x], processed(v, seen, x, pend(x)))),
            ("node_is_current", z3.And(0 <= oi, oi < LI.len(cur), LI.at(cur)[oi] == node, seen[node], v.expanded[node])),
            ("node_successors_listed", z3.ForAll([y], z3.Implies(z3.And(v.edge[node][y], z3.Not(seen[y])), in_list(succ, y, lo=c.i)))),
            ("listed_are_successors", z3.ForAll([a], z3.Implies(z3.And(0 <= a, a < LI.len(succ)), v.edge[node][LI.at(succ)[a]]))),
            ("level_spaces_kept", z3.ForAll([a], z3.Implies(z3.And(0 <= a, a < LI.len(cur)), v.space[LI.at(cur)[a]] == c.head(0).sd.space[LI.at(cur)[a]]))),
            ("next_level_is_deeper", level_rank(c, nxt, MinRank(c.head(0).sd.space, cur) + 1)),
        ]

    reg.add(Contract(
        "biobalm._sd_algorithms.expand_bfs.expand_bfs",
        params=[("sd", SD), ("node_id", OI), ("bfs_level_limit", OI), ("size_limit", OI)],
        defaults={"node_id": None, "bfs_level_limit": None, "size_limit": None}, result_type=TBool,
        properties=("C02", "C03", "C04", "C15"),
        requires=[lambda c: S.inv_all(c.sd), lambda c: c.sd.cfg_max_motifs_per_node >= 0,
                  lambda c: z3.Implies(z3.Not(OI.is_none(c.node_id)), S.valid(c.sd, OI.val(c.node_id)))],
        modifies={"sd": ALLF},
        may_raise={"RuntimeError": {"modifies": {"sd": ALLF}}},
        ensures=[(nm, pick(bfs_post, nm)) for nm in names_common + ["true_means_complete", "false_only_for_a_reason"]],
        raises={"RuntimeError": [(nm, pick(common_sd, nm)) for nm in names_common]},
        lemmas=[("def.AllReachableExpanded", lambda c: S.are_intro(c.sd, start(c), c.seen))],
        axioms=AX_MINRANK,
        local_types={"seen": SI, "current_level": LI, "next_level": LI, "level_id": TInt, "successors": LI, "node_id": TInt},
        loops={
            0: LoopContract("while len(current_level) > 0", bfs_inv0, havoc_heap={"sd": ALLF}, lemmas=[("def.card(bounded)", lem_card)],
                            variant=lambda c: [T.nvars(S.net(c.sd)) - MinRank(c.sd.space, c.current_level)]),
            1: LoopContract("for node in current_level", bfs_inv1, havoc_heap={"sd": ALLF},
                            lemmas=[("S.ext_transitive", lambda c: S.ext_trans(c.sd, c.head(1).sd, c.old.sd))]),
            2: LoopContract("for s in successors", bfs_inv2_real, havoc_heap={},
                            lemmas=[("S.ext_transitive", lambda c: S.ext_trans(c.sd, c.head(1).sd, c.old.sd))]),
        },
    ))


# ====================================================================== expand_minimal_spaces.make_skip_node
def install_skipnode(reg):
    from .succession_diagram import _dummy_ho
    NODEF_NOEXP = ("space", "skipped", "parent", "cand", "seeds", "sets", "ppn", "pbn", "pnfvs")
    NODEF = ("space", "expanded", "skipped", "parent", "cand", "seeds", "sets", "ppn", "pbn", "pnfvs")
    LS = M.LS
    i_, x_, y_ = z3.Int("i"), z3.Int("x"), z3.Int("y")

    def N(v):
        return S.net(v)

    def cleared(v, n):
        return z3.And(v.cand[n] == M.OptLS.none().t, v.seeds[n] == M.OptLS.none().t, v.sets[n] == M.OptLV.none().t)

    def others(v, o, n, l):
        S0 = o.space[n]
        return z3.And(
            S.frame_nodes(v, o, except_ids=(n,), fields=NODEF_NOEXP + ("succsig",)),
            z3.ForAll([i_], z3.Implies(z3.And(0 <= i_, i_ < o.K, i_ != n), z3.Implies(o.expanded[i_], v.expanded[i_]))),
            z3.ForAll([i_], z3.Implies(z3.And(0 <= i_, i_ < v.K, i_ != n, v.expanded[i_], z3.Or(i_ >= o.K, z3.Not(o.expanded[i_]))),
                                       z3.And(v.succsig[i_] == S.nosucc, T.MinTrapSet(N(o), S0)[v.space[i_]]))),
            z3.ForAll([x_, y_], z3.Implies(z3.And(0 <= x_, x_ < o.K, x_ != n, 0 <= y_, y_ < o.K), z3.And(
                v.edge[x_][y_] == o.edge[x_][y_], v.motifs[x_][y_] == o.motifs[x_][y_], v.motif0[x_][y_] == o.motif0[x_][y_]))),
            z3.ForAll([x_, y_], z3.Implies(z3.And(0 <= x_, x_ < o.K, x_ != n, y_ >= o.K), z3.Not(v.edge[x_][y_]))),
            v.K >= o.K, v.net == o.net, v.sym == o.sym, v.pn == o.pn,
            z3.ForAll([i_], z3.Implies(z3.And(0 <= i_, i_ < o.K), v.depth[i_] >= o.depth[i_])))

    def post(c):
        v, o, n = c.sd, c.old.sd, c.node_id
        return [
            ("noop_if_already_expanded", z3.Implies(o.expanded[n], z3.And(
                v.K == o.K, S.frame_nodes(v, o, fields=NODEF + ("succsig", "depth")), S.frame_edges(v, o), v.index == o.index))),
            ("becomes_skip_node_with_caches_discarded", z3.Implies(z3.Not(o.expanded[n]), z3.And(
                v.expanded[n], v.skipped[n], cleared(v, n), v.space[n] == o.space[n]))),
            *split_and("others", others(v, o, n, c.all_minimal_traps)),
        ] + [("inv." + nm, g) for nm, g in S.inv(v)]

    def loop(c):
        v, o, n = c.sd, c.old.sd, c.node_id
        return [("inv." + nm, g) for nm, g in S.inv(v, exempt=n)] + [
            ("node_in_progress", z3.And(z3.Not(v.expanded[n]), z3.Not(v.skipped[n]), cleared(v, n), v.space[n] == o.space[n], S.valid(v, n))),
            ("signature_so_far", v.succsig[n] == S.FoldSigF(N(o), c.all_minimal_traps, o.space[n], c.i)),
            *split_and("others", others(v, o, n, c.all_minimal_traps)),
        ]

    names = ["noop_if_already_expanded", "becomes_skip_node_with_caches_discarded"] + [f"others.{k}" for k in range(10)] + ["inv." + x for x in inv_names()]
    reg.add(Contract(
        "biobalm._sd_algorithms.expand_minimal_spaces.expand_minimal_spaces.make_skip_node",
        params=[("sd", SD), ("node_id", TInt), ("all_minimal_traps", LS)],
        properties=("C14", "C05", "C03"),
        requires=[lambda c: S.inv_all(c.sd), lambda c: S.valid(c.sd, c.node_id),
                  lambda c: z3.Implies(z3.Not(c.sd.expanded[c.node_id]), S.EnumInside(N(c.sd), c.all_minimal_traps, c.sd.space[c.node_id])),
                  # a stub that is itself a minimal trap space is never skipped (it would need an edge to itself)
                  lambda c: z3.Implies(z3.Not(c.sd.expanded[c.node_id]), z3.Not(T.MinTrapSet(N(c.sd), c.sd.space[c.node_id])[c.sd.space[c.node_id]]))],
        modifies={"sd": ALLF},
        ensures=[(nm, (lambda k: (lambda c: dict(post(c))[k]))(nm)) for nm in names],
        lemmas=[("L3.min_trap_facts(inside)", lambda c: S.enum_inside_facts(N(c.sd), c.all_minimal_traps, c.old.sd.space[c.node_id] if c.old is not None else c.sd.space[c.node_id])),
                ("def.SkipOK", lambda c: S.skipok_intro_inside(N(c.sd), c.old.sd.space[c.node_id], c.all_minimal_traps, c.sd.succsig[c.node_id]))],
        loops={0: LoopContract("for m_trap in all_minimal_traps", loop, havoc_heap={"sd": ALLF})},
        local_types={"skip_edges": TInt},
    ), nested_in="biobalm._sd_algorithms.expand_minimal_spaces.expand_minimal_spaces")


# ====================================================================== expand_to_target (C06, C07, C04, C15)
def install_target(reg):
    kn = z3.Const("k", Name)

    def common_sd(c):
        v, o = c.sd, c.old.sd
        return [("inv." + nm, g) for nm, g in S.inv(v)] + [("extends_entry_diagram", S.ext(v, o)),
                                                            ("config_kept", v.cfg_max_motifs_per_node == o.cfg_max_motifs_per_node)]

    def consistent(sp, tg):
        return z3.Not(z3.Exists([kn], z3.And(indom(sp, kn), indom(tg, kn), sp[kn] != tg[kn])))

    def strictly_inside(sp, tg):
        return z3.And(z3.ForAll([kn], z3.Implies(indom(tg, kn), z3.And(indom(sp, kn), sp[kn] == tg[kn]))), z3.Not(T.space_eq(sp, tg)))

    def relevant(v, xx, tg):
        """the node intersects the target without lying strictly inside it: exactly the nodes expand_to_target expands"""
        return z3.And(consistent(v.space[xx], tg), z3.Not(strictly_inside(v.space[xx], tg)))

    def processed(v, seen, xx, pending, tg):
        return z3.Implies(z3.And(seen[xx], z3.Not(pending), relevant(v, xx, tg)),
                          z3.And(v.expanded[xx], z3.ForAll([y], z3.Implies(v.edge[xx][y], seen[y]))))

    def base(c):
        v, seen = c.sd, c.seen
        return common_sd(c) + [
            ("root_seen", seen[0]),
            ("seen_valid", z3.ForAll([x], z3.Implies(seen[x], S.valid(v, x)))),
            ("level_seen", z3.ForAll([a], z3.Implies(z3.And(0 <= a, a < LI.len(c.current_level)), seen[LI.at(c.current_level)[a]]))),
        ]

    def rank(v, xx):
        return T.card(v.space[xx])

    def level_rank(c, lst, lvl):
        return z3.ForAll([a], z3.Implies(z3.And(0 <= a, a < LI.len(lst)), rank(c.sd, LI.at(lst)[a]) >= lvl))

    def lem_card(c):
        sq = z3.Const("s!cbt", T.SpaceS)
        Nn = S.net(c.sd)
        return z3.ForAll([sq], z3.Implies(z3.And(T.wf_space(sq), T.dom_within(sq, Nn)), T.card(sq) <= T.nvars(Nn)), patterns=[T.card(sq)])

    def kept(c):
        cur = c.current_level
        return ("level_spaces_kept", z3.ForAll([a], z3.Implies(z3.And(0 <= a, a < LI.len(cur)), c.sd.space[LI.at(cur)[a]] == c.head(0).sd.space[LI.at(cur)[a]])))

    def ranks(c):
        return ("next_level_is_deeper", level_rank(c, c.next_level, MinRank(c.head(0).sd.space, c.current_level) + 1))

    def inv0(c):
        v, cur = c.sd, c.current_level
        return base(c) + [("next_empty", LI.len(c.next_level) == 0),
                          ("closed_except_level", z3.ForAll([x], processed(c.sd, c.seen, x, in_list(c.current_level, x), c.target)))]

    def inv1(c):
        pend = lambda xx: z3.Or(in_list(c.current_level, xx, lo=c.i), in_list(c.next_level, xx))
        return base(c) + [("next_seen", z3.ForAll([a], z3.Implies(z3.And(0 <= a, a < LI.len(c.next_level)), c.seen[LI.at(c.next_level)[a]]))),
                          ("closed_except_pending", z3.ForAll([x], processed(c.sd, c.seen, x, pend(x), c.target))), kept(c), ranks(c)]

    def inv2(c):
        oi = c.outer(1)["i"]
        node = c.node
        pend = lambda xx: z3.Or(in_list(c.current_level, xx, lo=oi + 1), in_list(c.next_level, xx), xx == node)
        return base(c) + [("next_seen", z3.ForAll([a], z3.Implies(z3.And(0 <= a, a < LI.len(c.next_level)), c.seen[LI.at(c.next_level)[a]]))),
                          ("closed_except_pending", z3.ForAll([x], processed(c.sd, c.seen, x, pend(x), c.target))),
                          ("node_is_current", z3.And(0 <= oi, oi < LI.len(c.current_level), LI.at(c.current_level)[oi] == node, c.seen[node], c.sd.expanded[node])),
                          ("node_successors_listed", z3.ForAll([y], z3.Implies(z3.And(c.sd.edge[node][y], z3.Not(c.seen[y])), in_list(c.successors, y, lo=c.i)))),
                          ("listed_are_successors", z3.ForAll([a], z3.Implies(z3.And(0 <= a, a < LI.len(c.successors)), c.sd.edge[node][LI.at(c.successors)[a]]))),
                          kept(c), ranks(c)]

    def post(c):
        v, r = c.sd, c.result
        cl = common_sd(c)
        try:
            seen = c.seen         # a local of the driver: only its own body can state the exploration clause
        except AttributeError:
            seen = None
        if seen is not None:
            cl.append(("true_means_target_region_explored", z3.Implies(r, z3.And(seen[0], z3.ForAll([x], processed(v, seen, x, z3.BoolVal(False), c.target))))))
        cl.append(("false_only_at_size_limit_with_a_stub", z3.Implies(z3.Not(r), z3.And(
            z3.Not(OI.is_none(c.size_limit)), v.K >= OI.val(c.size_limit), z3.Exists([x], z3.And(S.valid(v, x), z3.Not(v.expanded[x])))))))
        return cl

    names_common = ["inv." + n for n in inv_names()] + ["extends_entry_diagram", "config_kept"]
    pick = lambda fn, nm: (lambda c: dict(fn(c))[nm])
    tr = [("S.ext_transitive", lambda c: S.ext_trans(c.sd, c.head(1).sd, c.old.sd))]
    reg.add(Contract(
        "biobalm._sd_algorithms.expand_to_target.expand_to_target",
        params=[("sd", SD), ("target", TSpace), ("size_limit", OI)], defaults={"size_limit": None}, result_type=TBool,
        properties=("C06", "C07", "C04", "C15"),
        requires=[lambda c: S.inv_all(c.sd), lambda c: c.sd.cfg_max_motifs_per_node >= 0],
        modifies={"sd": ALLF}, may_raise={"RuntimeError": {"modifies": {"sd": ALLF}}},
        ensures=[(nm, pick(post, nm)) for nm in names_common + ["true_means_target_region_explored", "false_only_at_size_limit_with_a_stub"]],
        raises={"RuntimeError": [(nm, pick(common_sd, nm)) for nm in names_common]},
        axioms=AX_MINRANK,
        local_types={"seen": SI, "current_level": LI, "next_level": LI, "level_id": TInt, "successors": LI},
        loops={0: LoopContract("while len(current_level) > 0", inv0, havoc_heap={"sd": ALLF}, lemmas=[("def.card(bounded)", lem_card)],
                               variant=lambda c: [T.nvars(S.net(c.sd)) - MinRank(c.sd.space, c.current_level)]),
               1: LoopContract("for node in current_level", inv1, havoc_heap={"sd": ALLF}, lemmas=tr),
               2: LoopContract("for s in successors", inv2, havoc_heap={}, lemmas=tr)},
    ))


# ====================================================================== expand_dfs (C02, C03, C04, C15)
def install_dfs(reg):
    ST, SE = T.StackT, T.StackEntry
    OL = TOpt(LI)

    def common_sd(c):
        v, o = c.sd, c.old.sd
        return [("inv." + nm, g) for nm, g in S.inv(v)] + [("extends_entry_diagram", S.ext(v, o)),
                                                            ("config_kept", v.cfg_max_motifs_per_node == o.cfg_max_motifs_per_node)]

    def start(c):
        arg = c.old.node_id
        return z3.If(OI.is_none(arg), 0, OI.val(arg))

    def entry_ok(v, seen, ent):
        """a stack entry (node, remaining successors or None)"""
        nd, rest = SE.get(ent, 0), SE.get(ent, 1)
        return z3.And(seen[nd], S.valid(v, nd),
                      z3.Implies(z3.Not(OL.is_none(rest)), z3.And(
                          v.expanded[nd], LI.len(OL.val(rest)) >= 0,
                          z3.ForAll([b], z3.Implies(z3.And(0 <= b, b < LI.len(OL.val(rest))), S.valid(v, LI.at(OL.val(rest))[b]))),
                          z3.ForAll([y], z3.Implies(z3.And(v.edge[nd][y], z3.Not(seen[y])), T.MemI(OL.val(rest), y))))))

    def closed(v, seen, stack):
        return z3.ForAll([x], z3.Implies(z3.And(seen[x], z3.Not(T.OnStack(stack, x))),
                                         z3.And(v.expanded[x], z3.ForAll([y], z3.Implies(v.edge[x][y], seen[y])))))

    def inv0(c):
        v, seen, stack = c.sd, c.seen, c.stack
        return common_sd(c) + [
            ("start_seen", seen[start(c)]),
            ("seen_valid", z3.ForAll([x], z3.Implies(seen[x], S.valid(v, x)))),
            ("stack_entries", z3.And(ST.len(stack) >= 0, z3.ForAll([a], z3.Implies(z3.And(0 <= a, a < ST.len(stack)), entry_ok(v, seen, ST.at(stack)[a]))))),
            ("closed_when_complete", z3.Implies(c.result_is_complete, closed(v, seen, stack))),
            ("incomplete_only_with_stack_limit", z3.Implies(z3.Not(c.result_is_complete), z3.Not(OI.is_none(c.dfs_stack_limit)))),
        ]

    def inv1(c):
        """inner loop dropping already seen successors from the end of the list"""
        v, seen, stack, node, succ = c.sd, c.seen, c.stack, c.node, c.successors
        return common_sd(c) + [
            ("start_seen", seen[start(c)]),
            ("seen_valid", z3.ForAll([x], z3.Implies(seen[x], S.valid(v, x)))),
            ("stack_entries", z3.And(ST.len(stack) >= 0, z3.ForAll([a], z3.Implies(z3.And(0 <= a, a < ST.len(stack)), entry_ok(v, seen, ST.at(stack)[a]))))),
            ("closed_except_node", z3.Implies(c.result_is_complete, z3.ForAll([x], z3.Implies(
                z3.And(seen[x], z3.Not(T.OnStack(stack, x)), x != node),
                z3.And(v.expanded[x], z3.ForAll([y], z3.Implies(v.edge[x][y], seen[y]))))))),
            ("incomplete_only_with_stack_limit", z3.Implies(z3.Not(c.result_is_complete), z3.Not(OI.is_none(c.dfs_stack_limit)))),
            ("node_pending", z3.And(seen[node], S.valid(v, node), v.expanded[node], LI.len(succ) >= 0,
                                    z3.ForAll([a], z3.Implies(z3.And(0 <= a, a < LI.len(succ)), S.valid(v, LI.at(succ)[a]))),
                                    z3.ForAll([y], z3.Implies(z3.And(v.edge[node][y], z3.Not(seen[y])), T.MemI(succ, y))))),
        ]

    def post(c):
        v, r = c.sd, c.result
        return common_sd(c) + [
            ("true_means_complete", z3.Implies(r, S.ARE(v.edge, v.expanded, start(c)))),
            ("false_only_for_a_reason", z3.Implies(z3.Not(r), z3.Or(
                z3.Not(OI.is_none(c.dfs_stack_limit)),
                z3.And(z3.Not(OI.is_none(c.size_limit)), v.K >= OI.val(c.size_limit),
                       z3.Exists([x], z3.And(S.valid(v, x), z3.Not(v.expanded[x]))))))),
        ]

    names_common = ["inv." + n for n in inv_names()] + ["extends_entry_diagram", "config_kept"]
    pick = lambda fn, nm: (lambda c: dict(fn(c))[nm])
    tr = [("S.ext_transitive", lambda c: S.ext_trans(c.sd, c.head(0).sd, c.old.sd))]
    reg.add(Contract(
        "biobalm._sd_algorithms.expand_dfs.expand_dfs",
        params=[("sd", SD), ("node_id", OI), ("dfs_stack_limit", OI), ("size_limit", OI)],
        defaults={"node_id": None, "dfs_stack_limit": None, "size_limit": None}, result_type=TBool,
        properties=("C02", "C03", "C04", "C15"),
        requires=[lambda c: S.inv_all(c.sd), lambda c: c.sd.cfg_max_motifs_per_node >= 0,
                  lambda c: z3.Implies(z3.Not(OI.is_none(c.node_id)), S.valid(c.sd, OI.val(c.node_id)))],
        modifies={"sd": ALLF}, may_raise={"RuntimeError": {"modifies": {"sd": ALLF}}},
        ensures=[(nm, pick(post, nm)) for nm in names_common + ["true_means_complete", "false_only_for_a_reason"]],
        raises={"RuntimeError": [(nm, pick(common_sd, nm)) for nm in names_common]},
        lemmas=[("def.AllReachableExpanded", lambda c: S.are_intro(c.sd, start(c), c.seen))],
        local_types={"seen": SI, "stack": ST, "successors": LI, "result_is_complete": TBool, "node": TInt, "node_id": TInt, "s": TInt},
        loops={0: LoopContract("while len(stack) > 0", inv0, havoc_heap={"sd": ALLF}, local_types={"successors": OL}),
               1: LoopContract("while len(successors) > 0 and successors[-1] in seen", inv1, havoc_heap={}, lemmas=tr,
                               variant=lambda c: [LI.len(c.successors)])},
    ))


# ====================================================================== expand_minimal_spaces (C03, C05, C04, C15)
def install_minimal(reg):
    """expand_minimal_spaces against its body.  Proved: the diagram invariant and monotone extension are kept on every exit; `.remove`
    never fails; True is returned only when every minimal trap space inside the start node is the space of an expanded, successor-free
    node; False only at the size limit with a stub; make_skip_node is only applied to stubs that are not minimal trap spaces themselves.
    NOT proved: that the final completeness assertion never fires (AssertionError is a declared possible outcome; ruling it out needs
    the descent lemma 'a minimal trap space inside an expanded node lies inside one of its successors', not mechanised)."""
    ST, SE = T.StackT, T.StackEntry
    OL = TOpt(LI)
    LS = M.LS
    D = M.TDict(TInt, TInt)
    EMPTYS = z3.K(Name, z3.IntVal(-1))
    MemS, AX_MEMS = T.mem_theory(LS, "space")
    DistinctS = z3.Function("DistinctS", LS.sort(), B)     # no element occurs twice (opaque; introduced by def.Distinct, consumed by list.remove)
    k_, k2_ = z3.Int("k!m"), z3.Int("k!m2")
    sv = z3.Const("S!m", T.SpaceS)
    l, e, ss, pq = z3.Const("l!m", LS.sort()), z3.Const("e!m", T.SpaceS), z3.Const("ss!m", T.SrcSet), z3.Const("p!m", T.PNS)

    def remove_facts(eng, st, ty, old, new, xv, node):
        if ty == LS:
            eng.oblige(st, f"remove_present@{node.lineno}", MemS(old, xv), node.lineno, kind="safety")
            yq = z3.Const(fresh_name("y"), T.SpaceS)
            st.assume(z3.ForAll([yq], z3.Implies(yq != xv, MemS(new, yq) == MemS(old, yq))))
            st.assume(z3.Implies(DistinctS(old), z3.And(z3.Not(MemS(new, xv)), DistinctS(new))))
            return True
        return None
    reg.add_hook("list_remove_facts", remove_facts)

    def N(v):
        return S.net(v)

    def start(c):
        arg = c.old.node_id if c.old is not None else c.node_id
        return z3.If(OI.is_none(arg), 0, OI.val(arg))

    def R(c):
        o = c.old.sd if c.old is not None else c.sd
        return o.space[start(c)]

    def common_sd(c):
        v, o = c.sd, c.old.sd
        return [("inv." + nm, g) for nm, g in S.inv(v)] + [("extends_entry_diagram", S.ext(v, o)),
                                                            ("config_kept", v.cfg_max_motifs_per_node == o.cfg_max_motifs_per_node)]

    def has(v, sp):
        return D.dom(v.index)[T.SKey(N(v), sp)]

    def idof(v, sp):
        return D.vals(v.index)[T.SKey(N(v), sp)]

    def finished(v, seen, stack, n):
        return z3.And(seen[n], z3.Not(T.OnStack(stack, n)), S.valid(v, n), v.expanded[n], v.succsig[n] == S.nosucc)

    def found(c, v, seen, stack, am, mt):
        """J: every minimal trap space that is no longer pending is the space of a finished (expanded, successor-free) node"""
        return z3.ForAll([k_], z3.Implies(z3.And(0 <= k_, k_ < LS.len(am), z3.Not(MemS(mt, LS.at(am)[k_]))), z3.And(
            has(v, LS.at(am)[k_]), finished(v, seen, stack, idof(v, LS.at(am)[k_])), v.space[idof(v, LS.at(am)[k_])] == LS.at(am)[k_])))

    def entry_ok(v, seen, ent):
        nd, rest = SE.get(ent, 0), SE.get(ent, 1)
        return z3.And(seen[nd], S.valid(v, nd),
                      z3.Implies(z3.Not(OL.is_none(rest)), z3.And(
                          v.expanded[nd], LI.len(OL.val(rest)) >= 0,
                          z3.ForAll([b], z3.Implies(z3.And(0 <= b, b < LI.len(OL.val(rest))),
                                                    z3.And(S.valid(v, LI.at(OL.val(rest))[b]), v.edge[nd][LI.at(OL.val(rest))[b]]))))))

    def enum_facts(c):
        """what the enumeration lemma gives about all_minimal_traps (kept as an invariant because the diagram view changes around it)"""
        am = c.all_minimal_traps
        Nn = N(c.old.sd)
        return z3.And(T.IsEnum(am, T.MinTrapSet(Nn, R(c))), S.min_trap_facts(Nn, R(c), am), DistinctS(am), LS.len(am) >= 0)

    def shared(c, stack):
        v, seen, am, mt = c.sd, c.seen, c.all_minimal_traps, c.minimal_traps
        return common_sd(c) + [
            ("start_seen", seen[start(c)]),
            ("seen_valid_inside_start", z3.ForAll([x], z3.Implies(seen[x], z3.And(S.valid(v, x), T.subspace(v.space[x], R(c)))))),
            ("stack_entries", z3.And(ST.len(stack) >= 0, z3.ForAll([a], z3.Implies(z3.And(0 <= a, a < ST.len(stack)), entry_ok(v, seen, ST.at(stack)[a]))))),
            ("stack_nodes_distinct", z3.ForAll([a, b], z3.Implies(z3.And(0 <= a, a < b, b < ST.len(stack)),
                                                                  SE.get(ST.at(stack)[a], 0) != SE.get(ST.at(stack)[b], 0)))),
            ("pending_traps_are_enumerated", z3.And(DistinctS(mt), LS.len(mt) >= 0, z3.ForAll([sv], z3.Implies(MemS(mt, sv), MemS(am, sv))))),
            ("found_traps_have_finished_nodes", found(c, v, seen, stack, am, mt)),
        ]

    def inv0(c):
        cl = shared(c, c.stack)
        try:
            hs, hseen = c.at_head(0, "stack"), c.at_head(0, "seen")
        except (KeyError, AttributeError):
            return cl
        # proof step (not visible to callers): whatever is on the stack at the end of an iteration was on it at the head of the iteration
        # or has been seen during the iteration - this is all the preservation of the next clause needs to know about pushes and pops
        step = ("step.stack_grows_only_by_newly_seen_nodes", z3.ForAll([x], z3.Implies(
            T.OnStack(c.stack, x), z3.Or(T.OnStack(hs, x), z3.And(c.seen[x], z3.Not(hseen[x]))))))
        k = [nm for nm, _ in cl].index("found_traps_have_finished_nodes")
        return cl[:k] + [step] + cl[k:]

    def inv1(c):
        v, seen, stack, node, succ, am, mt = c.sd, c.seen, c.stack, c.node, c.successors, c.all_minimal_traps, c.minimal_traps
        return shared(c, stack) + [
            ("node_pending", z3.And(seen[node], S.valid(v, node), v.expanded[node], z3.Not(T.OnStack(stack, node)), LI.len(succ) >= 0,
                                    c.node_space == v.space[node],
                                    z3.ForAll([a], z3.Implies(z3.And(0 <= a, a < LI.len(succ)),
                                                              z3.And(S.valid(v, LI.at(succ)[a]), v.edge[node][LI.at(succ)[a]]))))),
            ("node_trap_still_pending", z3.ForAll([k_], z3.Implies(z3.And(0 <= k_, k_ < LS.len(am), LS.at(am)[k_] == v.space[node]),
                                                                    MemS(mt, LS.at(am)[k_])))),
        ]

    def post(c):
        v, r = c.sd, c.result
        try:
            am = c.local("all_minimal_traps")
        except (KeyError, AttributeError):
            return common_sd(c) + [("false_only_at_the_size_limit_with_a_stub", z3.Implies(z3.Not(r), z3.And(
                z3.Not(OI.is_none(c.size_limit)), v.K >= OI.val(c.size_limit), z3.Exists([x], z3.And(S.valid(v, x), z3.Not(v.expanded[x]))))))]
        return common_sd(c) + [
            ("enumeration_of_the_minimal_trap_spaces_inside_the_start_node", z3.Implies(r, T.IsEnum(am, T.MinTrapSet(N(c.old.sd), R(c))))),
            ("true_means_every_minimal_trap_space_is_an_expanded_leaf", z3.Implies(r, z3.ForAll([k_], z3.Implies(
                z3.And(0 <= k_, k_ < LS.len(am)),
                z3.And(has(v, LS.at(am)[k_]), v.expanded[idof(v, LS.at(am)[k_])], v.succsig[idof(v, LS.at(am)[k_])] == S.nosucc,
                       v.space[idof(v, LS.at(am)[k_])] == LS.at(am)[k_]))))),
            ("false_only_at_the_size_limit_with_a_stub", z3.Implies(z3.Not(r), z3.And(
                z3.Not(OI.is_none(c.size_limit)), v.K >= OI.val(c.size_limit), z3.Exists([x], z3.And(S.valid(v, x), z3.Not(v.expanded[x])))))),
        ]

    def lem_min(c):
        """L4+L5.min_traps_restricted (with the node space also passed as ensure_subspace) and L3.min_trap_facts for the start node"""
        o = c.old.sd if c.old is not None else c.sd
        Nn, Sp = N(o), R(c)
        return z3.ForAll([l, e, ss, pq], z3.Implies(
            z3.And(T.IsEnum(l, T.TrapSol(pq, 0, False, e, T.no_avoid, ss)), z3.Or(e == EMPTYS, e == Sp),
                   z3.Or(pq == T.RestrictPN(o.pn, Sp), z3.And(pq == T.EmptyPN, T.card(Sp) == T.nvars(Nn))), T.Encodes(o.pn, Nn, EMPTYS)),
            z3.And(T.IsEnum(T.map_union_l(Sp, l), T.MinTrapSet(Nn, Sp)), S.min_trap_facts(Nn, Sp, T.map_union_l(Sp, l)),
                   DistinctS(T.map_union_l(Sp, l)),
                   # def.Mem (introduction) for the mapped list: its k-th element is a member (stated here because the mapped list is a
                   # lambda term whose element terms are beta-reduced before any pattern could match them)
                   z3.ForAll([k_], z3.Implies(z3.And(0 <= k_, k_ < LS.len(l)), MemS(T.map_union_l(Sp, l), LS.at(T.map_union_l(Sp, l))[k_]))))),
            patterns=[T.IsEnum(l, T.TrapSol(pq, 0, False, e, T.no_avoid, ss))])

    def lem_inside(c):
        """L3: inside the start space R, for every Perc-closed trap space S below R: the enumeration restricted to S enumerates the minimal
        trap spaces of S (EnumInside + facts), and S itself is enumerated iff it is a minimal trap space"""
        Nn, am = N(c.sd), c.all_minimal_traps
        return z3.Implies(T.IsEnum(am, T.MinTrapSet(Nn, R(c))), z3.ForAll([sv], z3.Implies(
            z3.And(T.IsTrap(Nn, sv), T.Perc(Nn, sv) == sv, T.wf_space(sv), T.subspace(sv, R(c))),
            z3.And(S.EnumInside(Nn, am, sv), S.enum_inside_facts(Nn, am, sv),
                   z3.Implies(T.MinTrapSet(Nn, sv)[sv], z3.Exists([k_], z3.And(0 <= k_, k_ < LS.len(am), LS.at(am)[k_] == sv))))),
            patterns=[T.IsTrap(Nn, sv)]))

    def lem_leaf(c):
        """L3: an expanded node without successors is a minimal trap space (normal node: no maximal trap space inside; a skip node always
        has a successor because every trap space contains a minimal one)"""
        Nn = N(c.sd)
        rq = z3.Bool("r!lf")
        return z3.ForAll([sv], z3.And(
            z3.Implies(z3.And(T.IsTrap(Nn, sv), T.Perc(Nn, sv) == sv, z3.Or(S.NormSig(Nn, sv, True) == S.nosucc, S.NormSig(Nn, sv, False) == S.nosucc)),
                       T.MinTrapSet(Nn, sv)[sv]),
            z3.Implies(T.IsTrap(Nn, sv), z3.Not(S.SkipOK(Nn, sv, S.nosucc)))), patterns=[T.IsTrap(Nn, sv)])

    names_common = ["inv." + n for n in inv_names()] + ["extends_entry_diagram", "config_kept"]
    pick = lambda fn, nm: (lambda c: dict(fn(c))[nm])
    tr = [("S.ext_transitive", lambda c: S.ext_trans(c.sd, c.head(0).sd, c.old.sd))]
    lem_all = [("L3.min_traps_inside(EnumInside)", lem_inside), ("L3.leaf_is_minimal", lem_leaf)]
    reg.add(Contract(
        "biobalm._sd_algorithms.expand_minimal_spaces.expand_minimal_spaces",
        params=[("sd", SD), ("node_id", OI), ("size_limit", OI), ("skip_remaining", TBool)],
        defaults={"node_id": None, "size_limit": None, "skip_remaining": False}, result_type=TBool,
        properties=("C03", "C05", "C04", "C15"),
        requires=[lambda c: S.inv_all(c.sd), lambda c: c.sd.cfg_max_motifs_per_node >= 0,
                  lambda c: z3.Implies(z3.Not(OI.is_none(c.node_id)), S.valid(c.sd, OI.val(c.node_id)))],
        modifies={"sd": ALLF}, may_raise={"RuntimeError": {"modifies": {"sd": ALLF}}, "AssertionError": {"modifies": {"sd": ALLF}}},
        ensures=[(nm, pick(post, nm)) for nm in names_common + ["enumeration_of_the_minimal_trap_spaces_inside_the_start_node",
                                                               "true_means_every_minimal_trap_space_is_an_expanded_leaf",
                                                               "false_only_at_the_size_limit_with_a_stub"]],
        raises={"RuntimeError": [(nm, pick(common_sd, nm)) for nm in names_common],
                "AssertionError": [(nm, pick(common_sd, nm)) for nm in names_common]},
        axioms=AX_MEMS,
        lemmas=[("L4+L5.min_traps_restricted+L3.min_trap_facts", lem_min)],
        local_types={"seen": SI, "stack": ST, "successors": LI, "minimal_traps": LS, "all_minimal_traps": LS, "node": TInt, "node_id": TInt,
                     "s": TInt, "skipped": TInt, "node_space": TSpace},
        loops={0: LoopContract("while len(stack) > 0", inv0, havoc_heap={"sd": ALLF}, local_types={"successors": OL}, lemmas=lem_all),
               1: LoopContract("while len(successors) > 0", inv1, havoc_heap={"sd": ALLF}, lemmas=tr + lem_all,
                               variant=lambda c: [LI.len(c.successors)])},
        raising_asserts=["len(minimal_traps) == 0"],
        note="AssertionError (the internal completeness check at the end) is a declared possible outcome, not proved impossible",
    ))


# ====================================================================== expand_attractor_seeds (C15, C13, C03)
def install_attractor_seeds(reg):
    """expand_attractor_seeds against its body. Proved: the diagram invariant and monotone extension hold on every exit (True, False,
    RuntimeError of the motif limit, AssertionError of expand_minimal_spaces' internal check); False is returned only at the size limit with
    the node in hand unexpanded; `successors[-1]`, `.pop()` never fail; the successor-skipping loop terminates. NOT proved here: that a
    successor left unexpanded has no attractor of its own outside the expanded children (the reduced-STG argument; bounded stand-in only)."""
    ST, SE = T.StackT, T.StackEntry
    OL = TOpt(LI)
    LS = M.LS

    def common_sd(c):
        v, o = c.sd, c.old.sd
        return [("inv." + nm, g) for nm, g in S.inv(v)] + [("extends_entry_diagram", S.ext(v, o)),
                                                            ("config_kept", v.cfg_max_motifs_per_node == o.cfg_max_motifs_per_node)]

    def entry_ok(v, seen, ent):
        nd, rest = SE.get(ent, 0), SE.get(ent, 1)
        return z3.And(seen[nd], S.valid(v, nd),
                      z3.Implies(z3.Not(OL.is_none(rest)), z3.And(
                          v.expanded[nd], LI.len(OL.val(rest)) >= 0,
                          z3.ForAll([b], z3.Implies(z3.And(0 <= b, b < LI.len(OL.val(rest))), S.valid(v, LI.at(OL.val(rest))[b]))))))

    def shared(c):
        v, seen, stack = c.sd, c.seen, c.stack
        return common_sd(c) + [
            ("root_seen", seen[0]),
            ("seen_valid", z3.ForAll([x], z3.Implies(seen[x], S.valid(v, x)))),
            ("stack_entries", z3.And(ST.len(stack) >= 0, z3.ForAll([a], z3.Implies(z3.And(0 <= a, a < ST.len(stack)), entry_ok(v, seen, ST.at(stack)[a]))))),
        ]

    def inv1(c):
        v, node, succ = c.sd, c.node, c.successors
        return shared(c) + [
            ("node_pending", z3.And(c.seen[node], S.valid(v, node), v.expanded[node], LI.len(succ) >= 0,
                                    z3.ForAll([a], z3.Implies(z3.And(0 <= a, a < LI.len(succ)), S.valid(v, LI.at(succ)[a]))))),
        ]

    def post(c):
        v, r = c.sd, c.result
        return common_sd(c) + [
            ("false_only_at_the_size_limit_with_a_stub", z3.Implies(z3.Not(r), z3.And(
                z3.Not(OI.is_none(c.size_limit)), v.K >= OI.val(c.size_limit), z3.Exists([x], z3.And(S.valid(v, x), z3.Not(v.expanded[x])))))),
        ]

    names_common = ["inv." + n for n in inv_names()] + ["extends_entry_diagram", "config_kept"]
    pick = lambda fn, nm: (lambda c: dict(fn(c))[nm])
    tr = [("S.ext_transitive", lambda c: S.ext_trans(c.sd, c.head(0).sd, c.old.sd))]
    reg.add(Contract(
        "biobalm._sd_algorithms.expand_attractor_seeds.expand_attractor_seeds",
        params=[("sd", SD), ("size_limit", OI)], defaults={"size_limit": None}, result_type=TBool,
        properties=("C15", "C13", "C03", "C01"),
        requires=[lambda c: S.inv_all(c.sd), lambda c: c.sd.cfg_max_motifs_per_node >= 0],
        modifies={"sd": ALLF}, may_raise={"RuntimeError": {"modifies": {"sd": ALLF}}, "AssertionError": {"modifies": {"sd": ALLF}}},
        ensures=[(nm, pick(post, nm)) for nm in names_common + ["false_only_at_the_size_limit_with_a_stub"]],
        raises={"RuntimeError": [(nm, pick(common_sd, nm)) for nm in names_common],
                "AssertionError": [(nm, pick(common_sd, nm)) for nm in names_common]},
        local_types={"seen": SI, "stack": ST, "successors": LI, "node": TInt, "s": TInt, "expanded_children": LI, "expanded_motifs": LS,
                     "avoid": LS, "avoid_restricted": LS, "successor_space": TSpace, "retained_set": TSpace, "successor_seeds": LS},
        ann_types={"list[tuple[int,list[int]|None]]": ST},
        loops={0: LoopContract("while len(stack) > 0", lambda c: shared(c), havoc_heap={"sd": ALLF}, local_types={"successors": OL}),
               1: LoopContract("while len(successors) > 0", inv1, havoc_heap={"sd": ALLF}, lemmas=tr + [
                   ("L5.full_space_percolates_to_empty_network", lambda c: z3.ForAll([x], z3.Implies(
                       z3.And(S.valid(c.sd, x), T.card(c.sd.space[x]) == T.nvars(S.net(c.sd))), T.PercNetObj(c.sd.net, c.sd.space[x]) == T.EmptyBN),
                       patterns=[c.sd.space[x]]))],
                               variant=lambda c: [LI.len(c.successors)]),
               2: LoopContract("for x in avoid", lambda c: [("restricted_so_far", LS.len(c.avoid_restricted) == c.i)])},
        axioms=SU.AX_INTERSECTF,
        note="what makes a successor skippable (no seed of the reduced STG outside the expanded children) is decided by the bounded stand-in only",
    ))


# ====================================================================== public wrapper methods (delegation contracts)
def install_wrappers(reg):
    """The expansion methods of SuccessionDiagram are one-line delegations.  (a) Wrappers of verified drivers inherit the driver's whole
    contract (parameter `sd` = `self`).  (b) Wrappers of drivers that are not under contract (expand_source_blocks, expand_source_SCCs,
    expand_attractor_seeds) are verified against an ABSTRACT outcome: the driver's effect is assumed to be an uninterpreted function of the
    diagram's ghost state token and the driver's arguments; the wrapper must produce exactly the outcome of the driver applied to the
    caller's arguments in the documented positions - which is all a delegation can be wrong about."""
    class Adapt:
        """presents the context of a method (`self`) as the context of the driver function (`sd`)"""

        def __init__(self, c, rename):
            object.__setattr__(self, "_c", c)
            object.__setattr__(self, "_r", rename)

        def __getattr__(self, nm):
            c, r = object.__getattribute__(self, "_c"), object.__getattribute__(self, "_r")
            if nm == "old":
                return Adapt(c.old, r) if c.old is not None else None
            return getattr(c, r.get(nm, nm))

        def local(self, nm):
            return object.__getattribute__(self, "_c").local(nm)

    def inherit(method, func_q, params, defaults, rename, props):
        fc = reg.contracts[func_q]
        ren = dict(rename, sd="self")
        ad = lambda f: (lambda c: f(Adapt(c, ren)))
        # postconditions that mention locals of the driver (e.g. its enumeration list) cannot be inherited by the wrapper
        ens = [(nm, ad(f)) for nm, f in fc.ensures if not nm.startswith("step.") and not any(x in nm for x in (
            "enumeration_of", "true_means_every_minimal", "true_means_target_region_explored"))]
        reg.add(Contract(
            "biobalm.succession_diagram.SuccessionDiagram." + method, params=[("self", SD)] + params, defaults=defaults, result_type=fc.result_type,
            properties=props, requires=[ad(r) for r in fc.requires], modifies={"self": ALLF},
            ensures=ens, may_raise={k: {"modifies": {"self": ALLF}} for k in fc.may_raise},
            raises={k: [(nm, ad(f)) for nm, f in v] for k, v in fc.raises.items()},
            note=f"delegation to {func_q.split('.')[-1]}: inherits its contract"), method_of="SD")

    inherit("expand_bfs", "biobalm._sd_algorithms.expand_bfs.expand_bfs", [("node_id", OI), ("bfs_level_limit", OI), ("size_limit", OI)],
            {"node_id": None, "bfs_level_limit": None, "size_limit": None}, {}, ("C02", "C03", "C04", "C15", "C18", "C19"))
    inherit("expand_dfs", "biobalm._sd_algorithms.expand_dfs.expand_dfs", [("node_id", OI), ("dfs_stack_limit", OI), ("size_limit", OI)],
            {"node_id": None, "dfs_stack_limit": None, "size_limit": None}, {}, ("C02", "C03", "C04", "C15", "C19"))
    inherit("expand_to_target", "biobalm._sd_algorithms.expand_to_target.expand_to_target", [("target", TSpace), ("size_limit", OI)],
            {"size_limit": None}, {}, ("C06", "C07", "C04", "C15"))
    inherit("expand_minimal_spaces", "biobalm._sd_algorithms.expand_minimal_spaces.expand_minimal_spaces",
            [("node_id", OI), ("size_limit", OI), ("skip_ignored", TBool)], {"node_id": None, "size_limit": None, "skip_ignored": False},
            {"skip_remaining": "skip_ignored"}, ("C03", "C05", "C04", "C15"))

    # ---- abstract outcomes of the drivers that are not under contract
    def abstract_driver(qual, params, defaults, props, note):
        sorts = [(I if t in (TInt, TBool) or isinstance(t, TOpt) else None) for _, t in params]
        enc = {}

        def code(c, nm, ty):
            t = getattr(c, nm)
            if ty == TBool:
                return z3.If(t, 1, 0)
            if isinstance(ty, TOpt):
                return z3.If(ty.is_none(t), -1, ty.val(t))       # limits are non-negative where given; None is a distinct value
            return t
        F_tok = z3.Function("outcome_token_" + qual.split(".")[-1], *([I] * (len(params) + 1)), I)
        F_res = z3.Function("outcome_result_" + qual.split(".")[-1], *([I] * (len(params) + 1)), B)

        def args(c, sdname):
            o = getattr(c.old, sdname)
            return [o.tok] + [code(c, nm, ty) for nm, ty in params]
        reg.add(Contract(
            qual, params=[("sd", SD)] + params, defaults=defaults, result_type=TBool, trusted=True, properties=props,
            modifies={"sd": ALLF + ["tok"]},
            ensures=[("abstract_outcome", lambda c: z3.And(c.sd.tok == F_tok(*args(c, "sd")), c.result == F_res(*args(c, "sd")))),
                     ("invariant_assumed", lambda c: S.inv_all(c.sd)),
                     ("configuration_kept", lambda c: z3.And(*[getattr(c.sd, "cfg_" + k) == getattr(c.old.sd, "cfg_" + k) for k in M.CONFIG_KEYS]))],
            may_raise={"RuntimeError": {"modifies": {"sd": ALLF + ["tok"]}}},
            note=note))
        return F_tok, F_res, code

    def delegate(method, qual, mparams, mdefaults, order, props, dparams, ddefaults, note):
        """method(self, *mparams) must yield the abstract outcome of driver(sd=self, **{driver_param: method_param})"""
        F_tok, F_res, code = abstract_driver(qual, dparams, ddefaults, props, note)
        mtypes = dict(mparams)

        def expected(c):
            o = c.old.self
            vals = []
            for dn, dt in dparams:
                src = order.get(dn)
                if src is None:
                    d = ddefaults[dn]
                    vals.append(z3.IntVal(-1) if d is None else z3.IntVal(int(d)))
                else:
                    vals.append(code(c, src, mtypes[src]))
            return [o.tok] + vals
        reg.add(Contract(
            "biobalm.succession_diagram.SuccessionDiagram." + method, params=[("self", SD)] + mparams, defaults=mdefaults, result_type=TBool,
            properties=props, modifies={"self": ALLF + ["tok"]},
            ensures=[("is_the_drivers_outcome_for_the_callers_arguments", lambda c: z3.And(
                c.self.tok == F_tok(*expected(c)), c.result == F_res(*expected(c)))),
                     ("invariant_assumed_of_the_driver", lambda c: S.inv_all(c.self)),
                     ("configuration_kept", lambda c: z3.And(*[getattr(c.self, "cfg_" + k) == getattr(c.old.self, "cfg_" + k) for k in M.CONFIG_KEYS]))],
            raises={"RuntimeError": []}, may_raise={"RuntimeError": {"modifies": {"self": ALLF + ["tok"]}}},
            note=f"delegation to {qual.split('.')[-1]} (abstract outcome): arguments are passed on unchanged, in the documented positions"), method_of="SD")

    _TOK = {}
    _orig_abstract = abstract_driver

    def abstract_driver(qual, params, defaults, props, note):        # noqa: F811  (remember the outcome functions for build())
        r = _orig_abstract(qual, params, defaults, props, note)
        _TOK[qual.split(".")[-1]] = r
        return r

    delegate("expand_block", "biobalm._sd_algorithms.expand_source_blocks.expand_source_blocks",
             [("find_motif_avoidant_attractors", TBool), ("size_limit", OI), ("optimize_source_nodes", TBool), ("exact_attractor_detection", TBool)],
             {"find_motif_avoidant_attractors": True, "size_limit": None, "optimize_source_nodes": True, "exact_attractor_detection": False},
             {"check_maa": "find_motif_avoidant_attractors", "size_limit": "size_limit", "optimize_source_nodes": "optimize_source_nodes",
              "check_maa_exact": "exact_attractor_detection"},
             ("C18", "C03", "C01", "C14", "C15"),
             [("check_maa", TBool), ("size_limit", OI), ("optimize_source_nodes", TBool), ("check_maa_exact", TBool)],
             {"check_maa": True, "size_limit": None, "optimize_source_nodes": True, "check_maa_exact": False},
             "ASSUMED abstract outcome (block expansion is decided by the bounded stand-in only)")
    delegate("expand_scc", "biobalm._sd_algorithms.expand_source_SCCs.expand_source_SCCs",
             [("find_motif_avoidant_attractors", TBool)], {"find_motif_avoidant_attractors": True},
             {"check_maa": "find_motif_avoidant_attractors"}, ("C18", "C03", "C01", "C14"),
             [("check_maa", TBool), ("recursion", TInt)], {"check_maa": True, "recursion": 0},
             "ASSUMED abstract outcome (source-SCC expansion is decided by the bounded stand-in only); the `expander` argument keeps its default")
    inherit("expand_attractor_seeds", "biobalm._sd_algorithms.expand_attractor_seeds.expand_attractor_seeds", [("size_limit", OI)],
            {"size_limit": None}, {}, ("C03", "C01", "C15"))


    # ---- build(): block expansion with default arguments, then seeds for the expanded nodes only
    from .attractors import structure_unchanged
    OptLS = M.OptLS
    F_tok, F_res, _ = _TOK["expand_source_blocks"]
    i_ = z3.Int("i!bd")

    def build_inv(c):
        v, e = c.self, c.at_entry(0).self
        return [("inv." + nm, g) for nm, g in S.inv(v)] + [
            ("only_caches_change", z3.And(structure_unchanged(v, e, attractor_fields_of=None) if False else z3.And(
                v.K == e.K, v.index == e.index, S.frame_edges(v, e), v.net == e.net, v.sym == e.sym, v.pn == e.pn, v.tok == e.tok,
                S.frame_nodes(v, e, fields=("space", "expanded", "skipped", "parent", "succsig", "depth"))))),
            ("stubs_are_left_alone", z3.ForAll([i_], z3.Implies(z3.And(S.valid(e, i_), z3.Not(e.expanded[i_])), z3.And(
                v.cand[i_] == e.cand[i_], v.seeds[i_] == e.seeds[i_], v.sets[i_] == e.sets[i_])))),
            ("seeds_of_the_visited_nodes_are_known", z3.ForAll([a], z3.Implies(z3.And(0 <= a, a < c.i), z3.Not(OptLS.is_none(v.seeds[LI.at(c.coll)[a]]))))),
            ("known_seeds_are_kept", z3.ForAll([i_], z3.Implies(z3.And(S.valid(e, i_), z3.Not(OptLS.is_none(e.seeds[i_]))), v.seeds[i_] == e.seeds[i_]))),
            ("configuration_kept", z3.And(*[getattr(v, "cfg_" + k) == getattr(e, "cfg_" + k) for k in M.CONFIG_KEYS])),
        ]

    reg.add(Contract(
        "biobalm.succession_diagram.SuccessionDiagram.build", params=[("self", SD)], properties=("C20", "C01", "C14", "C18"),
        requires=[lambda c: z3.And(c.self.cfg_attractor_candidates_limit >= 0, c.self.cfg_minimum_simulation_budget >= 0)],
        modifies={"self": ALLF + ["tok"]},
        ensures=[("block_expansion_with_default_arguments", lambda c: c.self.tok == F_tok(c.old.self.tok, 1, -1, 1, 0)),
                 ("seeds_known_for_every_expanded_node", lambda c: z3.ForAll([i_], z3.Implies(
                     z3.And(S.valid(c.self, i_), c.self.expanded[i_]), z3.Not(OptLS.is_none(c.self.seeds[i_])))))] +
                [("inv." + nm, (lambda k: (lambda c: dict(S.inv(c.self))[k]))(nm)) for nm in inv_names()],
        raises={"RuntimeError": []}, may_raise={"RuntimeError": {"modifies": {"self": ALLF + ["tok"]}}},
        loops={0: LoopContract("for node_id in self.expanded_ids()", build_inv, havoc_heap={"self": ["cand", "seeds", "sets", "ppn", "pbn", "pnfvs"]})},
        note="expand_block() (abstract outcome, invariant assumed of the driver) followed by node_attractor_seeds for exactly the expanded nodes; "
             "attractor data of stubs is not touched"), method_of="SD")


# ====================================================================== reporting accessors (C01, C03, C12, C20)
def install_reports(reg):
    """minimal_trap_spaces() and expanded_attractor_seeds(): what the user reads off a diagram"""
    from .attractors import structure_unchanged
    OptLS = M.OptLS
    LS = M.LS
    DS = M.TDict(TInt, LS)
    i_ = z3.Int("i!rp")

    def leaf(v, n):
        return z3.And(v.expanded[n], z3.Not(z3.Exists([y], z3.And(0 <= y, y < v.K, v.edge[n][y]))))

    reg.add(Contract(
        "biobalm.succession_diagram.SuccessionDiagram.minimal_trap_spaces", params=[("self", SD)], result_type=LI,
        properties=("C03", "C02", "C20"),
        requires=[lambda c: S.inv_all(c.self)],
        ensures=[("exactly_the_expanded_leaves_ascending", lambda c: z3.And(
            z3.ForAll([a], z3.Implies(z3.And(0 <= a, a < LI.len(c.result)), z3.And(S.valid(c.self, LI.at(c.result)[a]), leaf(c.self, LI.at(c.result)[a])))),
            z3.ForAll([a, b], z3.Implies(z3.And(0 <= a, a < b, b < LI.len(c.result)), LI.at(c.result)[a] < LI.at(c.result)[b])),
            z3.ForAll([x], z3.Implies(z3.And(S.valid(c.self, x), leaf(c.self, x)), T.MemI(c.result, x)))))],
        note="list comprehension over expanded_ids() filtered by node_is_minimal"), method_of="SD")

    def seeds_inv(c):
        v, e, res = c.self, c.at_entry(0).self, c.res
        return [("inv." + nm, g) for nm, g in S.inv(v)] + [
            ("only_caches_change", z3.And(v.K == e.K, v.index == e.index, S.frame_edges(v, e), v.net == e.net, v.sym == e.sym, v.pn == e.pn,
                                          S.frame_nodes(v, e, fields=("space", "expanded", "skipped", "parent", "succsig", "depth")))),
            ("known_seeds_are_kept", z3.ForAll([i_], z3.Implies(z3.And(S.valid(e, i_), z3.Not(OptLS.is_none(e.seeds[i_]))), v.seeds[i_] == e.seeds[i_]))),
            ("stubs_are_left_alone", z3.ForAll([i_], z3.Implies(z3.And(S.valid(e, i_), z3.Not(e.expanded[i_])), z3.And(
                v.cand[i_] == e.cand[i_], v.seeds[i_] == e.seeds[i_], v.sets[i_] == e.sets[i_])))),
            ("reported_so_far", z3.ForAll([i_], z3.And(
                DS.dom(res)[i_] == z3.Exists([a], z3.And(0 <= a, a < c.i, LI.at(c.coll)[a] == i_, z3.Not(OptLS.is_none(v.seeds[i_])), LS.len(OptLS.val(v.seeds[i_])) > 0)),
                z3.Implies(DS.dom(res)[i_], DS.vals(res)[i_] == OptLS.val(v.seeds[i_]))))),
            ("visited_have_seeds", z3.ForAll([a], z3.Implies(z3.And(0 <= a, a < c.i), z3.Not(OptLS.is_none(v.seeds[LI.at(c.coll)[a]]))))),
            ("configuration_kept", z3.And(*[getattr(v, "cfg_" + k2) == getattr(e, "cfg_" + k2) for k2 in M.CONFIG_KEYS])),
        ]

    def seeds_post(c):
        v, r = c.self, c.result
        return [("maps_every_expanded_node_with_attractors_to_its_seeds", z3.ForAll([i_], z3.And(
                    DS.dom(r)[i_] == z3.And(S.valid(v, i_), v.expanded[i_], z3.Not(OptLS.is_none(v.seeds[i_])), LS.len(OptLS.val(v.seeds[i_])) > 0),
                    z3.Implies(DS.dom(r)[i_], DS.vals(r)[i_] == OptLS.val(v.seeds[i_]))))),
                ("seeds_known_for_every_expanded_node", z3.ForAll([i_], z3.Implies(z3.And(S.valid(v, i_), v.expanded[i_]), z3.Not(OptLS.is_none(v.seeds[i_]))))),
                ("each_is_a_system_of_representatives", S.inv_all(v))]

    reg.add(Contract(
        "biobalm.succession_diagram.SuccessionDiagram.expanded_attractor_seeds", params=[("self", SD)], result_type=DS,
        properties=("C01", "C14", "C20"),
        requires=[lambda c: S.inv_all(c.self), lambda c: z3.And(c.self.cfg_attractor_candidates_limit >= 0, c.self.cfg_minimum_simulation_budget >= 0)],
        modifies={"self": ["cand", "seeds", "sets", "ppn", "pbn", "pnfvs"]},
        ensures=[(nm, (lambda k2: (lambda c: dict(seeds_post(c))[k2]))(nm)) for nm in
                 ["maps_every_expanded_node_with_attractors_to_its_seeds", "seeds_known_for_every_expanded_node", "each_is_a_system_of_representatives"]],
        raises={"RuntimeError": []}, may_raise={"RuntimeError": {"modifies": {"self": ["cand", "seeds", "sets", "ppn", "pbn", "pnfvs"]}}},
        local_types={"res": DS, "atts": LS},
        loops={0: LoopContract("for id in self.expanded_ids()", seeds_inv, havoc_heap={"self": ["cand", "seeds", "sets", "ppn", "pbn", "pnfvs"]})},
        note="every expanded node is asked for its seeds (computed if missing); nodes without attractors are left out of the dictionary; by I-cache "
             "each reported list is a system of distinct representatives of the attractors owned by its node"), method_of="SD")

    # ---- expanded_attractor_candidates: same loop over node_attractor_candidates (C08: collectively, every attractor owned by an expanded
    # node has a candidate in the node's entry; a node without an entry owns no attractor)
    from .attractors import args_of

    def rep(v, n):
        """the list node_attractor_candidates reports for node n: the cached candidates, or the seeds once the candidates were dropped"""
        return z3.If(OptLS.is_none(v.cand[n]), OptLS.val(v.seeds[n]), OptLS.val(v.cand[n]))

    def has_list(v, n):
        return z3.Not(z3.And(OptLS.is_none(v.cand[n]), OptLS.is_none(v.seeds[n])))

    def cands_inv(c):
        v, e, res = c.self, c.at_entry(0).self, c.res
        return [("inv." + nm, g) for nm, g in S.inv(v)] + [
            ("only_caches_change", z3.And(v.K == e.K, v.index == e.index, S.frame_edges(v, e), v.net == e.net, v.sym == e.sym, v.pn == e.pn,
                                          S.frame_nodes(v, e, fields=("space", "expanded", "skipped", "parent", "succsig", "depth")))),
            ("known_lists_are_kept", z3.ForAll([i_], z3.Implies(z3.And(S.valid(e, i_), has_list(e, i_)), z3.And(has_list(v, i_), rep(v, i_) == rep(e, i_))))),
            ("stubs_are_left_alone", z3.ForAll([i_], z3.Implies(z3.And(S.valid(e, i_), z3.Not(e.expanded[i_])), z3.And(
                v.cand[i_] == e.cand[i_], v.seeds[i_] == e.seeds[i_], v.sets[i_] == e.sets[i_])))),
            ("reported_so_far", z3.ForAll([i_], z3.And(
                DS.dom(res)[i_] == z3.Exists([a], z3.And(0 <= a, a < c.i, LI.at(c.coll)[a] == i_, has_list(v, i_), LS.len(rep(v, i_)) > 0)),
                z3.Implies(DS.dom(res)[i_], DS.vals(res)[i_] == rep(v, i_))))),
            ("visited_have_a_list", z3.ForAll([a], z3.Implies(z3.And(0 <= a, a < c.i), has_list(v, LI.at(c.coll)[a])))),
            ("configuration_kept", z3.And(*[getattr(v, "cfg_" + k2) == getattr(e, "cfg_" + k2) for k2 in M.CONFIG_KEYS])),
        ]

    def cands_post(c):
        v, e, r = c.self, c.old.self, c.result
        return [("maps_every_expanded_node_with_candidates_to_its_list", z3.ForAll([i_], z3.And(
                    DS.dom(r)[i_] == z3.And(S.valid(v, i_), v.expanded[i_], has_list(v, i_), LS.len(rep(v, i_)) > 0),
                    z3.Implies(DS.dom(r)[i_], DS.vals(r)[i_] == rep(v, i_))))),
                ("list_known_for_every_expanded_node", z3.ForAll([i_], z3.Implies(z3.And(S.valid(v, i_), v.expanded[i_]), has_list(v, i_)))),
                ("the_list_of_every_expanded_node_covers_its_attractors", z3.ForAll([i_], z3.Implies(
                    z3.And(S.valid(v, i_), v.expanded[i_]), S.Covers(*args_of(v, i_), rep(v, i_))))),
                ("stubs_are_left_alone", z3.ForAll([i_], z3.Implies(z3.And(S.valid(e, i_), z3.Not(e.expanded[i_])), z3.And(
                    v.cand[i_] == e.cand[i_], v.seeds[i_] == e.seeds[i_], v.sets[i_] == e.sets[i_])))),
                ("invariant_kept", S.inv_all(v))]

    reg.add(Contract(
        "biobalm.succession_diagram.SuccessionDiagram.expanded_attractor_candidates", params=[("self", SD)], result_type=DS,
        properties=("C08", "C14", "C20"),
        requires=[lambda c: S.inv_all(c.self), lambda c: z3.And(c.self.cfg_attractor_candidates_limit >= 0, c.self.cfg_minimum_simulation_budget >= 0)],
        modifies={"self": ["cand", "seeds", "sets", "ppn", "pbn", "pnfvs"]},
        ensures=[(nm, (lambda k2: (lambda c: dict(cands_post(c))[k2]))(nm)) for nm in
                 ["maps_every_expanded_node_with_candidates_to_its_list", "list_known_for_every_expanded_node",
                  "the_list_of_every_expanded_node_covers_its_attractors", "stubs_are_left_alone", "invariant_kept"]],
        raises={"RuntimeError": []}, may_raise={"RuntimeError": {"modifies": {"self": ["cand", "seeds", "sets", "ppn", "pbn", "pnfvs"]}}},
        local_types={"res": DS, "atts": LS},
        loops={0: LoopContract("for id in self.expanded_ids()", cands_inv, havoc_heap={"self": ["cand", "seeds", "sets", "ppn", "pbn", "pnfvs"]})},
        note="every expanded node is asked for its candidates (computed if missing); the dictionary maps exactly the expanded nodes whose list "
             "(cached candidates, or the seeds once the candidates were dropped) is not empty to that list; by I-cache the list of a node covers "
             "every attractor the node owns, so a node without an entry owns none"), method_of="SD")

    # ---- expanded_attractor_sets: same shape over the cached attractor sets
    OptLV, LV = M.OptLV, M.LV
    DV = M.TDict(TInt, LV)

    def sets_inv(c):
        v, e, res = c.self, c.at_entry(0).self, c.res
        return [("inv." + nm, g) for nm, g in S.inv(v)] + [
            ("only_caches_change", z3.And(v.K == e.K, v.index == e.index, S.frame_edges(v, e), v.net == e.net, v.sym == e.sym, v.pn == e.pn,
                                          S.frame_nodes(v, e, fields=("space", "expanded", "skipped", "parent", "succsig", "depth")))),
            ("known_sets_are_kept", z3.ForAll([i_], z3.Implies(z3.And(S.valid(e, i_), z3.Not(OptLV.is_none(e.sets[i_]))), v.sets[i_] == e.sets[i_]))),
            ("stubs_are_left_alone", z3.ForAll([i_], z3.Implies(z3.And(S.valid(e, i_), z3.Not(e.expanded[i_])), z3.And(
                v.cand[i_] == e.cand[i_], v.seeds[i_] == e.seeds[i_], v.sets[i_] == e.sets[i_])))),
            ("reported_so_far", z3.ForAll([i_], z3.And(
                DV.dom(res)[i_] == z3.Exists([a], z3.And(0 <= a, a < c.i, LI.at(c.coll)[a] == i_, z3.Not(OptLV.is_none(v.sets[i_])), LV.len(OptLV.val(v.sets[i_])) > 0)),
                z3.Implies(DV.dom(res)[i_], DV.vals(res)[i_] == OptLV.val(v.sets[i_]))))),
            ("visited_have_sets", z3.ForAll([a], z3.Implies(z3.And(0 <= a, a < c.i), z3.Not(OptLV.is_none(v.sets[LI.at(c.coll)[a]]))))),
            ("configuration_kept", z3.And(*[getattr(v, "cfg_" + k2) == getattr(e, "cfg_" + k2) for k2 in M.CONFIG_KEYS])),
        ]

    def sets_post(c):
        v, r = c.self, c.result
        return [("maps_every_expanded_node_with_attractors_to_its_attractor_sets", z3.ForAll([i_], z3.And(
                    DV.dom(r)[i_] == z3.And(S.valid(v, i_), v.expanded[i_], z3.Not(OptLV.is_none(v.sets[i_])), LV.len(OptLV.val(v.sets[i_])) > 0),
                    z3.Implies(DV.dom(r)[i_], DV.vals(r)[i_] == OptLV.val(v.sets[i_]))))),
                ("sets_known_for_every_expanded_node", z3.ForAll([i_], z3.Implies(z3.And(S.valid(v, i_), v.expanded[i_]), z3.Not(OptLV.is_none(v.sets[i_]))))),
                ("invariant_kept", S.inv_all(v))]

    reg.add(Contract(
        "biobalm.succession_diagram.SuccessionDiagram.expanded_attractor_sets", params=[("self", SD)], result_type=DV,
        properties=("C12", "C14", "C20"),
        requires=[lambda c: S.inv_all(c.self), lambda c: z3.And(c.self.cfg_attractor_candidates_limit >= 0, c.self.cfg_minimum_simulation_budget >= 0)],
        modifies={"self": ["cand", "seeds", "sets", "ppn", "pbn", "pnfvs"]},
        ensures=[(nm, (lambda k2: (lambda c: dict(sets_post(c))[k2]))(nm)) for nm in
                 ["maps_every_expanded_node_with_attractors_to_its_attractor_sets", "sets_known_for_every_expanded_node", "invariant_kept"]],
        raises={"RuntimeError": []}, may_raise={"RuntimeError": {"modifies": {"self": ["cand", "seeds", "sets", "ppn", "pbn", "pnfvs"]}}},
        local_types={"res": DV, "atts": LV},
        loops={0: LoopContract("for id in self.expanded_ids()", sets_inv, havoc_heap={"self": ["cand", "seeds", "sets", "ppn", "pbn", "pnfvs"]})},
        note="every expanded node is asked for its attractor sets (computed if missing); by I-cache they are the sets of the node's seeds in order"), method_of="SD")
