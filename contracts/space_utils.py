"""Contracts for biobalm/space_utils.py and biobalm/symbolic_utils.py (pure space utilities).
Sidecar: read by pyvc under python3-vt; never imported by biobalm; contains no repository code."""
import z3
from pyvc.vtypes import *
from pyvc.contract import Contract, LoopContract
from pyvc import theory as T
from pyvc.externals_aeon import TGraph, TBdd, net_of, EMPTY, bddvar, setcard

k = z3.Const("k", Name)
OptSpace = TOpt(TSpace)
OptInt = TOpt(TInt)


# functional view of intersect for calls inside comprehensions (justified by the body-verified contract below, which has no precondition,
# and by intersect being a deterministic function of its two arguments)
IntersectF = z3.Function("intersect_fn", T.SpaceS, T.SpaceS, OptSpace.sort())
_ix, _iy = z3.Const("x!if", T.SpaceS), z3.Const("y!if", T.SpaceS)
AX_INTERSECTF = [z3.ForAll([_ix, _iy], z3.And(
    OptSpace.is_none(IntersectF(_ix, _iy)) == z3.Exists([k], z3.And(indom(_ix, k), indom(_iy, k), _ix[k] != _iy[k])),
    z3.Implies(z3.Not(OptSpace.is_none(IntersectF(_ix, _iy))), z3.And(
        z3.ForAll([k], z3.If(indom(OptSpace.val(IntersectF(_ix, _iy)), k), OptSpace.val(IntersectF(_ix, _iy))[k], -1) ==
                  z3.If(indom(_iy, k), _iy[k], z3.If(indom(_ix, k), _ix[k], -1))),
        T.wf_space(OptSpace.val(IntersectF(_ix, _iy)))))), patterns=[IntersectF(_ix, _iy)])]


def install(reg):
    # ------------------------------------------------------------------ intersect
    reg.add(Contract(
        "biobalm.space_utils.intersect",
        params=[("x", TSpace), ("y", TSpace)],
        result_type=OptSpace,
        properties=("C11", "C06", "C07", "C05"),
        ensures=[
            ("none_iff_conflict", lambda c: OptSpace.is_none(c.result) ==
             z3.Exists([k], z3.And(indom(c.x, k), indom(c.y, k), c.x[k] != c.y[k]))),
            ("whole_map_is_union", lambda c: z3.Implies(
                z3.Not(OptSpace.is_none(c.result)),
                z3.ForAll([k], z3.If(indom(OptSpace.val(c.result), k), OptSpace.val(c.result)[k], -1) ==
                          z3.If(indom(c.y, k), c.y[k], z3.If(indom(c.x, k), c.x[k], -1))))),
        ],
        loops={
            0: LoopContract("for k, v in x.items()", lambda c: [
                ("copied", z3.ForAll([k], z3.If(indom(c.result, k), c.result[k], -1) ==
                                     z3.If(c.visited[k], c.x[k], -1))),
            ], local_types={"result": TSpace}),
            1: LoopContract("for k, v in y.items()", lambda c: [
                ("union_so_far", z3.ForAll([k], z3.If(indom(c.result, k), c.result[k], -1) ==
                                           z3.If(c.visited[k], c.y[k], z3.If(indom(c.x, k), c.x[k], -1)))),
                ("no_conflict_so_far", z3.ForAll([k], z3.Implies(z3.And(c.visited[k], indom(c.x, k)), c.x[k] == c.y[k]))),
            ], local_types={"result": TSpace}),
        },
    ))
    reg.contracts["biobalm.space_utils.intersect"].pure_in_comprehension = lambda c, eng, st: Val(OptSpace, IntersectF(c.x, c.y))

    # ------------------------------------------------------------------ is_subspace
    reg.add(Contract(
        "biobalm.space_utils.is_subspace",
        params=[("x", TSpace), ("y", TSpace)],
        result_type=TBool,
        properties=("C11", "C03", "C05", "C06", "C07"),
        ensures=[("iff_subspace", lambda c: c.result ==
                  z3.ForAll([k], z3.Implies(indom(c.y, k), z3.And(indom(c.x, k), c.x[k] == c.y[k]))))],
        pure=lambda c: vbool(z3.ForAll([k], z3.Implies(indom(c.y, k), z3.And(indom(c.x, k), c.x[k] == c.y[k])))),
        loops={0: LoopContract("for var in y", lambda c: [
            ("visited_ok", z3.ForAll([k], z3.Implies(c.visited[k], z3.And(indom(c.x, k), c.x[k] == c.y[k]))))])},
    ))

    # ------------------------------------------------------------------ function_eval (symbolic_utils)
    reg.add(Contract(
        "biobalm.symbolic_utils.function_eval",
        params=[("f", TBdd), ("state", TSpace)],
        result_type=OptInt,
        properties=("C11",),
        requires=[lambda c: z3.ForAll([k], z3.Implies(indom(c.state, k), bddvar(c.f, k)))],
        ensures=[
            ("three_valued", lambda c: z3.If(OptInt.is_none(c.result), -1, OptInt.val(c.result)) == T.EvalOn(c.f, c.state)),
            ("none_iff_undetermined", lambda c: OptInt.is_none(c.result) == (T.EvalOn(c.f, c.state) == -1)),
        ],
        note="uses lemma L1.evalon_monotone at the two early returns (a constant function is constant on every space)",
        lemmas=[("L1.evalon_monotone", lambda c: T.lemma_evalon_monotone(c.f, EMPTY, c.state))],
    ))
    _strict_contracts(reg)
    _perc_contracts(reg)
    _key_contract(reg)


# ====================================================================== percolate_space_strict
def _strict_contracts(reg):
    LFP = lambda c: T.PercStrictLFP(net_of(c.network), c.space)
    N = lambda c: net_of(c.network)
    fv = lambda c, v: T.updbdd(N(c), v)
    i, j = z3.Int("i"), z3.Int("j")
    b = z3.Int("b")
    LS = TList(TName)

    def spec(c, v):
        e = T.EvalOn(fv(c, v), LFP(c))
        return z3.If(z3.And(T.nonconst(N(c), v), e >= 0, z3.Or(c.space[v] < 0, c.space[v] == e)), e, -1)

    def lem_lfp(c):
        """instances of L1.strict_lfp_extends and L1.strict_lfp_closed for (N, space)"""
        L, S = LFP(c), c.space
        return z3.And(
            T.wf_space(L),
            z3.ForAll([k], z3.Implies(S[k] >= 0, L[k] == S[k])),
            z3.ForAll([k], z3.Implies(
                z3.And(T.nonconst(N(c), k), T.EvalOn(fv(c, k), L) >= 0,
                       z3.Not(z3.And(S[k] >= 0, S[k] != T.EvalOn(fv(c, k), L)))),
                L[k] == T.EvalOn(fv(c, k), L))))

    def lem_mono_up(c):
        """L1.evalon_monotone for every variable, from `restriction` to the LFP (LFP fixes more)"""
        return T.lemma_evalon_monotone_all(N(c), c.restriction, LFP(c))

    def closed_under(c, R):
        S = c.space
        return z3.ForAll([k], z3.Implies(
            z3.And(T.nonconst(N(c), k), T.EvalOn(fv(c, k), R) >= 0,
                   z3.Not(z3.And(S[k] >= 0, S[k] != T.EvalOn(fv(c, k), R)))),
            R[k] == T.EvalOn(fv(c, k), R)))

    def lem_least_and_down(c):
        """L1.strict_lfp_least instantiated with T := restriction, and monotonicity in the other direction"""
        R, L, S = c.restriction, LFP(c), c.space
        least = z3.Implies(z3.And(T.subspace(R, S), closed_under(c, R)), T.subspace(R, L))
        return z3.And(least, T.lemma_evalon_monotone_all(N(c), L, R), T.lemma_evalon_monotone_all(N(c), R, L))

    def J(c):
        R, S, L, res, cand = c.restriction, c.space, LFP(c), c.local("result"), c.candidates
        return [
            ("wf", z3.And(T.wf_space(R), T.wf_space(res))),
            ("keeps_given", T.subspace(R, S)),
            ("restriction_is_space_plus_result", z3.ForAll([k], R[k] == z3.If(res[k] >= 0, res[k], S[k]))),
            ("below_lfp", T.subspace(L, R)),
            ("candidates_pending", z3.ForAll([k], z3.Implies(cand[k], z3.And(T.nonconst(N(c), k), res[k] < 0)))),
            ("settled", z3.ForAll([k], z3.Implies(
                z3.And(T.nonconst(N(c), k), z3.Not(cand[k])),
                z3.Or(z3.And(res[k] >= 0, T.EvalOn(fv(c, k), L) == res[k]),
                      z3.And(res[k] < 0, S[k] >= 0, T.EvalOn(fv(c, k), L) >= 0, T.EvalOn(fv(c, k), L) != S[k]))))),
            ("result_only_nonconst", z3.ForAll([k], z3.Implies(res[k] >= 0, T.nonconst(N(c), k)))),
            ("names_known", z3.ForAll([k], z3.Implies(R[k] >= 0, T.isvar(N(c), k)))),
        ]

    _sc, _xc = z3.Const("s!sc", z3.ArraySort(Name, B)), z3.Const("x!sc", Name)
    AX_SETCARD = [
        z3.ForAll([_sc], setcard(_sc) >= 0, patterns=[setcard(_sc)]),
        # def.setcard: removing a member lowers the cardinality by one (finite sets of variable names)
        z3.ForAll([_sc, _xc], z3.Implies(_sc[_xc], setcard(z3.Store(_sc, _xc, False)) == setcard(_sc) - 1), patterns=[setcard(z3.Store(_sc, _xc, False))]),
    ]
    reg.add(Contract(
        "biobalm.space_utils.percolate_space_strict",
        params=[("network", TGraph), ("space", TSpace)],
        result_type=TSpace,
        properties=("C11", "C13", "C19"),
        requires=[lambda c: z3.ForAll([k], z3.Implies(c.space[k] >= 0, T.isvar(N(c), k)))],
        ensures=[
            # two proof steps (each proved, then available to the next), then the property clause itself
            ("step.restriction_closed", lambda c: closed_under(c, c.restriction)),
            ("step.restriction_is_lfp", lambda c: z3.And(T.subspace(c.restriction, LFP(c)), T.subspace(LFP(c), c.restriction))),
            ("exactly_strict_lfp", lambda c: z3.ForAll([k], z3.If(c.result[k] >= 0, c.result[k], -1) == spec(c, k)))],
        local_types={"result": TSpace, "restriction": TSpace, "candidates": TSet(TName), "done": TBool},
        axioms=AX_SETCARD,
        lemmas=[("L1.strict_lfp_extends+closed", lem_lfp), ("L1.strict_lfp_least+evalon_monotone", lem_least_and_down)],
        loops={
            0: LoopContract("for var in network.network_variable_names()", lambda c: [
                ("candidates", z3.ForAll([k], c.candidates[k] == z3.And(
                    T.isvar(N(c), k),
                    z3.Or(T.nonconst(N(c), k),
                          z3.Not(z3.Exists([j], z3.And(0 <= j, j < c.i, LS.at(c.coll)[j] == k))))))),
            ]),
            1: LoopContract("while not done", lambda c: J(c) + [
                ("closed_when_done", z3.Implies(c.done, z3.ForAll([k], z3.Implies(
                    c.candidates[k], T.EvalOn(fv(c, k), c.restriction) == -1)))),
            ], lemmas=[("L1.strict_lfp_extends+closed", lem_lfp)],
                # termination: every pass that does not finish removes at least one candidate
                variant=lambda c: [setcard(c.candidates)]),
            2: LoopContract("for var in copy(candidates)", lambda c: J(c) + [
                ("candidates_within_snapshot", z3.ForAll([k], z3.Implies(c.candidates[k], c.coll[k]))),
                ("unvisited_still_candidates", z3.ForAll([k], z3.Implies(z3.And(c.coll[k], z3.Not(c.visited[k])), c.candidates[k]))),
                ("visited_undetermined_when_done", z3.Implies(c.done, z3.ForAll([k], z3.Implies(
                    z3.And(c.visited[k], c.candidates[k]), T.EvalOn(fv(c, k), c.restriction) == -1)))),
                ("progress_unless_done", z3.And(setcard(c.candidates) <= setcard(c.at_head(1, "candidates")),
                                                z3.Implies(z3.Not(c.done), setcard(c.candidates) < setcard(c.at_head(1, "candidates"))))),
            ], lemmas=[("L1.strict_lfp_extends+closed", lem_lfp), ("L1.evalon_monotone", lem_mono_up)]),
        },
    ))


# ====================================================================== percolate_space / percolation_conflicts / drivers
def _perc_contracts(reg):
    from pyvc.externals_aeon import TVarId, varname
    DT = TDict(TVarId, TBool)
    vid = z3.Const("vid", TVarId.sort())
    N = lambda c: net_of(c.network)
    P = lambda c: T.Perc(N(c), c.space)

    reg.add(Contract(
        "biobalm.space_utils.percolate_space",
        params=[("network", TGraph), ("space", TSpace)], result_type=TSpace,
        properties=("C11", "C02", "C04", "C06"),
        requires=[lambda c: z3.ForAll([k], z3.Implies(c.space[k] >= 0, T.isvar(N(c), k)))],
        ensures=[("is_perc", lambda c: c.result == P(c)),
                 ("names_known", lambda c: z3.ForAll([k], z3.Implies(c.result[k] >= 0, T.isvar(N(c), k))))],
        local_types={"result": TSpace},
        loops={0: LoopContract("for var, value in percolated.items()", lambda c: [
            ("renamed_so_far", z3.ForAll([k], c.local("result")[k] == z3.If(
                z3.Exists([vid], z3.And(c.visited[vid], varname(c.network, vid) == k)), P(c)[k], -1)))])},
        note="the wrapper proves that no variable is dropped and no value flipped when AEON's result is renamed; "
             "that AEON's result is Perc is the assumed contract of Percolation.percolate_subspace",
    ))

    SNm = TSet(TName)
    reg.add(Contract(
        "biobalm.space_utils.percolation_conflicts",
        params=[("network", TGraph), ("space", TSpace), ("strict_percolation", TBool)], defaults={"strict_percolation": True},
        result_type=SNm, properties=("C11",),
        requires=[lambda c: z3.ForAll([k], z3.Implies(c.space[k] >= 0, T.isvar(N(c), k)))],
        ensures=[("conflicts_exactly", lambda c: z3.ForAll([k], c.result[k] == z3.And(
            c.perc_space[k] >= 0, T.EvalOn(T.updbdd(N(c), k), c.perc_space) >= 0,
            c.perc_space[k] != T.EvalOn(T.updbdd(N(c), k), c.perc_space)))),
            ("percolated_space_is", lambda c: z3.If(c.strict_percolation,
                                                   z3.ForAll([k], z3.Implies(c.perc_space[k] >= 0, T.nonconst(N(c), k))),
                                                   c.perc_space == P(c)))],
        local_types={"conflicts": SNm, "perc_space": TSpace},
        loops={0: LoopContract("for var, value in perc_space.items()", lambda c: [
            ("names_known", z3.ForAll([k], z3.Implies(c.perc_space[k] >= 0, T.isvar(N(c), k)))),
            ("collected", z3.ForAll([k], c.conflicts[k] == z3.And(
                c.visited[k], T.EvalOn(T.updbdd(N(c), k), c.perc_space) >= 0,
                c.perc_space[k] != T.EvalOn(T.updbdd(N(c), k), c.perc_space))))])},
    ))


# ====================================================================== space_unique_key
def _key_contract(reg):
    from pyvc.externals_aeon import TNetObj, bn_net_of
    N = lambda c: bn_net_of(c.network)
    i = z3.Int("i")
    reg.add(Contract(
        "biobalm.space_utils.space_unique_key",
        params=[("space", TSpace), ("network", TNetObj)], result_type=TInt,
        properties=("C02", "C04", "C20", "C17"),
        may_raise={"IndexError": {"only_when": lambda c: z3.Not(T.dom_within(c.space, N(c)))}},
        raises={"IndexError": [("only_for_unknown_names", lambda c: z3.Not(T.dom_within(c.space, N(c))))]},
        ensures=[("all_names_known", lambda c: T.dom_within(c.space, N(c))),
                 ("is_key", lambda c: c.result == T.SKey(N(c), c.space))],
        lemmas=[("def.SKey", lambda c: T.skey_def(N(c), c.space)),
                ("L10.digits_determine_number", lambda c: T.digits_ext(c.key, T.SKey(N(c), c.space)))],
        axioms=T.AX_KEY,
        local_types={"key": TInt},
        loops={0: LoopContract("for k, v in space.items()", lambda c: [
            ("nonneg", c.key >= 0),
            ("visited_known", z3.ForAll([k], z3.Implies(c.visited[k], T.isvar(N(c), k)))),
            ("digits_of_visited", z3.ForAll([k], z3.Implies(c.visited[k], T.digit4(c.key, T.vidx(N(c), k)) == c.space[k] + 2))),
            ("other_digits_zero", z3.ForAll([i], z3.Implies(
                z3.And(i >= 0, z3.ForAll([k], z3.Implies(c.visited[k], T.vidx(N(c), k) != i))), T.digit4(c.key, i) == 0))),
        ], lemmas=[("vidx.injective", lambda c: T.vidx_facts(N(c)))])},
    ))


# ====================================================================== drivers.py (C11: single-node LDOIs and drivers)
def install_drivers(reg):
    """find_single_node_LDOIs: for every non-constant variable v and value b the strict percolation of {v: b} - exactly what
    percolate_space_strict is specified to return; find_single_drivers: exactly the pairs whose LDOI together with the pair itself
    contains the target."""
    KT = TTuple(TName, TInt)
    DL = TDict(KT, TSpace)
    SK = TSet(KT)
    OptDL = TOpt(DL)
    N = lambda c: net_of(c.network)
    kq, vq, bq = z3.Const("k!dr", Name), z3.Const("v!dr", Name), z3.Int("b!dr")
    EMPTYS = z3.K(Name, z3.IntVal(-1))

    def single(v, b):
        return z3.Store(EMPTYS, v, b)

    def strict_result(Nn, v, b, k):
        """value of variable k in percolate_space_strict(network, {v: b}) (or -1), as specified by its contract"""
        sp = single(v, b)
        L = T.PercStrictLFP(Nn, sp)
        e = T.EvalOn(T.updbdd(Nn, k), L)
        return z3.If(z3.And(T.nonconst(Nn, k), e >= 0, z3.Or(sp[k] < 0, sp[k] == e)), e, -1)

    def ldoi_ok(Nn, d, done):
        """dictionary d holds exactly the entries of the variables for which done(v) holds"""
        key = lambda v, b: KT.mk(v, b)
        return z3.And(
            z3.ForAll([vq, bq], DL.dom(d)[key(vq, bq)] == z3.And(done(vq), T.isvar(Nn, vq), T.nonconst(Nn, vq), z3.Or(bq == 0, bq == 1))),
            z3.ForAll([vq, bq, kq], z3.Implies(DL.dom(d)[key(vq, bq)], z3.And(
                T.wf_space(DL.vals(d)[key(vq, bq)]),
                z3.If(DL.vals(d)[key(vq, bq)][kq] >= 0, DL.vals(d)[key(vq, bq)][kq], -1) == strict_result(Nn, vq, bq, kq)))))

    LSn = TList(TName)
    i_, j_ = z3.Int("i!dr"), z3.Int("j!dr")
    reg.add(Contract(
        "biobalm.drivers.find_single_node_LDOIs", params=[("network", TGraph)], result_type=DL, properties=("C11", "C06"),
        ensures=[("strict_percolation_of_every_single_assignment_to_a_nonconstant_variable", lambda c: ldoi_ok(N(c), c.result, lambda v: z3.BoolVal(True)))],
        local_types={"LDOIs": DL},
        loops={0: LoopContract("for var in network.network_variable_names()", lambda c: [
            ("entries_of_the_visited_variables", ldoi_ok(N(c), c.LDOIs, lambda v: z3.Exists([j_], z3.And(0 <= j_, j_ < c.i, LSn.at(c.coll)[j_] == v))))])},
        note="for an AsynchronousGraph argument (a BooleanNetwork is wrapped first); constant variables are skipped"))

    def covered(target, ld, v, b):
        """target.items() <= ld.items() | {(v, b)}"""
        return z3.ForAll([kq], z3.Implies(target[kq] >= 0, z3.Or(ld[kq] == target[kq], z3.And(kq == v, target[kq] == b))))

    def drivers_of(c, d, r, done):
        key = KT.mk(vq, bq)
        return z3.ForAll([vq, bq], r[key] == z3.And(done(key), DL.dom(d)[key], covered(c.target_subspace, DL.vals(d)[key], vq, bq)))

    reg.add(Contract(
        "biobalm.drivers.find_single_drivers", params=[("target_subspace", TSpace), ("network", TGraph), ("LDOIs", OptDL)],
        defaults={"LDOIs": None}, result_type=SK, properties=("C11", "C06"),
        ensures=[("exactly_the_assignments_whose_ldoi_with_the_assignment_itself_contains_the_target", lambda c: z3.If(
            OptDL.is_none(c.LDOIs),
            z3.Exists([z3.Const("d!dr", DL.sort())], z3.And(ldoi_ok(N(c), z3.Const("d!dr", DL.sort()), lambda v: z3.BoolVal(True)),
                                                            drivers_of(c, z3.Const("d!dr", DL.sort()), c.result, lambda k2: z3.BoolVal(True)))),
            drivers_of(c, OptDL.val(c.LDOIs), c.result, lambda k2: z3.BoolVal(True))))],
        local_types={"drivers": SK},
        loops={0: LoopContract("for fix, LDOI in LDOIs.items()", lambda c: [
            ("drivers_among_the_visited_entries", drivers_of(c, OptDL.val(c.LDOIs), c.drivers, lambda k2: c.visited[k2])),
            ("table_is_the_given_one_or_the_ldoi_table", z3.And(z3.Not(OptDL.is_none(c.LDOIs)), z3.If(
                OptDL.is_none(c.old.LDOIs), ldoi_ok(N(c), OptDL.val(c.LDOIs), lambda v: z3.BoolVal(True)), c.LDOIs == c.old.LDOIs)))])},
        note="for an AsynchronousGraph argument; when no table is given it is computed by find_single_node_LDOIs"))
