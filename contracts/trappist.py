"""Contracts for biobalm/trappist_core.py (the trap-space solver wrappers). Sidecar; no repository code.

Callback schema (DESIGN.md 6.4, TRUSTED meta-argument = induction over the sequence of callback invocations):
`trappist_async` / `compute_fixed_point_reduced_STG_async` call `on_solution` on the elements of the solver's
enumeration, in order, until it returns False.  For an *appending* callback (contract with `append_schema`:
appends its argument to one captured list and returns cont(new length)) the captured list afterwards is
old ++ sols[0..m) where every call but the last returned True and m = len(sols) or the last call returned False."""
import z3
from pyvc.vtypes import *
from pyvc.contract import Contract, LoopContract, Ctx
from pyvc import theory as T
from pyvc import sdmodel as M
from pyvc import engine as E
from .deps import LSet, SrcOf, AvoidOf, NoSrc, elems_wf, LS, LN, OptInt, OptSpace, OptLS, OptLN

a = z3.Int("a")
EMPTYS = z3.K(Name, z3.IntVal(-1))
RetainedSig = T.SpaceS
ReducedSol = z3.Function("ReducedSol", T.PNS, T.SpaceS, T.SpaceS, T.AvoidSig, T.SpaceSet)   # deadlocks of Reduced(pn, retained) inside ensure, outside avoid


def _cont(limit):
    """save_result's return value as a function of the new list length"""
    return lambda n: z3.Or(OptInt.is_none(limit), n < OptInt.val(limit))


def _save_result_contract(outer):
    def post_append(c):
        r, o = c.results, c.old.results
        return z3.And(LS.len(r) == LS.len(o) + 1, LS.at(r)[LS.len(o)] == c.x,
                      z3.ForAll([a], z3.Implies(z3.And(0 <= a, a < LS.len(o)), LS.at(r)[a] == LS.at(o)[a])))
    return Contract(
        outer + ".save_result", params=[("x", TSpace)], captured=[("results", LS), ("solution_limit", OptInt)],
        result_type=TBool, modifies={"results": True}, properties=("C09", "C15"),
        requires=[lambda c: LS.len(c.results) >= 0],
        ensures=[("appended", post_append),
                 ("continue_while_below_limit", lambda c: c.result == _cont(c.solution_limit)(LS.len(c.results)))],
        append_schema={"list": "results", "cont": lambda c, n: _cont(c.solution_limit)(n)},
    )


def _async_apply(sol_set):
    """call-site model of the two *_async functions for an appending callback"""
    def apply(eng, st, c, argmap, exprmap, node):
        for nm, ty in c.params:
            if ty is not None:
                argmap[nm] = eng.coerce(argmap[nm], ty, st)
        cb = argmap["on_solution"]
        if not isinstance(cb, E._Closure):
            raise OutOfSubset("on_solution is not a local function")
        cbc = eng.reg.lookup_nested(eng.c.qualname, cb.node.name)
        if cbc is None or cbc.append_schema is None:
            raise OutOfSubset("callback without an append schema")
        lname = cbc.append_schema["list"]
        old = st.env[lname]
        # failure of the solver: RuntimeError, captured list arbitrary (it is discarded by every caller)
        fs = st.clone()
        fs.env[lname] = LS.fresh(lname)
        eng.fork_raise(fs, "RuntimeError")
        ctx = Ctx(eng, st, argmap)
        X = sol_set(ctx)
        sols = LS.fresh("sols")
        m = z3.Int(fresh_name("ncalls"))
        st.assume(z3.And(LS.len(sols.t) >= 0, T.IsEnum(sols.t, X), elems_wf(sols.t)))
        st.assume(z3.And(0 <= m, m <= LS.len(sols.t), z3.Implies(LS.len(sols.t) > 0, m >= 1)))
        new = LS.fresh(lname)
        n0 = LS.len(old.t)
        j = z3.Int(fresh_name("j"))
        st.assume(LS.len(new.t) == n0 + m)
        st.assume(z3.ForAll([j], z3.Implies(z3.And(0 <= j, j < n0), LS.at(new.t)[j] == LS.at(old.t)[j])))
        st.assume(z3.ForAll([j], z3.Implies(z3.And(0 <= j, j < m), LS.at(new.t)[n0 + j] == LS.at(sols.t)[j])))
        st.assume(z3.Implies(z3.And(n0 == 0, m == LS.len(sols.t)), new.t == sols.t))
        cbctx = Ctx(eng, st, dict(st.env))
        cont = cbc.append_schema["cont"]
        st.assume(z3.ForAll([j], z3.Implies(z3.And(1 <= j, j < m), cont(cbctx, n0 + j))))
        st.assume(z3.Or(m == LS.len(sols.t), z3.And(m >= 1, z3.Not(cont(cbctx, n0 + m)))))
        st.env[lname] = new
        st.ghost["sols"] = sols.t
        return NONE
    return apply


def _trap_set(c):
    return T.TrapSol(c.network, c.problem, c.reverse_time, c.ensure_subspace, AvoidOf(c.avoid_subspaces),
                     z3.If(OptLN.is_none(c.optimize_source_variables), SrcOf(c.network), LSet(OptLN.val(c.optimize_source_variables))))


def _trap_set_opt(c):
    """same set, for the Optional-typed parameters of trappist()"""
    return T.TrapSol(
        c.network, c.problem, c.reverse_time,
        z3.If(OptSpace.is_none(c.ensure_subspace), EMPTYS, OptSpace.val(c.ensure_subspace)),
        z3.If(OptLS.is_none(c.avoid_subspaces), T.no_avoid, AvoidOf(OptLS.val(c.avoid_subspaces))),
        z3.If(OptLN.is_none(c.optimize_source_variables), SrcOf(c.network), LSet(OptLN.val(c.optimize_source_variables))))


_l0 = z3.Const("l!0", LS.sort())
AX_AVOID = [z3.ForAll([_l0], z3.Implies(LS.len(_l0) == 0, AvoidOf(_l0) == T.no_avoid), patterns=[AvoidOf(_l0)])]


def limit_clauses(c, lim):
    return z3.Implies(z3.Not(OptInt.is_none(lim)), z3.And(
        z3.Implies(OptInt.val(lim) <= 0, LS.len(c.result) == 0),
        z3.Implies(OptInt.val(lim) >= 1, LS.len(c.result) <= OptInt.val(lim))))


def install(reg):
    # ---- assumed composites (clingo + encoding + model conversion), DESIGN.md 6.3; listed as trusted
    reg.add(Contract(
        "biobalm.trappist_core.trappist_async", trusted=True,
        params=[("network", M.TPN), ("on_solution", None), ("problem", TInt), ("reverse_time", TBool),
                ("ensure_subspace", TSpace), ("avoid_subspaces", LS), ("optimize_source_variables", OptLN)],
        defaults={"problem": 0, "reverse_time": False},
        properties=("C09",), custom_apply=_async_apply(_trap_set),
        note="enumerates TrapSol(pn, problem, reverse, ensure, avoid, sources) via _create_clingo_constraints + clingo domRec enumeration + "
             "_clingo_model_to_space and feeds each solution to on_solution until it returns False (callback schema, DESIGN.md 6.4)"))
    reg.add(Contract(
        "biobalm.trappist_core.compute_fixed_point_reduced_STG_async", trusted=True,
        params=[("petri_net", M.TPN), ("retained_set", TSpace), ("on_solution", None), ("ensure_subspace", TSpace), ("avoid_subspaces", LS)],
        properties=("C09",),
        custom_apply=_async_apply(lambda c: ReducedSol(c.petri_net, c.retained_set, c.ensure_subspace, AvoidOf(c.avoid_subspaces))),
        note="enumerates the deadlocks of the net reduced by the retained set via _create_clingo_fixed_point_constraints + clingo"))

    reg.add(_save_result_contract("biobalm.trappist_core.trappist"), nested_in="biobalm.trappist_core.trappist")
    reg.add(_save_result_contract("biobalm.trappist_core.compute_fixed_point_reduced_STG"),
            nested_in="biobalm.trappist_core.compute_fixed_point_reduced_STG")

    # ---- trappist (verified against its body, using the callback schema)
    reg.add(Contract(
        "biobalm.trappist_core.trappist",
        params=[("network", M.TPN), ("problem", TInt), ("reverse_time", TBool), ("solution_limit", OptInt),
                ("ensure_subspace", OptSpace), ("avoid_subspaces", OptLS), ("optimize_source_variables", OptLN)],
        defaults={"problem": 0, "reverse_time": False, "solution_limit": None, "ensure_subspace": None,
                  "avoid_subspaces": None, "optimize_source_variables": None},
        result_type=LS, properties=("C09", "C02", "C03", "C04", "C15"),
        may_raise={"RuntimeError": {}}, raises={"RuntimeError": []},
        axioms=AX_AVOID,
        ensures=[("elements_wf", lambda c: elems_wf(c.result)),
                 ("limit_respected", lambda c: limit_clauses(c, c.solution_limit)),
                 ("complete_unless_truncated", lambda c: z3.Implies(
                     z3.Or(OptInt.is_none(c.solution_limit), LS.len(c.result) < OptInt.val(c.solution_limit)),
                     T.IsEnum(c.result, _trap_set_opt(c))))],
        local_types={"results": LS},
    ))

    # ---- compute_fixed_point_reduced_STG
    reg.add(Contract(
        "biobalm.trappist_core.compute_fixed_point_reduced_STG",
        params=[("petri_net", M.TPN), ("retained_set", TSpace), ("ensure_subspace", TSpace), ("avoid_subspaces", LS), ("solution_limit", OptInt)],
        defaults={"solution_limit": None, "retained_set": TSpace.empty(), "ensure_subspace": TSpace.empty(), "avoid_subspaces": LS.empty()},
        result_type=LS, properties=("C09", "C08", "C01"),
        may_raise={"RuntimeError": {}}, raises={"RuntimeError": []},
        axioms=AX_AVOID,
        ensures=[("elements_wf", lambda c: elems_wf(c.result)),
                 ("limit_respected", lambda c: limit_clauses(c, c.solution_limit)),
                 ("complete_unless_truncated", lambda c: z3.Implies(
                     z3.Or(OptInt.is_none(c.solution_limit), LS.len(c.result) < OptInt.val(c.solution_limit)),
                     T.IsEnum(c.result, ReducedSol(c.petri_net, c.retained_set, c.ensure_subspace, AvoidOf(c.avoid_subspaces)))))],
        local_types={"results": LS},
    ))


def install_models(reg):
    from pyvc import pnmodel as P
    n, m2 = z3.Const("n", P.PNode), z3.Const("m", P.PNode)
    v = z3.Const("v", Name)
    atoms = lambda c: P.atoms_of(c.model)
    wf_model = lambda c: z3.And(
        z3.ForAll([n], z3.Implies(atoms(c)[n], z3.And(P.is_place(n), n == P.place(P.pvar(n), P.ppos(n))))),
        z3.ForAll([n, m2], z3.Implies(z3.And(atoms(c)[n], atoms(c)[m2], P.pvar(n) == P.pvar(m2)), n == m2)))
    for fname, pos_val in (("_clingo_model_to_space", 0), ("_clingo_model_to_fixed_point", 1)):
        reg.add(Contract(
            "biobalm.trappist_core." + fname, params=[("model", P.TModel)], result_type=TSpace,
            properties=("C09",),
            requires=[wf_model],
            ensures=[("polarity_map", (lambda pv: lambda c: z3.ForAll([v], c.result[v] == z3.If(
                atoms(c)[P.place(v, True)], pv, z3.If(atoms(c)[P.place(v, False)], 1 - pv, -1))))(pos_val))],
            axioms=P.AX_PLACE,
            local_types={"space": TSpace},
            loops={0: LoopContract("for atom in model.symbols(atoms=True)", (lambda pv: lambda c: [
                ("converted_so_far", z3.ForAll([v], c.space[v] == z3.If(
                    z3.And(atoms(c)[P.place(v, True)], c.visited[P.place(v, True)]), pv,
                    z3.If(z3.And(atoms(c)[P.place(v, False)], c.visited[P.place(v, False)]), 1 - pv, -1))))])(pos_val))},
            note="a siphon atom p_v means 'v cannot become 1 ... ' (inverted polarity) for trap spaces; direct polarity for fixed points",
        ))
